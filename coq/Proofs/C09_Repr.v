(* C09 — the line-by-line transcription of mathutil.BinaryLog (binary_log_f: big.Int numerator + fracBits,
   partial trailing-zero stripping in normalize(), early exit on eq1()) computes the same result as the
   value-semantics model binary_log the theorems are stated over, for every n > 0, provided no squaring
   step rounds to exactly 2.0 (decidable side condition on the number of mantissa bits, true for 64). *)
From Coq Require Import List ZArith Bool Lia.
From GQ Require Import Generated.C09Params Model.C09 Proofs.C09_Log.
Import ListNotations.
Local Open Scope Z_scope.

(* no integer x has x^2 rounding (to mb fractional bits) to exactly 2 * 2^mb *)
Definition no_sqrt2_hit (mb : Z) : bool :=
  let s := Z.sqrt (2 ^ (2 * mb + 1) + 2 ^ (mb - 1) - 1) in
  s * s <? 2 ^ (2 * mb + 1) - 2 ^ (mb - 1).

Section Repr.
Variable mb : Z.
Hypothesis Hmb : 1 <= mb.
Hypothesis Hsq : no_sqrt2_hit mb = true.

(* scaled value of a float with at most mb fractional bits *)
Definition sval (x : bfloat) : Z := f_n x * 2 ^ (mb - f_fb x).
Definition wf (x : bfloat) : Prop := 0 < f_n x /\ 0 <= f_fb x <= mb.

Lemma pow2_S k : 0 <= k -> 2 ^ (k + 1) = 2 ^ k * 2.
Proof. intros Hk. rewrite Z.pow_add_r by lia. reflexivity. Qed.
Lemma pow2_P k : 1 <= k -> 2 ^ k = 2 ^ (k - 1) * 2.
Proof. intros Hk. rewrite <- pow2_S by lia. f_equal. lia. Qed.

(** ** bit-level facts *)
Lemma round_shift n d : 0 <= n -> 1 <= d ->
  Z.shiftr n d + Z.b2z (Z.testbit n (d - 1)) = (n + 2 ^ (d - 1)) / 2 ^ d.
Proof.
  intros Hn Hd. rewrite shr_div by lia.
  assert (Hp : 0 < 2 ^ (d - 1)) by (apply pow2_gt0; lia).
  assert (E2 : 2 ^ d = 2 ^ (d - 1) * 2) by (apply pow2_P; lia).
  set (a := n / 2 ^ (d - 1)).
  assert (Hb : Z.b2z (Z.testbit n (d - 1)) = a mod 2).
  { rewrite Z.testbit_spec' by lia. reflexivity. }
  assert (Hq : n / 2 ^ d = a / 2).
  { rewrite E2. rewrite <- Z.div_div by lia. reflexivity. }
  assert (Hr : (n + 2 ^ (d - 1)) / 2 ^ d = (a + 1) / 2).
  { rewrite E2. rewrite <- Z.div_div by lia. f_equal.
    replace (n + 2 ^ (d - 1)) with (n + 1 * 2 ^ (d - 1)) by lia. rewrite Z.div_add by lia. reflexivity. }
  rewrite Hb, Hq, Hr.
  pose proof (Z.div_mod a 2 ltac:(lia)) as Ea. pose proof (Z.mod_pos_bound a 2 ltac:(lia)) as Ba.
  assert (Hcase : a mod 2 = 0 \/ a mod 2 = 1) by lia.
  destruct Hcase as [E|E]; rewrite E in *.
  - apply Z.div_unique with (r := 1); lia.
  - apply Z.div_unique with (r := 0); lia.
Qed.

Lemma low_bits_zero n k : 0 <= k -> (forall j, 0 <= j < k -> Z.testbit n j = false) -> n = Z.shiftr n k * 2 ^ k.
Proof.
  intros Hk Hz. rewrite shr_div by lia.
  assert (Hm : n mod 2 ^ k = 0).
  { apply Z.bits_inj_0. intros j. destruct (Z_lt_le_dec j 0) as [Hj|Hj].
    - apply Z.testbit_neg_r. exact Hj.
    - destruct (Z_lt_le_dec j k) as [Hjk|Hjk].
      + rewrite Z.mod_pow2_bits_low by lia. apply Hz. lia.
      + apply Z.mod_pow2_bits_high. lia. }
  pose proof (Z.div_mod n (2 ^ k) ltac:(pose proof (pow2_gt0 k Hk); lia)). lia.
Qed.

Lemma strip_loop_spec : forall fuel n fb i fb' i', 0 <= i -> 0 <= fb ->
  strip_loop fuel n fb i = (fb', i') ->
  i <= i' /\ fb' = fb - (i' - i) /\ 0 <= fb' /\ (forall j, i <= j < i' -> Z.testbit n j = false).
Proof.
  induction fuel as [|fuel IH]; intros n fb i fb' i' Hi Hfb H; cbn [strip_loop] in H.
  - inversion H; subst. repeat split; lia.
  - destruct ((0 <? fb) && (i <=? fb) && negb (Z.testbit n i)) eqn:E.
    + apply andb_prop in E. destruct E as [E E3]. apply andb_prop in E. destruct E as [E1 E2].
      apply Z.ltb_lt in E1. apply negb_true_iff in E3.
      destruct (IH n (fb - 1) (i + 1) fb' i' ltac:(lia) ltac:(lia) H) as (A & B & C & D).
      repeat split; try lia. intros j Hj. destruct (Z.eq_dec j i) as [->|Hne]; [exact E3|apply D; lia].
    + inversion H; subst. repeat split; lia.
Qed.

(** ** normalize *)
Definition round_to (n fb : Z) : Z :=
  if fb <=? mb then n * 2 ^ (mb - fb) else (n + 2 ^ (fb - mb - 1)) / 2 ^ (fb - mb).

Lemma normalize_spec n fb : 0 < n -> 0 <= fb ->
  let x := normalize mb (mkF n fb) in
  0 <= f_fb x <= mb /\ 0 <= f_n x /\ sval x = round_to n fb.
Proof.
  intros Hn Hfb. unfold normalize. cbn [f_n f_fb].
  destruct (Z.eqb_spec n 0); [lia|].
  set (r := if 0 <? fb - mb then (Z.shiftr n (fb - mb) + Z.b2z (Z.testbit n (fb - mb - 1)), fb - (fb - mb)) else (n, fb)).
  assert (Hr : 0 <= fst r /\ 0 <= snd r <= mb /\ fst r * 2 ^ (mb - snd r) = round_to n fb).
  { subst r. unfold round_to. destruct (Z.ltb_spec 0 (fb - mb)) as [Hgt|Hle]; cbn [fst snd].
    - destruct (Z.leb_spec fb mb); [lia|].
      rewrite round_shift by lia.
      replace (mb - (fb - (fb - mb))) with 0 by lia. rewrite Z.mul_1_r.
      split; [apply Z.div_pos; [pose proof (pow2_gt0 (fb - mb - 1)); lia|apply pow2_gt0; lia]|].
      split; [lia|]. reflexivity.
    - destruct (Z.leb_spec fb mb); [|lia]. split; [lia|]. split; [lia|reflexivity]. }
  clearbody r. destruct r as [n1 fb1]. cbn [fst snd] in Hr. destruct Hr as (Hn1 & Hfb1 & Hv).
  destruct (strip_loop (Z.to_nat fb1 + 1) n1 fb1 0) as [fb2 i] eqn:ES.
  destruct (strip_loop_spec _ n1 fb1 0 fb2 i (Z.le_refl 0) (proj1 Hfb1) ES) as (Hi & Efb2 & Hfb2 & Hz).
  cbn [f_n f_fb]. unfold sval. cbn [f_n f_fb].
  assert (En1 : n1 = Z.shiftr n1 i * 2 ^ i) by (apply low_bits_zero; [lia|intros j Hj; apply Hz; lia]).
  assert (Hsh : 0 <= Z.shiftr n1 i) by (apply Z.shiftr_nonneg; exact Hn1).
  destruct (Z.eqb_spec i 0) as [->|Hi0].
  - replace fb2 with fb1 by lia. repeat split; try lia.
  - split; [lia|]. split; [exact Hsh|].
    rewrite <- Hv. rewrite En1 at 2. rewrite <- Z.mul_assoc, <- Z.pow_add_r by lia. f_equal. f_equal. lia.
Qed.

(* values >= 1 stay representable: positivity of the numerator after normalisation *)
Lemma normalize_wf n fb : 0 < n -> 0 <= fb -> 2 ^ mb <= round_to n fb ->
  wf (normalize mb (mkF n fb)).
Proof.
  intros Hn Hfb Hge. destruct (normalize_spec n fb Hn Hfb) as (A & B & C). unfold wf. split; [|exact A].
  unfold sval in C. assert (0 < 2 ^ mb) by (apply pow2_gt0; lia).
  assert (0 < 2 ^ (mb - f_fb (normalize mb (mkF n fb)))) by (apply pow2_gt0; lia). nia.
Qed.

(** ** the operations on well-formed floats *)
Lemma bitlen_gt n k : 0 < n -> 0 <= k -> (k <? bitlen n) = (2 ^ k <=? n).
Proof.
  intros Hn Hk. unfold bitlen. destruct (Z.leb_spec n 0); [lia|].
  destruct (Z.leb_spec (2 ^ k) n) as [H1|H1].
  - apply Z.ltb_lt. apply Z.log2_le_pow2 in H1; lia.
  - apply Z.ltb_ge. apply Z.log2_lt_pow2 in H1; lia.
Qed.

Lemma ge2_spec x : wf x -> f_ge2 x = (2 ^ (mb + 1) <=? sval x).
Proof.
  intros [Hn Hfb]. unfold f_ge2, sval. rewrite bitlen_gt by lia.
  assert (Hp : 0 < 2 ^ (mb - f_fb x)) by (apply pow2_gt0; lia).
  assert (E : 2 ^ (mb + 1) = 2 ^ (f_fb x + 1) * 2 ^ (mb - f_fb x)) by (rewrite <- Z.pow_add_r by lia; f_equal; lia).
  rewrite E. destruct (Z.leb_spec (2 ^ (f_fb x + 1)) (f_n x)); symmetry; [apply Z.leb_le|apply Z.leb_gt]; nia.
Qed.

Lemma eq1_val x : wf x -> f_eq1 x = true -> sval x = 2 ^ mb.
Proof.
  intros [Hn Hfb] H. unfold f_eq1 in H. apply andb_prop in H. destruct H as [H1 H2].
  apply Z.eqb_eq in H1. apply Z.eqb_eq in H2. unfold bitlen in H2. destruct (Z.leb_spec (f_n x) 0) as [Hle|Hgt]; [lia|].
  assert (Hl : Z.log2 (f_n x) = 0) by lia.
  assert (Hone : f_n x = 1).
  { pose proof (Z.log2_spec (f_n x) Hn) as S. rewrite Hl in S. cbn in S. lia. }
  unfold sval. rewrite Hone, H1. rewrite Z.sub_0_r. lia.
Qed.

Lemma sqr_val x : wf x -> 2 ^ mb <= sval x ->
  sval (f_sqr mb x) = step_y mb (sval x) /\ wf (f_sqr mb x).
Proof.
  intros [Hn Hfb] Hge. unfold f_sqr.
  assert (Hnn : 0 < f_n x * f_n x) by nia.
  assert (Hv : round_to (f_n x * f_n x) (2 * f_fb x) = step_y mb (sval x)).
  { unfold round_to, step_y, sval. set (n := f_n x) in *. set (fb := f_fb x) in *.
    assert (Hpm : 0 < 2 ^ mb) by (apply pow2_gt0; lia).
    destruct (Z.leb_spec (2 * fb) mb) as [Hle|Hgt].
    - (* exact: the square already fits *)
      assert (E : n * 2 ^ (mb - fb) * (n * 2 ^ (mb - fb)) = n * n * 2 ^ (mb - 2 * fb) * 2 ^ mb).
      { assert (HA : 2 ^ (mb - fb) * 2 ^ (mb - fb) = 2 ^ (mb - 2 * fb) * 2 ^ mb)
          by (rewrite <- !Z.pow_add_r by lia; f_equal; lia).
        replace (n * 2 ^ (mb - fb) * (n * 2 ^ (mb - fb))) with (n * n * (2 ^ (mb - fb) * 2 ^ (mb - fb))) by ring.
        rewrite HA. ring. }
      rewrite E. assert (Hh : 0 < 2 ^ (mb - 1) < 2 ^ mb).
      { split; [apply pow2_gt0; lia|apply Z.pow_lt_mono_r; lia]. }
      apply Z.div_unique with (r := 2 ^ (mb - 1)); lia.
    - (* rounded: scale numerator and denominator by 2^(2mb-2fb) *)
      assert (Hs : 0 < 2 ^ (2 * mb - 2 * fb)) by (apply pow2_gt0; lia).
      assert (E1 : n * 2 ^ (mb - fb) * (n * 2 ^ (mb - fb)) + 2 ^ (mb - 1)
                   = (n * n + 2 ^ (2 * fb - mb - 1)) * 2 ^ (2 * mb - 2 * fb)).
      { assert (HA : 2 ^ (mb - fb) * 2 ^ (mb - fb) = 2 ^ (2 * mb - 2 * fb))
          by (rewrite <- Z.pow_add_r by lia; f_equal; lia).
        assert (HB : 2 ^ (mb - 1) = 2 ^ (2 * fb - mb - 1) * 2 ^ (2 * mb - 2 * fb))
          by (rewrite <- Z.pow_add_r by lia; f_equal; lia).
        replace (n * 2 ^ (mb - fb) * (n * 2 ^ (mb - fb))) with (n * n * (2 ^ (mb - fb) * 2 ^ (mb - fb))) by ring.
        rewrite HA, HB. ring. }
      assert (E2 : 2 ^ mb = 2 ^ (2 * fb - mb) * 2 ^ (2 * mb - 2 * fb)) by (rewrite <- Z.pow_add_r by lia; f_equal; lia).
      rewrite E1, E2. rewrite Z.div_mul_cancel_r; [reflexivity|pose proof (pow2_gt0 (2 * fb - mb)); lia|lia]. }
  destruct (normalize_spec (f_n x * f_n x) (2 * f_fb x) Hnn ltac:(lia)) as (A & B & C).
  split; [rewrite C; exact Hv|].
  apply normalize_wf; [exact Hnn|lia|]. rewrite Hv.
  (* y >= x^2 / 2^mb >= 2^mb *)
  unfold step_y. apply Z.div_le_lower_bound; [apply pow2_gt0; lia|].
  assert (0 < 2 ^ (mb - 1)) by (apply pow2_gt0; lia). assert (0 < 2 ^ mb) by (apply pow2_gt0; lia). nia.
Qed.

Lemma div2_val x : wf x -> 2 ^ (mb + 1) <= sval x ->
  sval (f_div2 mb x) = (sval x + 1) / 2 /\ wf (f_div2 mb x).
Proof.
  intros [Hn Hfb] Hge. unfold f_div2.
  assert (Hv : round_to (f_n x) (f_fb x + 1) = (sval x + 1) / 2).
  { unfold round_to, sval. set (n := f_n x) in *. set (fb := f_fb x) in *.
    destruct (Z.leb_spec (fb + 1) mb) as [Hle|Hgt].
    - assert (E : 2 ^ (mb - fb) = 2 ^ (mb - (fb + 1)) * 2) by (replace (mb - (fb + 1)) with (mb - fb - 1) by lia; apply pow2_P; lia).
      rewrite E. apply Z.div_unique with (r := 1); lia.
    - assert (fb = mb) by lia. replace (fb + 1 - mb - 1) with 0 by lia. replace (fb + 1 - mb) with 1 by lia.
      replace (mb - fb) with 0 by lia. change (2 ^ 0) with 1. change (2 ^ 1) with 2. rewrite Z.mul_1_r. reflexivity. }
  destruct (normalize_spec (f_n x) (f_fb x + 1) Hn ltac:(lia)) as (A & B & C).
  split; [rewrite C; exact Hv|].
  apply normalize_wf; [exact Hn|lia|]. rewrite Hv.
  assert (E : 2 ^ (mb + 1) = 2 ^ mb * 2) by (apply pow2_S; lia).
  apply Z.div_le_lower_bound; lia.
Qed.

(** ** the squaring step never lands exactly on 2.0 *)
Lemma never_exactly_two X : 0 <= X -> step_y mb X <> 2 ^ (mb + 1).
Proof.
  intros HX Hy. unfold no_sqrt2_hit in Hsq. cbv zeta in Hsq. apply Z.ltb_lt in Hsq.
  set (T := 2 ^ (2 * mb + 1) + 2 ^ (mb - 1) - 1) in *.
  assert (Hpm : 0 < 2 ^ mb) by (apply pow2_gt0; lia).
  assert (Hh : 0 < 2 ^ (mb - 1)) by (apply pow2_gt0; lia).
  assert (E1 : 2 ^ (mb + 1) * 2 ^ mb = 2 ^ (2 * mb + 1)) by (rewrite <- Z.pow_add_r by lia; f_equal; lia).
  assert (E2 : 2 ^ mb = 2 ^ (mb - 1) * 2) by (apply pow2_P; lia).
  unfold step_y in Hy.
  pose proof (Z.div_mod (X * X + 2 ^ (mb - 1)) (2 ^ mb) ltac:(lia)) as D.
  pose proof (Z.mod_pos_bound (X * X + 2 ^ (mb - 1)) (2 ^ mb) Hpm) as B.
  rewrite Hy in D.
  assert (Hlo : 2 ^ (2 * mb + 1) - 2 ^ (mb - 1) <= X * X) by nia.
  assert (Hhi : X * X <= T) by (subst T; nia).
  assert (HT : 0 <= T) by (subst T; pose proof (pow2_gt0 (2 * mb + 1)); lia).
  pose proof (Z.sqrt_spec T HT) as [S1 S2].
  assert (X <= Z.sqrt T) by (pose proof (Z.sqrt_nonneg T); nia).
  assert (X * X <= Z.sqrt T * Z.sqrt T) by (apply Z.mul_le_mono_nonneg; lia).
  lia.
Qed.

(** ** the loop *)
Lemma loop_equiv : forall k x m, wf x -> 2 ^ mb <= sval x -> (sval x = 2 ^ mb -> m = 0) ->
  blog_loop_f mb k x m = blog_mant mb k (sval x) m.
Proof.
  induction k as [|k IH]; intros x m Hwf Hge Hm; [reflexivity|].
  cbn [blog_loop_f]. destruct (f_eq1 x) eqn:E1.
  - pose proof (eq1_val x Hwf E1) as Hv. rewrite Hv, (Hm Hv). symmetry. apply blog_mant_at_one. exact Hmb.
  - rewrite blog_mant_S. rewrite blog_step_spec by exact Hmb.
    destruct (sqr_val x Hwf Hge) as [Ey Wy].
    rewrite (ge2_spec _ Wy), Ey.
    assert (Hy : 2 ^ mb <= step_y mb (sval x)).
    { unfold step_y. apply Z.div_le_lower_bound; [apply pow2_gt0; lia|].
      assert (0 < 2 ^ (mb - 1)) by (apply pow2_gt0; lia). assert (0 < 2 ^ mb) by (apply pow2_gt0; lia). nia. }
    assert (Hone : sval x = 2 ^ mb -> step_y mb (sval x) = 2 ^ mb).
    { intros Ev. rewrite Ev. apply step_y_at_one. exact Hmb. }
    assert (Hgt : sval x <> 2 ^ mb -> 2 ^ mb < step_y mb (sval x)).
    { intros Hne. assert (Hs : 2 ^ mb + 1 <= step_y mb (sval x)); [|lia].
      unfold step_y. apply Z.div_le_lower_bound; [apply pow2_gt0; lia|].
      assert (0 < 2 ^ (mb - 1)) by (apply pow2_gt0; lia). assert (0 < 2 ^ mb) by (apply pow2_gt0; lia). nia. }
    destruct (Z.leb_spec (2 ^ (mb + 1)) (step_y mb (sval x))) as [Hb|Hb]; cbn [fst snd Z.b2z].
    + (* bit 1: div2 *)
      destruct (div2_val (f_sqr mb x) Wy ltac:(rewrite Ey; exact Hb)) as [Ed Wd].
      rewrite <- Ey, <- Ed. apply IH; [exact Wd| |].
      * rewrite Ed, Ey. apply Z.div_le_lower_bound; [lia|].
        assert (E : 2 ^ (mb + 1) = 2 ^ mb * 2) by (apply pow2_S; lia). lia.
      * (* value 1 after div2 would need the square to be exactly 2.0 *)
        rewrite Ed, Ey. intros Hv. exfalso.
        assert (E : 2 ^ (mb + 1) = 2 ^ mb * 2) by (apply pow2_S; lia).
        assert (step_y mb (sval x) = 2 ^ (mb + 1)).
        { pose proof (Z.div_mod (step_y mb (sval x) + 1) 2 ltac:(lia)) as D.
          pose proof (Z.mod_pos_bound (step_y mb (sval x) + 1) 2 ltac:(lia)) as B. lia. }
        apply (never_exactly_two (sval x)); [|assumption].
        assert (0 < 2 ^ mb) by (apply pow2_gt0; lia). lia.
    + (* bit 0 *)
      rewrite <- Ey. replace (2 * m + 0) with (2 * m) by lia. apply IH; [exact Wy|rewrite Ey; exact Hy|].
      rewrite Ey. intros Hv. destruct (Z.eq_dec (sval x) (2 ^ mb)) as [Ev|Hne].
      * rewrite (Hm Ev). reflexivity.
      * specialize (Hgt Hne). lia.
Qed.

Lemma init_equiv n : 0 < n ->
  let x := normalize mb (mkF n (Z.log2 n)) in
  wf x /\ sval x = blog_init mb n /\ 2 ^ mb <= sval x.
Proof.
  intros Hn. cbv zeta.
  pose proof (Z.log2_nonneg n) as Hl. pose proof (Z.log2_spec n Hn) as [L1 L2].
  assert (Hv : round_to n (Z.log2 n) = blog_init mb n).
  { unfold round_to. rewrite blog_init_spec by assumption. reflexivity. }
  assert (Hge : 2 ^ mb <= round_to n (Z.log2 n)).
  { unfold round_to. destruct (Z.leb_spec (Z.log2 n) mb).
    - assert (E : 2 ^ mb = 2 ^ Z.log2 n * 2 ^ (mb - Z.log2 n)) by (rewrite <- Z.pow_add_r by lia; f_equal; lia).
      rewrite E. apply Z.mul_le_mono_nonneg_r; [pose proof (pow2_gt0 (mb - Z.log2 n)); lia|exact L1].
    - apply Z.div_le_lower_bound; [apply pow2_gt0; lia|].
      rewrite <- Z.pow_add_r by lia. replace (Z.log2 n - mb + mb) with (Z.log2 n) by lia.
      pose proof (pow2_gt0 (Z.log2 n - mb - 1)). lia. }
  destruct (normalize_spec n (Z.log2 n) Hn Hl) as (A & B & C).
  split; [apply normalize_wf; assumption|]. split; [rewrite C; exact Hv|rewrite C; exact Hge].
Qed.

Theorem binary_log_f_eq n : 0 < n -> binary_log_f n mb = binary_log n mb.
Proof.
  intros Hn. unfold binary_log_f, binary_log. cbv zeta. f_equal.
  destruct (init_equiv n Hn) as (W & E & G).
  rewrite <- E. apply loop_equiv; [exact W|exact G|intros _; reflexivity].
Qed.

End Repr.

Lemma no_sqrt2_hit_64 : no_sqrt2_hit mant_bits = true.
Proof. vm_compute. reflexivity. Qed.

(* common.LogBig as transcribed line by line = common.LogBig as modelled *)
Theorem log_big_f_eq n : 0 < n -> log_big_f n = log_big n.
Proof.
  intros Hn. unfold log_big_f, log_big.
  rewrite (binary_log_f_eq mant_bits mant_bits_ge1 no_sqrt2_hit_64 n Hn). reflexivity.
Qed.

(* C16 — a whole Qi transaction through ProcessQiTx (Model/C16.v: qi_data_ok, qi_step, qi_loop,
   qi_finish, qi_process).  For EVERY list of outputs, data, owners of the spent inputs, zone
   location and prime terminus number: what an accepted transaction creates respects the partition
   (UTXOs only for in-zone Qi addresses from the fork QiWrappingChangeBlock on; the wrapping branch
   before that fork is the one exception and is refuted with a witness), ordinary ETXs go to
   foreign-zone Qi addresses, the aggregated conversion / wrapping ETX goes to an in-zone Quai
   address, and a Quai-ledger output that is not an in-zone conversion / wrapping output makes the
   whole transaction fail wherever it stands in the list. *)
From Coq Require Import List NArith PeanoNat Arith Bool Lia ZifyBool ZifyNat ZifyN.
From GQ Require Import Lib.Key Model.C16 Generated.C16Sites Proofs.C16.
Import ListNotations.
Local Open Scope N_scope.
Local Notation length := List.length (only parsing).

(* ------------------------------------------------------------------ *)
(* what one event must satisfy *)

Definition utxo_ok (l : location) (skip : bool) (data : bytes) (outs : list bytes) (owner : bytes) : Prop :=
  In owner outs /\ in_zone (to20 owner) l = true
  /\ ((is_qi (to20 owner) = true /\ is_quai (to20 owner) = false)
      \/ (skip = false /\ length data = 20%nat /\ is_quai (to20 owner) = true)).

Definition etx_ok (l : location) (ty cls : N) (to : bytes) : Prop :=
  length to = 20%nat
  /\ (if ty =? 0 then in_zone to l = false /\ is_qi to = true /\ is_quai to = false /\ cls = 1
      else in_zone to l = true /\ is_quai to = true /\ is_qi to = false /\ cls = 0).

Definition ev_ok (l : location) (skip : bool) (data : bytes) (outs : list bytes) (e : qi_ev) : Prop :=
  match e with
  | EvUtxo _ owner => utxo_ok l skip data outs owner
  | EvEtx ty _ cls to => etx_ok l ty cls to
  end.

(* invariant of the loop state: convertAddress, once set, is a 20-byte in-zone Quai address *)
Definition cto_ok (l : location) (st : qi_st) : Prop :=
  q_conv st || q_wrap st = true ->
  length (q_cto st) = 20%nat /\ in_zone (q_cto st) l = true /\ is_quai (q_cto st) = true.

(* ------------------------------------------------------------------ *)
(* basic facts *)

Lemma here_is_in_zone addr l : wf_bytes addr -> valid_zone l ->
  loc_eqb (location_of (to20 addr)) l = in_zone (to20 addr) l.
Proof.
  intros Hw Hv. apply loc_eqb_in_zone; [|exact Hv]. apply wf_nth, set_bytes_wf, Hw.
Qed.

Lemma class_of_spec b l : class_of b l = if in_zone (to20 b) l then 0 else 1.
Proof.
  unfold class_of, bytes_to_address, fix_applied. rewrite bta_fixed_spec. unfold classify.
  destruct (in_zone (to20 b) l); reflexivity.
Qed.

Lemma quai_not_qi a : is_quai a = true -> is_qi a = false.
Proof. intros H. rewrite ledger_negb, H. reflexivity. Qed.

Lemma qi_not_quai a : is_qi a = true -> is_quai a = false.
Proof. intros H. rewrite ledger_negb in H. destruct (is_quai a); [discriminate|reflexivity]. Qed.

Lemma not_quai_is_qi a : is_quai a = false -> is_qi a = true.
Proof. intros H. rewrite ledger_negb, H. reflexivity. Qed.

(* ------------------------------------------------------------------ *)
(* one iteration *)

Lemma qi_step_sound l data skip outs st idx addr st' evs :
  valid_zone l -> wf_bytes addr -> In addr outs -> cto_ok l st ->
  qi_step l data skip st idx addr = Some (st', evs) ->
  cto_ok l st' /\ Forall (ev_ok l skip data outs) evs.
Proof.
  intros Hv Hw Hin Hc H. unfold qi_step in H.
  rewrite (here_is_in_zone addr l Hw Hv) in H.
  set (a := to20 addr) in *.
  assert (Hla : length a = 20%nat) by apply to20_length.
  destruct (mem_key a (q_seen st)); [discriminate|].
  destruct (in_zone a l) eqn:Ez; destruct (is_quai a) eqn:Eq; cbn [andb negb] in H.
  - (* in zone, Quai *)
    destruct (N.of_nat (length data) =? MAX_QI_TX_DATA_LENGTH) eqn:E22.
    + destruct (q_conv st && negb (keqb a (q_cto st))); [discriminate|].
      inversion H; subst; clear H. split; [|constructor].
      intros _. cbn. auto.
    + destruct (N.of_nat (length data) =? 20) eqn:E20.
      * destruct (internal_and_quai (bytes_to_address data l)); [|discriminate].
        assert (Hc' : cto_ok l (mk_qst (q_seen st) (q_conv st) true a)) by (intros _; cbn; auto).
        destruct skip.
        -- inversion H; subst; clear H. split; [exact Hc'|constructor].
        -- inversion H; subst; clear H. split; [exact Hc'|].
           constructor; [|constructor]. cbn. unfold utxo_ok. fold a.
           split; [exact Hin|]. split; [exact Ez|]. right.
           apply N.eqb_eq in E20. repeat split; auto. lia.
      * discriminate.
  - (* in zone, Qi *)
    inversion H; subst; clear H. split.
    + intros Hf. cbn in Hf |- *. apply Hc, Hf.
    + constructor; [|constructor]. cbn. unfold utxo_ok. fold a.
      split; [exact Hin|]. split; [exact Ez|]. left. split; [apply not_quai_is_qi, Eq|exact Eq].
  - (* foreign, Quai *)
    discriminate.
  - (* foreign, Qi *)
    rewrite (not_quai_is_qi a Eq) in H. cbn [negb] in H.
    inversion H; subst; clear H. split.
    + intros Hf. cbn in Hf |- *. apply Hc, Hf.
    + constructor; [|constructor]. cbn. unfold etx_ok. split; [exact Hla|]. cbn.
      rewrite class_of_spec. fold a. rewrite Ez. repeat split; auto. apply not_quai_is_qi, Eq.
Qed.

Lemma qi_loop_sound l data skip all_outs : valid_zone l ->
  forall outs st idx st' evs,
  Forall wf_bytes outs -> incl outs all_outs -> cto_ok l st ->
  qi_loop l data skip st idx outs = Some (st', evs) ->
  cto_ok l st' /\ Forall (ev_ok l skip data all_outs) evs.
Proof.
  intros Hv outs. induction outs as [|o r IH]; intros st idx st' evs Hw Hi Hc H; cbn in H.
  - inversion H; subst. split; [exact Hc|constructor].
  - destruct (qi_step l data skip st idx o) as [[st1 e1]|] eqn:Es; [|discriminate].
    destruct (qi_loop l data skip st1 (idx + 1) r) as [[st2 e2]|] eqn:El; [|discriminate].
    inversion H; subst; clear H.
    inversion Hw as [|? ? Hwo Hwr]; subst.
    assert (Hino : In o all_outs) by (apply Hi; left; reflexivity).
    destruct (qi_step_sound l data skip all_outs st idx o st1 e1 Hv Hwo Hino Hc Es) as [Hc1 He1].
    assert (Hir : incl r all_outs) by (intros x Hx; apply Hi; right; exact Hx).
    destruct (IH st1 (idx + 1) st' e2 Hwr Hir Hc1 El) as [Hc2 He2].
    split; [exact Hc2|]. apply Forall_app. split; assumption.
Qed.

Lemma qi_finish_sound l ptn st f skip data outs :
  cto_ok l st -> qi_finish l ptn st = Some f -> Forall (ev_ok l skip data outs) f.
Proof.
  intros Hc H. unfold qi_finish in H.
  destruct (q_conv st && in_hold ptn); [discriminate|].
  destruct (q_conv st || q_wrap st) eqn:Ef.
  - destruct (q_conv st && q_wrap st) eqn:Eb; [discriminate|].
    inversion H; subst; clear H. destruct (Hc Ef) as (H20 & Hz & Hq).
    constructor; [|constructor]. cbn. unfold etx_ok. split; [exact H20|].
    assert (Hty : ((if q_wrap st then 2 else 1) =? 0) = false) by (destruct (q_wrap st); reflexivity).
    rewrite Hty. rewrite class_of_spec, (to20_id _ H20), Hz.
    repeat split; auto. apply quai_not_qi, Hq.
  - inversion H; subst. constructor.
Qed.

(* ------------------------------------------------------------------ *)
(* the whole transaction *)

Lemma qi_process_sound : forall l owners outs data ptn evs,
  valid_zone l -> Forall wf_bytes outs ->
  qi_process l owners outs data ptn = Some evs ->
  Forall (ev_ok l (wrap_skips ptn) data outs) evs.
Proof.
  intros l owners outs data ptn evs Hv Hw H. unfold qi_process in H.
  destruct (negb (qi_data_ok data)); [discriminate|].
  destruct (qi_loop l data (wrap_skips ptn) (mk_qst owners false false []) 0 outs) as [[st e1]|] eqn:El; [|discriminate].
  destruct (qi_finish l ptn st) as [f|] eqn:Ef; [|discriminate].
  inversion H; subst; clear H.
  assert (Hc0 : cto_ok l (mk_qst owners false false [])) by (intros Hf; cbn in Hf; discriminate).
  destruct (qi_loop_sound l data (wrap_skips ptn) outs Hv outs _ 0 st e1 Hw (incl_refl outs) Hc0 El) as [Hc He].
  apply Forall_app. split; [exact He|]. exact (qi_finish_sound l ptn st f _ data outs Hc Ef).
Qed.

(* from the fork on: every UTXO of an accepted transaction is owned by an in-zone Qi address *)
Lemma qi_process_utxo_after_fork : forall l owners outs data ptn evs idx owner,
  valid_zone l -> Forall wf_bytes outs ->
  C16Sites.qi_wrapping_change_block <= ptn ->
  qi_process l owners outs data ptn = Some evs -> In (EvUtxo idx owner) evs ->
  In owner outs /\ in_zone (to20 owner) l = true /\ is_qi (to20 owner) = true /\ is_quai (to20 owner) = false.
Proof.
  intros l owners outs data ptn evs idx owner Hv Hw Hf H Hin.
  pose proof (qi_process_sound l owners outs data ptn evs Hv Hw H) as Ha.
  rewrite Forall_forall in Ha. specialize (Ha _ Hin). cbn in Ha. unfold utxo_ok in Ha.
  destruct Ha as (H1 & H2 & [[H3 H4]|[H3 _]]).
  - auto.
  - unfold wrap_skips in H3. apply N.leb_gt in H3. lia.
Qed.

(* for every fork regime: a UTXO owner is in the zone; it is a Quai-ledger address only through the
   wrapping branch (20 data bytes) before the fork *)
Lemma qi_process_utxo_any_fork : forall l owners outs data ptn evs idx owner,
  valid_zone l -> Forall wf_bytes outs ->
  qi_process l owners outs data ptn = Some evs -> In (EvUtxo idx owner) evs ->
  In owner outs /\ in_zone (to20 owner) l = true
  /\ (is_qi (to20 owner) = true
      \/ (ptn < C16Sites.qi_wrapping_change_block /\ length data = 20%nat /\ is_quai (to20 owner) = true)).
Proof.
  intros l owners outs data ptn evs idx owner Hv Hw H Hin.
  pose proof (qi_process_sound l owners outs data ptn evs Hv Hw H) as Ha.
  rewrite Forall_forall in Ha. specialize (Ha _ Hin). cbn in Ha. unfold utxo_ok in Ha.
  destruct Ha as (H1 & H2 & [[H3 H4]|(H3 & H4 & H5)]).
  - auto.
  - split; [exact H1|]. split; [exact H2|]. right. unfold wrap_skips in H3. apply N.leb_gt in H3. auto.
Qed.

Lemma qi_process_etx : forall l owners outs data ptn evs ty idx cls to,
  valid_zone l -> Forall wf_bytes outs ->
  qi_process l owners outs data ptn = Some evs -> In (EvEtx ty idx cls to) evs ->
  length to = 20%nat
  /\ (ty = 0 -> in_zone to l = false /\ is_qi to = true /\ is_quai to = false /\ cls = 1)
  /\ (ty <> 0 -> in_zone to l = true /\ is_quai to = true /\ is_qi to = false /\ cls = 0).
Proof.
  intros l owners outs data ptn evs ty idx cls to Hv Hw H Hin.
  pose proof (qi_process_sound l owners outs data ptn evs Hv Hw H) as Ha.
  rewrite Forall_forall in Ha. specialize (Ha _ Hin). cbn in Ha. unfold etx_ok in Ha.
  destruct Ha as [H20 Hr]. split; [exact H20|]. split; intros Ht.
  - subst ty. exact Hr.
  - destruct (ty =? 0) eqn:E; [apply N.eqb_eq in E; contradiction|exact Hr].
Qed.

(* ------------------------------------------------------------------ *)
(* a Quai-ledger output that is not an in-zone conversion / wrapping output rejects the whole
   transaction, wherever it stands in the list and whatever the other outputs are *)

Lemma qi_step_rejects_quai l data skip st idx addr :
  valid_zone l -> wf_bytes addr -> is_quai (to20 addr) = true ->
  (in_zone (to20 addr) l = false \/ (length data <> 20%nat /\ length data <> 22%nat)) ->
  qi_step l data skip st idx addr = None.
Proof.
  intros Hv Hw Hq Hc. unfold qi_step. rewrite (here_is_in_zone addr l Hw Hv), Hq.
  destruct (mem_key (to20 addr) (q_seen st)); [reflexivity|].
  destruct Hc as [Hz|[H20 H22]].
  - rewrite Hz. reflexivity.
  - assert (E22 : (N.of_nat (length data) =? MAX_QI_TX_DATA_LENGTH) = false)
      by (apply N.eqb_neq; unfold MAX_QI_TX_DATA_LENGTH; lia).
    assert (E20 : (N.of_nat (length data) =? 20) = false) by (apply N.eqb_neq; lia).
    rewrite E22, E20. rewrite !andb_false_r. reflexivity.
Qed.

Lemma qi_loop_rejects l data skip : valid_zone l -> forall outs st idx addr,
  In addr outs -> wf_bytes addr -> is_quai (to20 addr) = true ->
  (in_zone (to20 addr) l = false \/ (length data <> 20%nat /\ length data <> 22%nat)) ->
  qi_loop l data skip st idx outs = None.
Proof.
  intros Hv outs. induction outs as [|o r IH]; intros st idx addr Hin Hw Hq Hc; [destruct Hin|].
  cbn. destruct Hin as [->|Hin].
  - rewrite (qi_step_rejects_quai l data skip st idx addr Hv Hw Hq Hc). reflexivity.
  - destruct (qi_step l data skip st idx o) as [[st1 e1]|]; [|reflexivity].
    rewrite (IH st1 (idx + 1) addr Hin Hw Hq Hc). reflexivity.
Qed.

Lemma qi_process_rejects_quai_output : forall l owners outs data ptn addr,
  valid_zone l -> In addr outs -> wf_bytes addr -> is_quai (to20 addr) = true ->
  (in_zone (to20 addr) l = false \/ (length data <> 20%nat /\ length data <> 22%nat)) ->
  qi_process l owners outs data ptn = None.
Proof.
  intros l owners outs data ptn addr Hv Hin Hw Hq Hc. unfold qi_process.
  destruct (negb (qi_data_ok data)); [reflexivity|].
  rewrite (qi_loop_rejects l data (wrap_skips ptn) Hv outs _ 0 addr Hin Hw Hq Hc). reflexivity.
Qed.

(* ------------------------------------------------------------------ *)
(* the one-output transaction agrees with the classification qi_output of the earlier rounds
   (so the theorems about qi_output speak about code that is now tied for every data length) *)

Lemma qi_process_single_reject l owners addr data ptn :
  qi_output addr (N.of_nat (length data)) l = QReject -> qi_process l owners [addr] data ptn = None.
Proof.
  unfold qi_output, qi_process. intros H.
  destruct (negb (qi_data_ok data)); [reflexivity|].
  cbn [qi_loop]. unfold qi_step. cbn [q_seen q_conv q_wrap q_cto].
  destruct (mem_key (to20 addr) owners); [reflexivity|].
  destruct (loc_eqb (location_of (to20 addr)) l), (is_quai (to20 addr)),
    (N.of_nat (length data) =? MAX_QI_TX_DATA_LENGTH), (N.of_nat (length data) =? 20);
    cbn in H |- *; try discriminate; reflexivity.
Qed.

Lemma qi_process_single_accept l owners addr data ptn evs :
  qi_process l owners [addr] data ptn = Some evs ->
  match qi_output addr (N.of_nat (length data)) l with
  | QUtxo => evs = [EvUtxo 0 addr]
  | QEtx => evs = [EvEtx 0 0 (class_of addr l) (to20 addr)]
  | QConvert => evs = [EvEtx 1 0 (class_of (to20 addr) l) (to20 addr)]
  | QWrap => if wrap_skips ptn then evs = [EvEtx 2 0 (class_of (to20 addr) l) (to20 addr)]
             else evs = [EvUtxo 0 addr; EvEtx 2 0 (class_of (to20 addr) l) (to20 addr)]
  | QReject => False
  end.
Proof.
  unfold qi_output, qi_process. intros H.
  destruct (negb (qi_data_ok data)); [discriminate|].
  cbn [qi_loop] in H. unfold qi_step in H. cbn [q_seen q_conv q_wrap q_cto] in H.
  destruct (mem_key (to20 addr) owners); [discriminate|].
  pose proof (ledger_negb (to20 addr)) as Hn.
  destruct (loc_eqb (location_of (to20 addr)) l), (is_quai (to20 addr)),
    (N.of_nat (length data) =? MAX_QI_TX_DATA_LENGTH), (N.of_nat (length data) =? 20);
    cbn [andb negb] in H |- *; rewrite ?Hn in H; cbn [negb] in H;
    repeat match type of H with
    | context [internal_and_quai ?x] => destruct (internal_and_quai x)
    | context [wrap_skips ?x] => destruct (wrap_skips x)
    end;
    unfold qi_finish in H; cbn -[class_of to20 in_hold] in H;
    try discriminate;
    try (destruct (in_hold ptn); [discriminate|]);
    cbn -[class_of to20] in H; try discriminate;
    inversion H; reflexivity.
Qed.

(* ------------------------------------------------------------------ *)
(* witness: before the fork the wrapping branch creates a UTXO owned by a QUAI-ledger address *)

Lemma wf_bytesb_sound k : wf_bytesb k = true -> wf_bytes k.
Proof.
  unfold wf_bytesb, wf_bytes. rewrite forallb_forall, Forall_forall.
  intros H x Hx. apply N.ltb_lt, H, Hx.
Qed.

Definition wrap_out : bytes := 18 :: 5 :: repeat 7 18.        (* 12 05 07.. : zone (1,2), Quai ledger *)
Definition wrap_contract : bytes := 18 :: 9 :: repeat 3 18.   (* 12 09 03.. : in-zone Quai contract *)

Lemma qi_wrap_before_fork_refuted_lemma :
  exists l owners outs data ptn evs owner,
    valid_zone l /\ Forall wf_bytes outs /\ qi_process l owners outs data ptn = Some evs
    /\ In (EvUtxo 0 owner) evs /\ length owner = 20%nat /\ is_qi owner = false /\ is_quai owner = true.
Proof.
  exists [1; 2], [], [wrap_out], wrap_contract, 0,
    [EvUtxo 0 wrap_out; EvEtx 2 0 0 wrap_out], wrap_out.
  split; [exists 1, 2; repeat split; lia|].
  split; [constructor; [|constructor]; apply wf_bytesb_sound; vm_compute; reflexivity|].
  vm_compute. repeat split; auto.
Qed.

(* C19 -- the price heap (txPricedList) holds every remote transaction of the hash index:
   preserved by every operation of the model. *)
From Coq Require Import List NArith PeanoNat Bool Lia ZifyBool ZifyNat ZifyN.
From GQ Require Import Model.C19 Proofs.C19_Lists Proofs.C19_Struct Proofs.C19_Ops.
Import ListNotations.
Local Open Scope N_scope.

Lemma hk_reheap p : heap_ok (reheap p).
Proof.
  intros t Ht. psimpl. unfold remotes. apply in_map_iff. exists (t, false). split; [reflexivity|].
  apply filter_In. split; [exact Ht|reflexivity].
Qed.
Lemma hk_removed n p : heap_ok p -> heap_ok (removed n p).
Proof. intros H. unfold removed. destruct (_ <=? _); [exact H|apply hk_reheap]. Qed.
Lemma hk_all_remove x p : heap_ok p -> heap_ok (all_remove x p).
Proof. intros H t Ht. psimpl. apply filter_In in Ht as [Ht _]. apply H. exact Ht. Qed.
Lemma hk_all_remove_list D p : heap_ok p -> heap_ok (all_remove_list D p).
Proof. revert p. induction D as [|x D IH]; intros p H; cbn; [exact H|]. apply IH, hk_all_remove, H. Qed.
Lemma hk_set_pend a l p : heap_ok p -> heap_ok (set_pend a l p).
Proof. intros H; exact H. Qed.
Lemma hk_set_queue a l p : heap_ok p -> heap_ok (set_queue a l p).
Proof. intros H; exact H. Qed.
Lemma hk_pn_set a v p : heap_ok p -> heap_ok (pn_set a v p).
Proof. intros H; exact H. Qed.
Lemma hk_pn_set_if_lower a v p : heap_ok p -> heap_ok (pn_set_if_lower a v p).
Proof. intros H. unfold pn_set_if_lower. destruct (_ <=? _); exact H. Qed.
Lemma hk_add_put t loc p : heap_ok p -> heap_ok (heap_put t loc (all_add t loc p)).
Proof.
  intros H x Hx. unfold heap_put. destruct loc; psimpl.
  - destruct Hx as [E|Hx]; [discriminate|]. apply H. exact Hx.
  - destruct Hx as [E|Hx]; [inversion E; left; reflexivity|]. right. apply H. exact Hx.
Qed.
Lemma hk_remote_to_locals p : heap_ok p -> heap_ok (fst (remote_to_locals p)).
Proof.
  intros H t Ht. unfold remote_to_locals in Ht. cbn [fst] in Ht. psimpl.
  apply in_map_iff in Ht as [[x l] [E Hx]]. cbn [fst snd] in E. inversion E as [[E1 E2]]. subst x.
  apply orb_false_iff in E2 as [E2 _]. subst l. apply H. exact Hx.
Qed.

Lemma hk_promote_tx c a x p : heap_ok p -> heap_ok (promote_tx c a x p).
Proof.
  intros H. unfold promote_tx. destruct (l_add _ _ _) as [[pl' [o|]]|].
  - apply hk_pn_set, hk_removed, hk_all_remove, hk_set_pend, H.
  - apply hk_pn_set, hk_set_pend, H.
  - apply hk_removed, hk_all_remove, H.
Qed.
Lemma hk_requeue c x p : heap_ok p -> heap_ok (requeue c x p).
Proof.
  intros H. unfold requeue, enqueue_tx. destruct (l_add _ _ _) as [[q' [o|]]|]; cbn [fst].
  - apply hk_removed, hk_all_remove, hk_set_queue, H.
  - apply hk_set_queue, H.
  - exact H.
Qed.
Lemma hk_fold {A} (f : pool -> A -> pool) l p : (forall x q, heap_ok q -> heap_ok (f q x)) -> heap_ok p -> heap_ok (fold_left f l p).
Proof. intros Hf. revert p. induction l as [|x l IH]; intros p H; cbn; [exact H|]. apply IH, Hf, H. Qed.

Lemma hk_promote_one c a p : heap_ok p -> heap_ok (promote_one c a p).
Proof.
  intros H. unfold promote_one. destruct (aget a (p_queue p)) as [|q0 qr]; [exact H|].
  destruct (l_forward _ _) as [fw q1]. destruct (l_filter _ _ _ _) as [[drops inv] q2].
  destruct (l_ready _ _) as [readies q3]. destruct (l_cap _ _) as [caps q4].
  apply hk_removed, hk_all_remove_list, hk_set_queue.
  apply hk_fold; [intros x q Hq; apply hk_promote_tx; exact Hq|].
  apply hk_set_queue, hk_all_remove_list, hk_set_queue, hk_all_remove_list, hk_set_queue, H.
Qed.
Lemma hk_demote_one c a p : heap_ok p -> heap_ok (demote_one c a p).
Proof.
  intros H. unfold demote_one. destruct (l_forward _ _) as [olds l1]. destruct (l_filter _ _ _ _) as [[drops invalids] l2].
  assert (H4 : heap_ok (fold_left (fun s t => requeue c t s) invalids (all_remove_list drops (set_pend a l2 (all_remove_list olds (set_pend a l1 p)))))).
  { apply hk_fold; [intros x q Hq; apply hk_requeue; exact Hq|].
    apply hk_all_remove_list, hk_set_pend, hk_all_remove_list, hk_set_pend, H. }
  destruct l2 as [|y l2']; [exact H4|]. destruct (l_get _ _); [exact H4|].
  apply hk_fold; [intros x q Hq; apply hk_requeue; exact Hq|]. apply hk_set_pend, H4.
Qed.
Lemma hk_remove_tx c t ob p : heap_ok p -> heap_ok (remove_tx c t ob p).
Proof.
  intros H. unfold remove_tx. destruct (negb _); [exact H|].
  assert (H2 : heap_ok (if ob then removed 1 (all_remove t p) else all_remove t p)).
  { destruct ob; [apply hk_removed|]; apply hk_all_remove, H. }
  destruct (l_get _ _).
  - destruct (l_remove_strict _ _) as [invalids pl'].
    apply hk_pn_set_if_lower. apply hk_fold; [intros x q Hq; apply hk_requeue; exact Hq|]. apply hk_set_pend, H2.
  - apply hk_set_queue, H2.
Qed.
Lemma hk_drop_last a p : heap_ok p -> heap_ok (drop_last a p).
Proof.
  intros H. unfold drop_last. destruct (rev _); [exact H|].
  apply hk_removed, hk_pn_set_if_lower, hk_all_remove, hk_set_pend, H.
Qed.

Lemma hk_enqueue_tx c t loc p p1 r : heap_ok p -> enqueue_tx c t loc true p = (p1, Some r) -> heap_ok p1.
Proof.
  intros H. unfold enqueue_tx. destruct (l_add _ _ _) as [[q' old]|]; [|discriminate]. intros [= <- _].
  apply hk_add_put. destruct old; [apply hk_removed, hk_all_remove|]; apply hk_set_queue, H.
Qed.
Lemma hk_add c t loc p : heap_ok p -> heap_ok (fst (fst (add c t loc p))).
Proof.
  intros H. unfold add. destruct (all_has t p); [exact H|]. destruct (validate p t); [exact H|].
  destruct (_ <? _); [exact H|].
  destruct (l_get _ _).
  - destruct (l_add _ _ _) as [[pl' [o|]]|]; cbn [fst]; [| |exact H].
    + apply hk_add_put, hk_removed, hk_all_remove, hk_set_pend, H.
    + apply hk_add_put, hk_set_pend, H.
  - destruct (enqueue_tx c t _ true p) as [p1 [replaced|]] eqn:Ee; [|exact H].
    pose proof (hk_enqueue_tx _ _ _ _ _ _ H Ee) as H1. cbn [fst].
    destruct (_ && _); [|exact H1].
    pose proof (hk_remote_to_locals (set_locals (t_from t :: p_locals p1) p1) H1) as X.
    destruct (remote_to_locals _) as [p'' m]. apply hk_removed. exact X.
Qed.
Lemma hk_add_locked c txs loc p : heap_ok p -> heap_ok (fst (fst (add_locked c txs loc p))).
Proof.
  revert p. induction txs as [|t r IH]; intros p H; cbn; [exact H|].
  pose proof (hk_add c t loc p H) as X. destruct (add c t loc p) as [[p1 v] rep]. cbn [fst] in X.
  specialize (IH p1 X). destruct (add_locked c r loc p1) as [[p2 vs] d]. exact IH.
Qed.
Lemma hk_add_txs c txs loc p : heap_ok p -> heap_ok (fst (fst (add_txs c txs loc p))).
Proof.
  intros H. unfold add_txs. pose proof (hk_add_locked c (filter (fun t => negb (all_has t p)) txs) loc p H) as X.
  destruct (add_locked c _ loc p) as [[p1 vs] d]. exact X.
Qed.

Lemma hk_fix_nonces p : heap_ok p -> heap_ok (fix_nonces p).
Proof.
  unfold fix_nonces. generalize (akeys (p_pend p)) as l. generalize (p_pend p) at 1 as m. intros m l. revert p.
  induction l as [|a l IH]; intros p H; cbn [fold_left]; [exact H|]. cbn beta. apply IH.
  destruct (rev (aget a m)); exact H.
Qed.

Lemma hk_set_gas_price c g p : heap_ok p -> heap_ok (set_gas_price c g p).
Proof.
  intros H. unfold set_gas_price. destruct (_ <? _); [|exact H].
  apply hk_removed. apply hk_fold; [intros x q Hq; apply hk_remove_tx; exact Hq|exact H].
Qed.

Lemma hk_run c rs dirty qo p : heap_ok p -> heap_ok (run c rs dirty qo p).
Proof.
  intros H. unfold run. apply hk_fix_nonces.
  apply (truncate_queue_pres heap_ok); [intros t q Hq; apply hk_remove_tx; exact Hq|].
  apply (truncate_pending_pres heap_ok); [intros a q Hq; apply hk_drop_last; exact Hq|].
  destruct rs as [r|]; [apply hk_reheap|].
  apply (fold_pres heap_ok (fun s a => promote_one c a s)); [intros a q Hq; apply hk_promote_one; exact Hq|exact H].
Qed.

Lemma hk_step c p o qo : heap_ok p -> heap_ok (fst (step c p o qo)).
Proof.
  intros H. destruct o as [loc txs|g|r|]; cbn.
  - pose proof (hk_add_txs c txs loc p H) as X. destruct (add_txs c txs loc p) as [[p1 vs] d]. cbn [fst] in *. apply hk_run. exact X.
  - apply hk_run, hk_set_gas_price, H.
  - apply hk_run, H.
  - apply hk_run, H.
Qed.

Lemma hk_run_hist c h p : heap_ok p -> heap_ok (run_hist c p h).
Proof.
  revert p. induction h as [|[o qo] h IH]; intros p H; cbn; [exact H|]. apply IH, hk_step, H.
Qed.
Lemma hk_init pl st : heap_ok (init pl st).
Proof. intros t []. Qed.

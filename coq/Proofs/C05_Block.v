(* C05 -- lemmas about the hand-over of the per-transaction ETX cache to the transaction's result / receipt
   and about the block's outbound list (Model/C05.v: transition_db, apply_transaction, process, hprocess,
   process_calls).  The property theorems in Props/C05.v are closed by [exact] of the lemmas proved here. *)
From Coq Require Import List Arith PeanoNat NArith Bool Lia.
From GQ Require Import Generated.C05Params Lib.C05_Slice Model.C05 Proofs.C05.
Import ListNotations.

(* ------------------------------------------------------------------ *)
(* value level                                                         *)
(* ------------------------------------------------------------------ *)

Lemma process_empty_cache : forall txs,
  process [] txs = (map tx_sent txs, List.concat (map tx_sent txs)).
Proof.
  induction txs as [|[ok em] rest IH]; [reflexivity|].
  cbn [process apply_transaction transition_db fst snd app]. rewrite IH.
  cbn [map List.concat tx_sent fst snd]. destruct ok; reflexivity.
Qed.

Lemma process_receipts : forall txs, fst (process [] txs) = map tx_sent txs.
Proof. intros. rewrite process_empty_cache. reflexivity. Qed.

Lemma process_block_concat : forall txs,
  snd (process [] txs) = List.concat (fst (process [] txs)) /\
  snd (process [] txs) = List.concat (map tx_sent txs).
Proof. intros. rewrite process_empty_cache. split; reflexivity. Qed.

Lemma process_shared_fresh : forall txs, process [] txs = process_fresh txs.
Proof.
  intros. rewrite process_empty_cache. unfold process_fresh.
  assert (E1 : map (fun t : btx => fst (apply_transaction [] t)) txs = map tx_sent txs)
    by (apply map_ext; intros [[|] em]; reflexivity).
  assert (E2 : map (fun t : btx => if fst t then fst (apply_transaction [] t) else []) txs = map tx_sent txs)
    by (apply map_ext; intros [[|] em]; reflexivity).
  cbv zeta. rewrite E1, E2. reflexivity.
Qed.

(* the cache is empty again after every transaction, whatever it was before: nothing of a transaction can show up
   in the receipt of a later one *)
Lemma process_later_receipts_independent : forall cache t rest,
  let (rs, bl) := process cache (t :: rest) in
  tl rs = map tx_sent rest.
Proof.
  intros cache [ok em] rest. cbn [process apply_transaction transition_db fst snd].
  rewrite process_empty_cache. reflexivity.
Qed.

(* ------------------------------------------------------------------ *)
(* slice level: with the copy, what a receipt reads never changes      *)
(* ------------------------------------------------------------------ *)

Lemma hprocess_copy_inv : forall grow txs h cache, sl_ok h cache -> sl_read h cache = [] ->
  forall hf rs bl, hprocess grow true h cache txs = (hf, rs, bl) ->
  map (read_receipt hf) rs = map tx_sent (map abs_tx txs) /\
  bl = List.concat (map tx_sent (map abs_tx txs)) /\
  length h <= length hf /\
  (forall b, b < length h -> b <> sl_arr cache -> arr hf b = arr h b).
Proof.
  intros grow. induction txs as [|t rest IH]; intros h cache Hok Hempty hf rs bl E.
  - cbn in E. inversion E; subst. repeat split; auto.
  - cbn [hprocess] in E. unfold htransition_db in E.
    destruct (run_cops_spec etx dummy_etx grow (snd t) h cache Hok) as [X R].
    destruct (run_cops_h dummy_etx grow h cache (snd t)) as [h1 c1] eqn:RC. cbn [fst snd] in X, R.
    unfold sl_copy, sl_make in E.
    remember (h1 ++ [sl_read h1 c1]) as h2 eqn:Eh2.
    remember (h2 ++ [[]]) as h3 eqn:Eh3.
    remember (mkSl (length h1) (sl_len c1)) as etxs eqn:Eetxs.
    remember (mkSl (length h2) 0) as c3 eqn:Ec3.
    destruct (hprocess grow true h3 c3 rest) as [[hf' rs'] bl'] eqn:HP.
    inversion E; subst hf rs bl. clear E.
    destruct X as (Ok1 & L1 & F1 & _).
    assert (Len2 : length h2 = S (length h1)) by (subst h2; rewrite app_length; simpl; lia).
    assert (Len3 : length h3 = S (length h2)) by (subst h3; rewrite app_length; simpl; lia).
    assert (Ok3 : sl_ok h3 c3).
    { subst c3. split; cbn [sl_arr sl_len]; lia. }
    assert (Em3 : sl_read h3 c3 = []) by (subst c3; reflexivity).
    destruct (IH h3 c3 Ok3 Em3 _ _ _ HP) as (I1 & I2 & I3 & I4).
    assert (A3 : arr h3 (length h1) = sl_read h1 c1).
    { subst h3. rewrite arr_app_old by lia. subst h2. apply arr_app_new. }
    assert (Af : arr hf' (length h1) = sl_read h1 c1).
    { rewrite I4; [exact A3 | lia | subst c3; cbn [sl_arr]; lia]. }
    assert (Sent : sl_read h1 c1 = run_cops [] (snd t)).
    { rewrite R, Hempty. reflexivity. }
    assert (Rd : forall hh, arr hh (length h1) = sl_read h1 c1 -> sl_read hh etxs = run_cops [] (snd t)).
    { intros hh Hh. subst etxs. unfold sl_read at 1. cbn [sl_arr sl_len]. rewrite Hh, <- Sent.
      unfold sl_read. rewrite firstn_firstn. f_equal. lia. }
    split; [|split; [|split]].
    + cbn [map]. rewrite I1. f_equal.
      unfold tx_sent, abs_tx. cbn [fst snd]. destruct (fst t); cbn [read_receipt]; [apply Rd; exact Af | reflexivity].
    + cbn [map List.concat]. rewrite I2. f_equal.
      unfold tx_sent, abs_tx. cbn [fst snd]. destruct (fst t); [apply Rd; exact A3 | reflexivity].
    + lia.
    + intros b Hb Hn. rewrite I4; [| lia | subst c3; cbn [sl_arr]; lia].
      subst h3. rewrite arr_app_old by lia. subst h2. rewrite arr_app_old by lia. apply F1; assumption.
Qed.

Lemma hprocess_copy_retains : forall grow txs hf rs bl,
  hprocess grow true [[]] (mkSl 0 0) txs = (hf, rs, bl) ->
  map (read_receipt hf) rs = fst (process [] (map abs_tx txs)) /\
  bl = snd (process [] (map abs_tx txs)).
Proof.
  intros grow txs hf rs bl E. rewrite process_empty_cache. cbn [fst snd].
  assert (Ok : sl_ok (A := etx) [[]] (mkSl 0 0)) by (split; cbn; lia).
  destruct (hprocess_copy_inv grow txs [[]] (mkSl 0 0) Ok eq_refl hf rs bl E) as (A & B & _).
  split; assumption.
Qed.

(* ... and without it (etxs := ETXCache; ETXCache = ETXCache[:0]) the receipt of the first of two sending
   transactions ends up reading the second one's ETX, while the block's list is still right *)
Definition alias_e1 : etx := mkEtx 1 10 1111 0 0 21000.
Definition alias_e2 : etx := mkEtx 2 20 2222 0 0 21000.
Definition alias_txs : list hbtx := [(true, [CPush alias_e1]); (true, [CPush alias_e2])].

Lemma hprocess_alias_witness :
  match hprocess (fun n => n) false [[]] (mkSl 0 0) alias_txs with
  | (hf, rs, bl) =>
      map (read_receipt hf) rs = [[alias_e2]; [alias_e2]] /\ bl = [alias_e1; alias_e2] /\
      fst (process [] (map abs_tx alias_txs)) = [[alias_e1]; [alias_e2]]
  end.
Proof. vm_compute. repeat split; reflexivity. Qed.

Lemma hprocess_alias_refuted : exists grow txs,
  match hprocess grow false [[]] (mkSl 0 0) txs with
  | (hf, rs, bl) => map (read_receipt hf) rs <> fst (process [] (map abs_tx txs))
  end.
Proof. exists (fun n => n), alias_txs. vm_compute. intro H. discriminate H. Qed.

(* ------------------------------------------------------------------ *)
(* a block of model transactions                                       *)
(* ------------------------------------------------------------------ *)

Lemma indices_ok_nil : indices_ok [].
Proof. intros j e H. destruct j; discriminate H. Qed.

Lemma process_calls_spec : forall fuel c txs w, w_etxs w = [] ->
  fst (process_calls fuel c txs w) = block_sent fuel c txs w /\
  snd (process_calls fuel c txs w) = List.concat (block_sent fuel c txs w) /\
  Forall indices_ok (fst (process_calls fuel c txs w)).
Proof.
  intros fuel c. induction txs as [|t rest IH]; intros w Hw.
  - cbn. repeat split; constructor.
  - cbn [process_calls block_sent].
    set (r := mtx_call fuel c t w).
    assert (Hr : (if (c_err r =? 0)%N then w_etxs (c_world r) else []) =
                 (if (c_err r =? 0)%N then emitted_all (c_tr r) else [])).
    { destruct (c_err r =? 0)%N eqn:E; [|reflexivity].
      subst r. unfold mtx_call in *. rewrite call_outbound, Hw. unfold kept. rewrite E. reflexivity. }
    assert (Hi : indices_ok (if (c_err r =? 0)%N then w_etxs (c_world r) else [])).
    { destruct (c_err r =? 0)%N; [|apply indices_ok_nil].
      subst r. unfold mtx_call. apply call_indices. rewrite Hw. apply indices_ok_nil. }
    destruct (IH (mkW (w_bal (c_world r)) []) eq_refl) as (I1 & I2 & I3).
    destruct (process_calls fuel c rest (mkW (w_bal (c_world r)) [])) as [rs bl]. cbn [fst snd] in *.
    rewrite Hr in *. subst rs bl. repeat split; try reflexivity.
    constructor; assumption.
Qed.

(* ------------------------------------------------------------------ *)
(* the Go text the hand-over model was written against                 *)
(* ------------------------------------------------------------------ *)
From Coq Require Import String.
Local Open Scope string_scope.
(* TransitionDb: the five early returns carry no ETXs; after the call the cache is COPIED into a new array
   (make(len) + copy), the EVM gets a NEW empty cache, the copy goes into the result ([htransition_db true]);
   applyTransaction: Reset (which does not touch the cache), ApplyMessage, OutboundEtxs only if not failed *)
Definition handover_as_modelled : bool :=
  strs_eqb src_handover_TransitionDb
    ["Etxs:nil"; "Etxs:nil"; "Etxs:nil"; "Etxs:nil"; "Etxs:nil";
     "etxs=make(len(ETXCache))"; "copy(etxs,ETXCache)"; "ETXCache=make(0)"; "Etxs:etxs"] &&
  (* "@else(Failed)": the hand-over to the receipt sits in the success branch of "if result.Failed()" and under no other condition
     (the dump in TransitionDb is unconditional: no "@" suffix) *)
  strs_eqb src_handover_applyTransaction ["Reset"; "ApplyMessage"; "Failed"; "receipt.OutboundEtxs=result.Etxs@else(Failed)"] &&
  strs_eqb src_handover_Reset [].
Lemma handover_ok : handover_as_modelled = true. Proof. vm_compute. reflexivity. Qed.


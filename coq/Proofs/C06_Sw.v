(* C06 — extension round (model growth): the whole rollback loop of HeaderChain.SetCurrentHeader over k blocks.
   [switch_back] appends the blocks to a state and then undoes them newest first, every iteration working on the
   database the previous iteration left.  Result: for every list of blocks of Qi operations whose created keys are new
   at the time, the loop restores exactly the UTXO set of the common ancestor, and therefore the ancestor's header
   (accumulator, set size) describes the database again. *)
From Coq Require Import List NArith ZArith Bool Lia Permutation Arith.
From Coq Require Import ZifyBool ZifyNat ZifyN.
From GQ Require Import Model.C06 Proofs.C06_Acc Proofs.C06_Db Proofs.C06 Proofs.C06_R3.
Import ListNotations.
Local Open Scope N_scope.

(* one iteration of the loop = rollback_block, when the database is the one the block wrote *)
Lemma rollback_block_unfold : forall o tv s ops cands s' trk,
  finalize tv s ops cands = Some (s', trk) ->
  rollback_block o tv s ops cands = Some (undo_block o tv s ops cands (s_db s')).
Proof.
  intros o tv s ops cands s' trk F. unfold rollback_block, undo_block. rewrite F.
  destruct (run_ops (s_db s) ops) as [[d1 c1] x1].
  destruct (undo_records (s_db s) ops) as [sp cr]. reflexivity.
Qed.

Lemma switch_back_one : forall o tv s b,
  switch_back o tv s [b] = rollback_block o tv s (fst b) (snd b).
Proof.
  intros o tv s b. cbn [switch_back].
  destruct (finalize tv s (fst b) (snd b)) as [[s' trk]|] eqn:F.
  - symmetry. apply (rollback_block_unfold o tv s (fst b) (snd b) s' trk F).
  - unfold rollback_block. rewrite F. reflexivity.
Qed.

(* the database finalize writes is well formed *)
Lemma finalize_db_ok : forall tv s ops cands s' trk,
  db_ok (s_db s) -> finalize tv s ops cands = Some (s', trk) -> db_ok (s_db s').
Proof.
  intros tv s ops cands s' trk Hok F. unfold finalize in F.
  pose proof (run_ops_ok ops (s_db s) Hok) as H1.
  destruct (run_ops (s_db s) ops) as [[d1 cr] de]. cbn [fst] in H1.
  destruct (N.ltb (s_size s + N.of_nat (length cr)) (N.of_nat (length de))); [discriminate F|].
  inversion F; subst; cbn [s_db].
  apply (dels_ok _ d1 H1).
Qed.

(* every block of the branch that is rolled back: Qi operations only, created keys new in the state it is appended on *)
Fixpoint chain_rollbackable (s : st) (bs : list block) : Prop :=
  match bs with
  | [] => True
  | b :: t =>
      forallb is_ut (fst b) = true /\ creates_new (s_db s) (fst b) /\
      match finalize ParentDb s (fst b) (snd b) with
      | Some (s', _) => chain_rollbackable s' t
      | None => True
      end
  end.

Lemma switch_back_restores : forall bs s d,
  db_ok (s_db s) -> chain_rollbackable s bs ->
  switch_back RestoreThenDelete ParentDb s bs = Some d -> d = s_db s.
Proof.
  induction bs as [|b t IH]; intros s d Hok Hc H.
  - cbn [switch_back] in H. inversion H. reflexivity.
  - cbn [switch_back] in H. cbn [chain_rollbackable] in Hc. destruct Hc as [Hut [Hnew Hrest]].
    destruct (finalize ParentDb s (fst b) (snd b)) as [[s' trk]|] eqn:F; [|discriminate H].
    destruct (switch_back RestoreThenDelete ParentDb s' t) as [d0|] eqn:SB; [|discriminate H].
    assert (Hok' : db_ok (s_db s')) by (eapply finalize_db_ok; eassumption).
    assert (E : d0 = s_db s') by (apply (IH s' d0 Hok' Hrest SB)).
    subst d0. inversion H as [Hd].
    apply (rollback_block_restores s (fst b) (snd b)); try assumption.
    apply (rollback_block_unfold RestoreThenDelete ParentDb s (fst b) (snd b) s' trk F).
Qed.

(* hence the header of the common ancestor (its accumulator and set size) describes the database after the switch *)
Lemma switch_back_commitment : forall bs s d,
  Inv s -> chain_rollbackable s bs ->
  switch_back RestoreThenDelete ParentDb s bs = Some d ->
  commit_ok (mkSt d (s_acc s) (s_size s)) = true.
Proof.
  intros bs s d [Hok [Hacc Hsz]] Hc H.
  rewrite (switch_back_restores bs s d Hok Hc H).
  apply commit_ok_spec. cbn [s_db s_acc s_size]. split; assumption.
Qed.

(* the loop never fails where appending did not: it is defined whenever the branch could be appended *)
Lemma switch_back_defined : forall o tv bs s s',
  run_chain tv s bs = Some s' -> exists d, switch_back o tv s bs = Some d.
Proof.
  induction bs as [|b t IH]; intros s s' R.
  - exists (s_db s). reflexivity.
  - cbn [run_chain] in R. cbn [switch_back].
    destruct (finalize tv s (fst b) (snd b)) as [[s1 trk]|]; [|discriminate R].
    destruct (IH s1 s' R) as [d Hd]. rewrite Hd. eexists. reflexivity.
Qed.

(* the swapped loop order (restore after delete) is wrong for a branch of two blocks as well: the output created and
   spent inside the OLDER block is resurrected although the newer block is undone correctly *)
Lemma swapped_order_two_blocks :
  exists s bs, Inv s /\ chain_rollbackable s bs /\ length bs = 2%nat /\
    switch_back RestoreThenDelete ParentDb s bs = Some (s_db s) /\
    switch_back DeleteThenRestore ParentDb s bs = Some (s_db s ++ [(3, 30)]).
Proof.
  exists (mkSt [(1, 10)] (of_content [10]) 1),
         [([Create 3 30; Spend 3; Create 4 40], []); ([Spend 4; Create 5 50], [])].
  split.
  - split; [cbn; repeat split; lia|]. split; [intros e; reflexivity|reflexivity].
  - split.
    + cbn [chain_rollbackable fst snd]. split; [reflexivity|]. split.
      * intros k e [H|[H|[H|[]]]]; inversion H; reflexivity.
      * vm_compute finalize. cbn [chain_rollbackable fst snd]. split; [reflexivity|]. split.
        -- intros k e [H|[H|[]]]; inversion H; reflexivity.
        -- vm_compute finalize. exact I.
    + split; [reflexivity|]. split; vm_compute; reflexivity.
Qed.

(* C15 (A): the decoder inventory.  Soundness of the boolean check used by the correspondence
   case mkInv (for ALL lists), and the obligations on the inventory generated from the source. *)
From Coq Require Import List Bool String.
From GQ Require Import Generated.C15Decoders Model.C15.
Import ListNotations.

Lemma str_mem_In : forall x l, str_mem x l = true <-> In x l.
Proof.
  intros x l. unfold str_mem. rewrite existsb_exists. split.
  - intros [y [Hy He]]. apply String.eqb_eq in He. subst. exact Hy.
  - intros H. exists x. split; [exact H | apply String.eqb_refl].
Qed.

Lemma str_incl_incl : forall a b, str_incl a b = true <-> incl a b.
Proof.
  intros a b. unfold str_incl. rewrite forallb_forall. split.
  - intros H x Hx. apply str_mem_In. apply H. exact Hx.
  - intros H x Hx. apply str_mem_In. apply H. exact Hx.
Qed.

(* What a passing inventory case means, for every pair of lists the harness may report: every decoder the
   source defines was exercised in that run or is one of the model's exemptions, and the harness exempts
   exactly what the model exempts. *)
Lemma inv_ok_sound : forall swept exempt,
  inv_ok swept exempt = true ->
  (forall d, In d decoders -> In d swept \/ In d decoders_exempt) /\
  (forall d, In d exempt <-> In d decoders_exempt).
Proof.
  intros swept exempt H. unfold inv_ok in H.
  apply andb_true_iff in H. destruct H as [H Hb].
  apply andb_true_iff in H. destruct H as [Hcov Ha].
  split.
  - intros d Hd. rewrite forallb_forall in Hcov. specialize (Hcov d Hd).
    unfold inv_covered in Hcov. apply orb_true_iff in Hcov.
    destruct Hcov as [Hs | He]; [left | right]; apply str_mem_In; assumption.
  - intros d. apply str_incl_incl in Ha. apply str_incl_incl in Hb. split; intro Hd; [apply Ha | apply Hb]; exact Hd.
Qed.

(* the check is not vacuous the other way round: one unswept, unexempted decoder fails it *)
Lemma inv_ok_complete : forall swept exempt d,
  In d decoders -> ~ In d swept -> ~ In d decoders_exempt -> inv_ok swept exempt = false.
Proof.
  intros swept exempt d Hd Hs He.
  destruct (inv_ok swept exempt) eqn:E; [| reflexivity].
  apply inv_ok_sound in E. destruct E as [E _]. destruct (E d Hd); contradiction.
Qed.

(* OBLIGATIONS on the generated inventory *)
Lemma exemptions_are_real : str_incl decoders_exempt decoders = true.
Proof. vm_compute. reflexivity. Qed.

Lemma decoders_in_scope_or_exempt :
  forallb (fun d => in_scope d || str_mem d decoders_exempt) decoders = true.
Proof. vm_compute. reflexivity. Qed.

Lemma exempt_not_in_scope : forallb (fun d => negb (in_scope d) || String.eqb d "core/types.AuxPowTx.Deserialize") decoders_exempt = true.
Proof. vm_compute. reflexivity. Qed.

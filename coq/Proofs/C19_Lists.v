(* C19 -- lemmas about the nonce-sorted per-account lists (txSortedMap/txList model) and
   the per-account maps of Model/C19.v. *)
From Coq Require Import List NArith PeanoNat Bool Lia ZifyBool ZifyNat ZifyN.
From GQ Require Import Model.C19.
Import ListNotations.
Local Open Scope N_scope.

(* ---------- transaction equality ---------- *)
Lemma tx_eqb_eq a b : tx_eqb a b = true <-> a = b.
Proof.
  unfold tx_eqb. destruct a, b; cbn. rewrite !andb_true_iff, !N.eqb_eq. split.
  - intros [[[[-> ->] ->] ->] ->]. reflexivity.
  - intros E; inversion E; subst. repeat split.
Qed.
Lemma tx_eqb_refl a : tx_eqb a a = true.
Proof. apply tx_eqb_eq; reflexivity. Qed.
Lemma tx_eqb_neq a b : tx_eqb a b = false <-> a <> b.
Proof. rewrite <- tx_eqb_eq. destruct (tx_eqb a b); split; congruence. Qed.
Lemma tx_eq_dec (a b : tx) : {a = b} + {a <> b}.
Proof. destruct (tx_eqb a b) eqn:E; [left; apply tx_eqb_eq; exact E | right; apply tx_eqb_neq; exact E]. Qed.

Lemma mem_tx_in t l : mem_tx t l = true <-> In t l.
Proof.
  unfold mem_tx. rewrite existsb_exists. split.
  - intros [x [H E]]. apply tx_eqb_eq in E. subst; exact H.
  - intros H. exists t. split; [exact H | apply tx_eqb_refl].
Qed.
Lemma mem_n_in a l : mem_n a l = true <-> In a l.
Proof.
  unfold mem_n. rewrite existsb_exists. split.
  - intros [x [H E]]. apply N.eqb_eq in E. subst; exact H.
  - intros H. exists a. split; [exact H | apply N.eqb_refl].
Qed.

(* ---------- sortedness ---------- *)
Fixpoint sorted (l : txl) : Prop :=
  match l with
  | [] => True
  | x :: r => (forall y, In y r -> t_nonce x < t_nonce y) /\ sorted r
  end.

Definition owned (a : N) (l : txl) : Prop := forall t, In t l -> t_from t = a.
Definition hasn (l : txl) (n : N) : Prop := exists t, In t l /\ t_nonce t = n.

Lemma sorted_tail x r : sorted (x :: r) -> sorted r.
Proof. cbn; tauto. Qed.

Lemma sorted_nonce_inj l x y : sorted l -> In x l -> In y l -> t_nonce x = t_nonce y -> x = y.
Proof.
  induction l as [|z r IH]; cbn; [tauto|]. intros [Hlt Hs] [->|Hx] [->|Hy] E; auto.
  - specialize (Hlt _ Hy). lia.
  - specialize (Hlt _ Hx). lia.
Qed.

Lemma filter_sorted f l : sorted l -> sorted (filter f l).
Proof.
  induction l as [|x r IH]; cbn; [auto|]. intros [Hlt Hs]. destruct (f x); cbn; auto.
  split; auto. intros y Hy. apply filter_In in Hy. apply Hlt. tauto.
Qed.

Lemma sorted_app l1 l2 : sorted (l1 ++ l2) <-> sorted l1 /\ sorted l2 /\ (forall x y, In x l1 -> In y l2 -> t_nonce x < t_nonce y).
Proof.
  induction l1 as [|z r IH]; cbn.
  - split; [intros H; repeat split; auto; intros ? ? [] | tauto].
  - rewrite IH. split.
    + intros [Hlt [H1 [H2 H3]]]. repeat split; auto.
      * intros y Hy. apply Hlt. apply in_or_app; auto.
      * intros x y [->|Hx] Hy; auto. apply Hlt. apply in_or_app; auto.
    + intros [[Hlt H1] [H2 H3]]. repeat split; auto.
      intros y Hy. apply in_app_or in Hy as [Hy|Hy]; auto.
Qed.

Lemma firstn_skipn_sorted k l : sorted l -> sorted (firstn k l) /\ sorted (skipn k l).
Proof.
  intros H. rewrite <- (firstn_skipn k l) in H. apply sorted_app in H. tauto.
Qed.

Lemma removelast_firstn (l : txl) : removelast l = firstn (length l - 1) l.
Proof.
  induction l as [|x r IH]; [reflexivity|]. destruct r as [|y r']; [reflexivity|].
  change (removelast (x :: y :: r')) with (x :: removelast (y :: r')). rewrite IH. cbn. rewrite Nat.sub_0_r. reflexivity.
Qed.

(* ---------- l_get ---------- *)
Lemma l_get_in n l x : l_get n l = Some x -> In x l /\ t_nonce x = n.
Proof.
  induction l as [|y r IH]; cbn; [discriminate|]. destruct (t_nonce y =? n) eqn:E.
  - intros [= ->]. split; [left; reflexivity | lia].
  - intros H. destruct (IH H). auto.
Qed.
Lemma l_get_none n l : l_get n l = None <-> forall x, In x l -> t_nonce x <> n.
Proof.
  induction l as [|y r IH]; cbn; [split; [intros _ ? []|reflexivity]|].
  destruct (t_nonce y =? n) eqn:E.
  - split; [discriminate|]. intros H. exfalso. apply (H y); [auto|lia].
  - rewrite IH. split.
    + intros H x [->|Hx]; [lia|auto].
    + intros H x Hx. apply H; auto.
Qed.
Lemma l_get_some n l x : sorted l -> In x l -> t_nonce x = n -> l_get n l = Some x.
Proof.
  intros Hs Hx En. destruct (l_get n l) as [y|] eqn:E.
  - apply l_get_in in E as [Hy Ey]. f_equal. eapply sorted_nonce_inj; eauto. lia.
  - rewrite l_get_none in E. exfalso. eapply E; eauto.
Qed.
Lemma l_get_hasn n l : (exists x, l_get n l = Some x) <-> hasn l n.
Proof.
  split.
  - intros [x H]. apply l_get_in in H. exists x; exact H.
  - intros [x [Hx En]]. destruct (l_get n l) eqn:E; [eauto|]. rewrite l_get_none in E. exfalso; eapply E; eauto.
Qed.

(* ---------- l_put ---------- *)
Lemma l_put_in t l x : sorted l -> (In x (l_put t l) <-> x = t \/ (In x l /\ t_nonce x <> t_nonce t)).
Proof.
  induction l as [|y r IH]; cbn.
  - intros _. split; [intros [<-|[]]; auto | intros [->|[[] _]]; auto].
  - intros [Hlt Hs]. destruct (t_nonce t <? t_nonce y) eqn:E1.
    + cbn. split.
      * intros [<-|[<-|Hx]]; auto.
        -- right. split; auto. lia.
        -- right. split; auto. specialize (Hlt _ Hx). lia.
      * intros [->|[[->|Hx] _]]; auto.
    + destruct (t_nonce t =? t_nonce y) eqn:E2; cbn.
      * split.
        -- intros [<-|Hx]; auto. right. split; auto. specialize (Hlt _ Hx). lia.
        -- intros [->|[[->|Hx] Hn]]; auto. lia.
      * rewrite (IH Hs). split.
        -- intros [<-|[->|[Hx Hn]]]; auto. right; split; auto. lia.
        -- intros [->|[[->|Hx] Hn]]; auto.
  Qed.

Lemma l_put_sorted t l : sorted l -> sorted (l_put t l).
Proof.
  induction l as [|y r IH]; cbn; [intros _; split; [intros ? []|exact I]|]. intros [Hlt Hs].
  destruct (t_nonce t <? t_nonce y) eqn:E1; [|destruct (t_nonce t =? t_nonce y) eqn:E2]; cbn.
  - split; [|split; auto]. intros z [<-|Hz]; [lia|]. specialize (Hlt _ Hz). lia.
  - split; auto. intros z Hz. specialize (Hlt _ Hz). lia.
  - split; [|auto]. intros z Hz. apply (l_put_in t r z Hs) in Hz as [->|[Hz _]]; [lia|auto].
Qed.

Lemma l_put_owned a t l : owned a l -> t_from t = a -> sorted l -> owned a (l_put t l).
Proof. intros Ho Ht Hs x Hx. apply l_put_in in Hx as [->|[Hx _]]; auto. Qed.

Lemma l_put_nonempty t l : l_put t l <> [].
Proof. destruct l as [|y r]; cbn; [discriminate|]. destruct (_ <? _); [discriminate|]. destruct (_ =? _); discriminate. Qed.

(* ---------- l_add ---------- *)
Lemma l_add_some t b l l' old :
  l_add t b l = Some (l', old) ->
  l' = l_put t l /\ old = l_get (t_nonce t) l /\
  (forall o, old = Some o -> t_price o < t_price t /\ bump_threshold b (t_price o) <= t_price t).
Proof.
  unfold l_add. destruct (l_get (t_nonce t) l) as [o|] eqn:E.
  - destruct (t_price t <=? t_price o) eqn:E1; [discriminate|].
    destruct (t_price t <? bump_threshold b (t_price o)) eqn:E2; [discriminate|].
    intros [= <- <-]. split; [reflexivity|]. split; [reflexivity|]. intros o' [= <-]. lia.
  - intros [= <- <-]. split; [reflexivity|]. split; [reflexivity|]. discriminate.
Qed.
Lemma l_add_none_old t b l : l_get (t_nonce t) l = None -> l_add t b l = Some (l_put t l, None).
Proof. unfold l_add. intros ->. reflexivity. Qed.
Lemma l_add_none t b l : l_add t b l = None ->
  exists o, l_get (t_nonce t) l = Some o /\ (t_price t <= t_price o \/ t_price t < bump_threshold b (t_price o)).
Proof.
  unfold l_add. destruct (l_get (t_nonce t) l) as [o|]; [|discriminate].
  destruct (t_price t <=? t_price o) eqn:E1; [intros _; exists o; split; auto; left; lia|].
  destruct (t_price t <? bump_threshold b (t_price o)) eqn:E2; [|discriminate].
  intros _. exists o. split; auto. right; lia.
Qed.

(* ---------- l_remove / l_remove_strict ---------- *)
Lemma l_remove_in n l x : In x (l_remove n l) <-> In x l /\ t_nonce x <> n.
Proof. unfold l_remove. rewrite filter_In. split; intros [H1 H2]; split; auto; lia. Qed.
Lemma l_remove_sorted n l : sorted l -> sorted (l_remove n l).
Proof. apply filter_sorted. Qed.

Lemma l_put_remove t l : sorted l -> l_put t (l_remove (t_nonce t) l) = l_put t l.
Proof.
  induction l as [|y r IH]; cbn; [reflexivity|]. intros [Hlt Hs].
  destruct (t_nonce y =? t_nonce t) eqn:E; cbn.
  - assert (E1 : t_nonce t <? t_nonce y = false) by lia. assert (E2 : t_nonce t =? t_nonce y = true) by lia.
    rewrite E1, E2. fold (l_remove (t_nonce t) r).
    assert (Hr : l_remove (t_nonce t) r = r).
    { unfold l_remove. clear IH. induction r as [|z r' IH']; cbn; [reflexivity|].
      assert (t_nonce y < t_nonce z) by (apply Hlt; left; reflexivity).
      assert (Ez : t_nonce z =? t_nonce t = false) by lia. rewrite Ez. cbn. f_equal. apply IH'.
      - intros w Hw. apply Hlt. right; exact Hw.
      - destruct Hs; assumption. }
    rewrite Hr. destruct r as [|z r']; cbn; [reflexivity|].
    assert (t_nonce y < t_nonce z) by (apply Hlt; left; reflexivity).
    assert (E3 : t_nonce t <? t_nonce z = true) by lia. rewrite E3. reflexivity.
  - fold (l_remove (t_nonce t) r). destruct (t_nonce t <? t_nonce y) eqn:E1.
    + f_equal. f_equal. unfold l_remove. clear IH. induction r as [|z r' IH']; cbn; [reflexivity|].
      assert (t_nonce y < t_nonce z) by (apply Hlt; left; reflexivity).
      assert (Ez : t_nonce z =? t_nonce t = false) by lia. rewrite Ez. cbn. f_equal. apply IH'.
      * intros w Hw. apply Hlt. right; exact Hw.
      * destruct Hs; assumption.
    + assert (E2 : t_nonce t =? t_nonce y = false) by lia. rewrite E2. f_equal. apply IH. exact Hs.
Qed.

(* ---------- l_forward ---------- *)
Lemma l_forward_fst thr l x : In x (fst (l_forward thr l)) <-> In x l /\ t_nonce x < thr.
Proof. cbn. rewrite filter_In. split; intros [H1 H2]; split; auto; lia. Qed.
Lemma l_forward_snd thr l x : In x (snd (l_forward thr l)) <-> In x l /\ thr <= t_nonce x.
Proof. cbn. rewrite filter_In. split; intros [H1 H2]; split; auto; lia. Qed.

(* ---------- l_filter ---------- *)
Lemma min_nonce_le x r : min_nonce x r <= t_nonce x /\ forall y, In y r -> min_nonce x r <= t_nonce y.
Proof.
  unfold min_nonce. generalize (t_nonce x) as m. induction r as [|z r IH]; intros m; cbn.
  - split; [lia|intros ? []].
  - destruct (IH (N.min m (t_nonce z))) as [H1 H2]. split; [lia|].
    intros y [->|Hy]; [lia|auto].
Qed.
Lemma min_nonce_in x r : min_nonce x r = t_nonce x \/ exists y, In y r /\ min_nonce x r = t_nonce y.
Proof.
  unfold min_nonce. generalize (t_nonce x) as m. induction r as [|z r IH]; intros m; cbn; [auto|].
  destruct (IH (N.min m (t_nonce z))) as [H|[y [Hy H]]].
  - destruct (N.min_spec m (t_nonce z)) as [[_ E]|[_ E]]; rewrite E in *; [auto|]. right. exists z; auto.
  - right. exists y; auto.
Qed.

(* the three parts of txList.Filter *)
Lemma filter_nil_all {A} (f : A -> bool) (l : list A) : filter f l = [] -> filter (fun x => negb (f x)) l = l.
Proof.
  induction l as [|x r IH]; cbn; [reflexivity|]. destruct (f x); cbn; [discriminate|]. intros H. rewrite IH; auto.
Qed.

Section Filter.
Variables (strict : bool) (bal mg : N) (l rem inv kept : txl).
Hypothesis HF : l_filter strict bal mg l = (rem, inv, kept).
Let U := unpayable bal mg.

Lemma l_filter_rem x : In x rem <-> In x l /\ U x = true.
Proof.
  revert HF. unfold l_filter. fold U. destruct (filter U l) as [|x0 r0] eqn:Er.
  - intros [= <- <- <-]. split; [intros []|]. intros H. apply filter_In in H. rewrite Er in H. exact H.
  - destruct strict; intros [= <- <- <-]; rewrite <- Er; apply filter_In.
Qed.

Lemma l_filter_keep x : In x inv \/ In x kept <-> In x l /\ U x = false.
Proof.
  revert HF. unfold l_filter. fold U. destruct (filter U l) as [|x0 r0] eqn:Er.
  - intros [= <- <- <-]. rewrite <- (filter_nil_all _ _ Er) at 1. rewrite filter_In. cbn.
    destruct (U x); cbn; intuition congruence.
  - destruct strict; intros [= <- <- <-].
    + rewrite !filter_In. cbn. destruct (U x); destruct (min_nonce x0 r0 <? t_nonce x); cbn; intuition congruence.
    + rewrite filter_In. cbn. destruct (U x); cbn; intuition congruence.
Qed.

Lemma l_filter_disj x : In x inv -> In x kept -> False.
Proof.
  revert HF. unfold l_filter. fold U. destruct (filter U l) as [|x0 r0] eqn:Er.
  - intros [= <- <- <-] [].
  - destruct strict; intros [= <- <- <-]; [|intros []].
    rewrite !filter_In. intros [_ H1] [_ H2]. rewrite H1 in H2. discriminate.
Qed.

Lemma l_filter_nonstrict : strict = false -> inv = [].
Proof.
  revert HF. unfold l_filter. intros H E. rewrite E in H. destruct (filter _ l); inversion H; reflexivity.
Qed.

Lemma l_filter_strict_kept x y : strict = true -> In x kept -> In y rem -> t_nonce x <= t_nonce y.
Proof.
  revert HF. unfold l_filter. fold U. intros H E. rewrite E in H. destruct (filter U l) as [|x0 r0] eqn:Er.
  - inversion H; subst. intros _ [].
  - inversion H; subst. rewrite filter_In. intros [_ Hx] Hy.
    destruct (min_nonce_le x0 r0) as [M1 M2]. destruct Hy as [<-|Hy]; [lia|]. specialize (M2 _ Hy). lia.
Qed.

Lemma l_filter_strict_inv x : strict = true -> In x inv -> exists y, In y rem /\ t_nonce y < t_nonce x.
Proof.
  revert HF. unfold l_filter. fold U. intros H E. rewrite E in H. destruct (filter U l) as [|x0 r0] eqn:Er.
  - inversion H; subst. intros [].
  - inversion H; subst. rewrite filter_In. intros [_ Hx].
    destruct (min_nonce_in x0 r0) as [M|[y [Hy M]]].
    + exists x0. split; [left; reflexivity|lia].
    + exists y. split; [right; exact Hy|lia].
Qed.

Lemma l_filter_sorted : sorted l -> sorted rem /\ sorted inv /\ sorted kept.
Proof.
  revert HF. unfold l_filter. fold U. destruct (filter U l) as [|x0 r0] eqn:Er.
  - intros [= <- <- <-] H. cbn; auto.
  - intros H Hs. assert (S1 : sorted (x0 :: r0)) by (rewrite <- Er; apply filter_sorted; exact Hs).
    destruct strict; inversion H; subst; (split; [exact S1|split]); try exact I; repeat apply filter_sorted; exact Hs.
Qed.
End Filter.

(* ---------- l_cap ---------- *)
Lemma l_cap_app k l : l = snd (l_cap k l) ++ fst (l_cap k l).
Proof. cbn. symmetry. apply firstn_skipn. Qed.
Lemma l_cap_len k l : len (snd (l_cap k l)) <= k.
Proof. cbn. unfold len. pose proof (firstn_le_length (N.to_nat k) l). lia. Qed.

(* ---------- l_ready ---------- *)
Fixpoint contig (s : N) (l : txl) : Prop :=
  match l with
  | [] => True
  | x :: r => t_nonce x = s /\ contig (s + 1) r
  end.

(* A simpler and sufficient specification of Ready. *)
Lemma l_run_split next l a b : l_run next l = (a, b) -> l = a ++ b /\ contig next a.
Proof.
  revert next a b. induction l as [|x r IH]; intros next a b; cbn.
  - intros [= <- <-]. cbn. auto.
  - destruct (t_nonce x =? next) eqn:E.
    + destruct (l_run (next + 1) r) as [a' b'] eqn:E'. intros [= <- <-].
      destruct (IH _ _ _ E') as [H1 H2]. subst r. cbn. repeat split; auto. lia.
    + intros [= <- <-]. cbn. auto.
Qed.

Lemma l_ready_split start l a b : l_ready start l = (a, b) ->
  l = a ++ b /\ (a = [] \/ exists x r, l = x :: r /\ t_nonce x <= start /\ contig (t_nonce x) a /\ a <> []).
Proof.
  unfold l_ready. destruct l as [|x r].
  - intros [= <- <-]. auto.
  - destruct (start <? t_nonce x) eqn:E.
    + intros [= <- <-]. auto.
    + intros H. pose proof (l_run_split _ _ _ _ H) as [H1 H2]. split; auto.
      right. exists x, r. repeat split; auto; [lia|].
      cbn in H. rewrite N.eqb_refl in H. destruct (l_run (t_nonce x + 1) r). inversion H. discriminate.
Qed.

Lemma contig_nonces s l x : contig s l -> In x l -> s <= t_nonce x < s + len l.
Proof.
  revert s. induction l as [|y r IH]; intros s; cbn; [tauto|]. intros [E H] [<-|Hx].
  - unfold len; cbn [length]. lia.
  - specialize (IH _ H Hx). unfold len in *; cbn [length]. lia.
Qed.
Lemma contig_sorted s l : contig s l -> sorted l.
Proof.
  revert s. induction l as [|y r IH]; intros s; cbn; [auto|]. intros [E H]. split; [|eauto].
  intros z Hz. pose proof (contig_nonces _ _ _ H Hz). lia.
Qed.
Lemma contig_app s l1 l2 : contig s (l1 ++ l2) <-> contig s l1 /\ contig (s + len l1) l2.
Proof.
  revert s. induction l1 as [|y r IH]; intros s; cbn.
  - unfold len; cbn. rewrite N.add_0_r. tauto.
  - rewrite IH. unfold len; cbn [length]. replace (s + 1 + N.of_nat (length r)) with (s + N.of_nat (S (length r))) by lia. tauto.
Qed.
Lemma contig_hasn s l n : contig s l -> (hasn l n <-> s <= n < s + len l).
Proof.
  revert s. induction l as [|y r IH]; intros s; cbn.
  - intros _. unfold hasn, len; cbn. split; [intros [? [[] _]]|lia].
  - intros [E H]. specialize (IH _ H). unfold hasn in *. unfold len in *; cbn [length]. split.
    + intros [t [[<-|Ht] En]]; [lia|]. assert (Hh : exists t, In t r /\ t_nonce t = n) by eauto. apply IH in Hh. lia.
    + intros Hn. destruct (N.eq_dec n s) as [->|Hne]; [exists y; cbn; auto|].
      assert (Hr : s + 1 <= n < s + 1 + N.of_nat (length r)) by lia. apply IH in Hr as [t [Ht En]]. exists t; cbn; auto.
Qed.

(* ---------- amap ---------- *)
Lemma aget_adel a b m : aget a (adel b m) = if b =? a then [] else aget a m.
Proof.
  induction m as [|[k l] r IH]; cbn; [destruct (b =? a); reflexivity|].
  destruct (k =? b) eqn:E1.
  - rewrite IH. destruct (b =? a) eqn:E2; [reflexivity|]. destruct (k =? a) eqn:E3; [lia|reflexivity].
  - cbn. rewrite IH. destruct (k =? a) eqn:E3; [|reflexivity]. destruct (b =? a) eqn:E2; [lia|reflexivity].
Qed.
Lemma aget_aset a b l m : aget a (aset b l m) = if b =? a then l else aget a m.
Proof.
  unfold aset. destruct l as [|x r].
  - rewrite aget_adel. destruct (b =? a); reflexivity.
  - cbn [aget]. rewrite aget_adel. destruct (b =? a); reflexivity.
Qed.
Lemma aget_aset_same a l m : aget a (aset a l m) = l.
Proof. rewrite aget_aset, N.eqb_refl. reflexivity. Qed.
Lemma aget_aset_other a b l m : b <> a -> aget a (aset b l m) = aget a m.
Proof. intros H. rewrite aget_aset. destruct (b =? a) eqn:E; [lia|reflexivity]. Qed.
Lemma aget_notin a m : ~ In a (akeys m) -> aget a m = [].
Proof.
  induction m as [|[k l] r IH]; cbn; [reflexivity|]. intros H. destruct (k =? a) eqn:E; [exfalso; apply H; left; lia|].
  apply IH. tauto.
Qed.

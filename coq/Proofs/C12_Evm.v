(* C12 — EVM layer (ETXCache, CoinbaseDeletedHashes, CoinbasesDeleted, lockup deletions staged in
   EVM.Batch): lemmas about Model/C12.v [eexec], [evm_revert], [evm_undo]. *)
From Coq Require Import List NArith ZArith Bool Lia.
From GQ Require Import Lib.Key Lib.SMap Lib.C12_Laws Model.C12.
Import ListNotations.

Fixpoint eframe_ind' (P : eframe -> Prop)
    (HClaim : forall k etx h, P (EClaim k etx h)) (HEmit : forall etx, P (EEmit etx))
    (HCall : forall body fails, Forall P body -> P (ECall body fails)) (f : eframe) : P f :=
  match f with
  | EClaim k etx h => HClaim k etx h
  | EEmit etx => HEmit etx
  | ECall body fails =>
      HCall body fails ((fix go (l : list eframe) : Forall P l :=
                           match l with
                           | [] => Forall_nil P
                           | g :: l' => Forall_cons g (eframe_ind' P HClaim HEmit HCall g) (go l')
                           end) body)
  end.

Lemma fold_prop {S} (Q : S -> S -> Prop) (step : eframe -> S -> S) (l : list eframe) :
  (forall s, Q s s) -> (forall a b c, Q a b -> Q b c -> Q a c) ->
  Forall (fun f => forall s, Q s (step f s)) l ->
  forall s, Q s (fold_left (fun a g => step g a) l s).
Proof.
  intros R T. induction l as [|g l IH]; intros F s; cbn; [apply R|].
  inversion F; subst. eapply T; [|apply IH; assumption]. auto.
Qed.

(* ---- the lists only grow inside a frame; a failing frame cuts them back ---- *)
Definition grows (a b : evmst) : Prop :=
  (exists x, e_etxs b = e_etxs a ++ x) /\ (exists y, e_hashes b = e_hashes a ++ y) /\ e_db b = e_db a.

Lemma grows_refl a : grows a a.
Proof. repeat split; try (exists []; rewrite app_nil_r; reflexivity). Qed.

Lemma grows_trans a b c : grows a b -> grows b c -> grows a c.
Proof.
  intros ([x X] & [y Y] & D) ([x' X'] & [y' Y'] & D'). repeat split.
  - exists (x ++ x'). rewrite X', X, app_assoc. reflexivity.
  - exists (y ++ y'). rewrite Y', Y, app_assoc. reflexivity.
  - congruence.
Qed.

Lemma eexec_grows fixd f : forall st, grows st (eexec fixd f st).
Proof.
  induction f as [k etx h|etx|body fails IHb] using eframe_ind'; intros st; cbn [eexec].
  - destruct (lk_view st k); [|apply grows_refl]. repeat split; cbn; eauto.
  - repeat split; cbn; eauto. exists []. rewrite app_nil_r. reflexivity.
  - pose proof (fold_prop grows (eexec fixd) body grows_refl grows_trans IHb st) as ([x X] & [y Y] & D).
    destruct fails; [|repeat split; eauto].
    unfold evm_revert. repeat split; cbn.
    + exists []. rewrite X, firstn_length_app, app_nil_r. reflexivity.
    + exists []. rewrite Y, firstn_length_app, app_nil_r. reflexivity.
    + exact D.
Qed.

Lemma failed_call_lists fixd body st :
  let st' := eexec fixd (ECall body true) st in
  e_etxs st' = e_etxs st /\ e_hashes st' = e_hashes st /\ e_deleted st' = e_deleted st /\ e_db st' = e_db st.
Proof.
  cbn [eexec].
  pose proof (fold_prop grows (eexec fixd) body grows_refl grows_trans
                (proj2 (Forall_forall _ _) (fun f _ => eexec_grows fixd f)) st) as ([x X] & [y Y] & D).
  unfold evm_revert. cbn. rewrite X, Y, !firstn_length_app. auto.
Qed.

(* frames without a claim never touch the batch *)
Fixpoint no_claim (f : eframe) : bool :=
  match f with
  | EClaim _ _ _ => false
  | EEmit _ => true
  | ECall body _ => forallb no_claim body
  end.

Lemma no_claim_batch f : forall st, no_claim f = true ->
  e_batch (eexec false f st) = e_batch st /\ e_deleted (eexec false f st) = e_deleted st.
Proof.
  induction f as [k etx h|etx|body fails IHb] using eframe_ind'; intros st H; cbn [eexec no_claim] in *.
  - discriminate.
  - auto.
  - assert (forall s, e_batch (fold_left (fun a g => eexec false g a) body s) = e_batch s /\
                      e_deleted (fold_left (fun a g => eexec false g a) body s) = e_deleted s) as X.
    { clear st. induction body as [|g l IH]; intros s; cbn [fold_left]; [auto|].
      cbn [forallb] in H. apply andb_prop in H as [Hg Hl].
      inversion IHb as [|? ? Pg Pl]; subst.
      destruct (IH Pl Hl (eexec false g s)) as [E1 E2]. destruct (Pg s Hg) as [E3 E4]. split; congruence. }
    destruct (X st) as [E1 E2]. destruct fails; [|auto]. unfold evm_revert. cbn. auto.
Qed.

(* after a failed top-level frame that started with an empty undo map, UndoCoinbasesDeleted has
   nothing left to restore: it leaves the batch as it is *)
Lemma undo_after_failed_top_is_noop fixd body st :
  e_deleted st = [] ->
  e_batch (evm_undo (eexec fixd (ECall body true) st)) = e_batch (eexec fixd (ECall body true) st).
Proof.
  intros E. destruct (failed_call_lists fixd body st) as (_ & _ & D & _). unfold evm_undo. cbn [e_batch].
  rewrite D, E. reflexivity.
Qed.

(* ---------- the proposed repair restores the readable lockup records ---------- *)
Lemma lk_view_put_other st k k0 x :
  k0 <> k -> lk_view (mkEvm (e_etxs st) (e_hashes st) (e_deleted st) (put k x (e_batch st)) (e_db st)) k0 = lk_view st k0.
Proof. intros N. unfold lk_view. cbn. rewrite get_put_other by exact N. reflexivity. Qed.

(* relation between the state at frame entry (a) and a later state (b), per key *)
Definition krel (a b : evmst) (k : key) : Prop :=
  (get k (e_deleted b) = get k (e_deleted a) /\ lk_view b k = lk_view a k) \/
  (get k (e_deleted a) = None /\ exists v, get k (e_deleted b) = Some v /\ lk_view a k = Some v /\ lk_view b k = None).

Definition erel (a b : evmst) : Prop := (forall k, krel a b k) /\ e_db b = e_db a.

(* consistent EVM state: the undo map is sorted and a record it holds is not readable any more *)
Definition good (st : evmst) : Prop :=
  sorted (e_deleted st) /\ (forall k v, get k (e_deleted st) = Some v -> lk_view st k = None).

Definition Qrel (a b : evmst) : Prop := good a -> erel a b /\ good b.

Lemma erel_refl a : erel a a.
Proof. split; [intros k; left; auto|auto]. Qed.

Lemma erel_trans a b c : erel a b -> erel b c -> erel a c.
Proof.
  intros (K1 & D1) (K2 & D2). split; [|congruence].
  intros k. destruct (K1 k) as [[A1 A2]|(B1 & v & B2 & B3 & B4)], (K2 k) as [[A3 A4]|(B5 & w & B6 & B7 & B8)].
  - left. split; congruence.
  - right. split; [congruence|]. exists w. repeat split; congruence.
  - right. split; [exact B1|]. exists v. repeat split; congruence.
  - congruence.
Qed.

Lemma Qrel_refl a : Qrel a a.
Proof. intros G. split; [apply erel_refl|exact G]. Qed.

Lemma Qrel_trans a b c : Qrel a b -> Qrel b c -> Qrel a c.
Proof. intros H1 H2 G. destruct (H1 G) as [E1 G1]. destruct (H2 G1) as [E2 G2]. split; [eapply erel_trans; eauto|exact G2]. Qed.

Lemma view_fold_untouched (old : smap (list N)) k new : forall b,
  (forall v, ~ In (k, v) new) ->
  get k (evm_restore old new b) = get k b.
Proof.
  unfold evm_restore. induction new as [|[k1 v1] t IH]; intros b H; cbn [fold_left]; [reflexivity|].
  rewrite IH by (intros v Hv; apply (H v); right; exact Hv).
  cbn [fst snd]. destruct (get k1 old); [reflexivity|].
  apply get_put_other. intros ->. apply (H v1). left. reflexivity.
Qed.

Lemma restore_get old new k : sorted new -> forall b,
  get k (evm_restore old new b) =
  match get k new with
  | Some v => match get k old with None => Some (Some v) | Some _ => get k b end
  | None => get k b
  end.
Proof.
  induction new as [|[k1 v1] t IH]; intros S b; [reflexivity|].
  destruct S as [L S]. unfold evm_restore in *. cbn [fold_left fst snd get].
  destruct (kcmp k k1) eqn:E.
  - apply kcmp_eq in E; subst k1.
    assert (forall v, ~ In (k, v) t) as NI.
    { intros v Hv. specialize (L k v Hv). rewrite kltb_irrefl in L. discriminate. }
    pose proof (view_fold_untouched old k t) as U. unfold evm_restore in U. rewrite U by exact NI.
    destruct (get k old); [reflexivity|]. apply get_put_same.
  - assert (get k t = None) as Gt.
    { apply get_lb_none. eapply lb_trans; [|exact L]. unfold kltb. rewrite E. reflexivity. }
    rewrite IH by exact S. rewrite Gt.
    destruct (get k1 old); [reflexivity|]. apply get_put_other. intros ->. rewrite kcmp_refl in E. discriminate.
  - rewrite IH by exact S.
    assert (forall x, get k (put k1 x b) = get k b) as P
      by (intros x; apply get_put_other; intros ->; rewrite kcmp_refl in E; discriminate).
    destruct (get k t) as [v|]; [destruct (get k old)|]; destruct (get k1 old); auto.
Qed.

Lemma eexec_Qrel f : forall st, Qrel st (eexec true f st).
Proof.
  induction f as [k etx h|etx|body fails IHb] using eframe_ind'; intros st; cbn [eexec].
  - destruct (lk_view st k) as [v|] eqn:V; [|apply Qrel_refl].
    intros [S C]. split; [split; [|reflexivity]|split].
    + intros k0. unfold krel. destruct (keqb k0 k) eqn:E.
      * apply keqb_eq in E; subst k0. cbn [e_deleted]. rewrite get_put_same.
        destruct (get k (e_deleted st)) as [w|] eqn:G; [rewrite (C k w G) in V; discriminate|].
        right. split; [reflexivity|]. exists v. repeat split; auto.
        unfold lk_view. cbn. rewrite get_put_same. reflexivity.
      * apply keqb_neq in E. left. cbn [e_deleted]. rewrite get_put_other by exact E. split; [reflexivity|].
        unfold lk_view. cbn. rewrite get_put_other by exact E. reflexivity.
    + cbn. apply put_sorted. exact S.
    + intros k0 v0. cbn [e_deleted]. rewrite get_put_eq_dec. destruct (keqb k0 k) eqn:E.
      * apply keqb_eq in E; subst k0. intros _. unfold lk_view. cbn. rewrite get_put_same. reflexivity.
      * apply keqb_neq in E. intros G. unfold lk_view. cbn. rewrite get_put_other by exact E. apply (C k0 v0 G).
  - intros G. split; [split; [intros k; left; auto|reflexivity]|exact G].
  - pose proof (fold_prop Qrel (eexec true) body Qrel_refl Qrel_trans IHb st) as Hb.
    destruct fails; [|exact Hb].
    intros G. destruct (Hb G) as [[K D] [S' C']]. destruct G as [S C].
    assert (forall k, lk_view (evm_revert true st (fold_left (fun a g => eexec true g a) body st)) k = lk_view st k) as V.
    { intros k. unfold lk_view at 1. unfold evm_revert. cbn [e_batch e_db]. rewrite restore_get by exact S'. rewrite D.
      destruct (K k) as [[A1 A2]|(B1 & v & B2 & B3 & B4)].
      - rewrite A1. unfold lk_view in A2. rewrite D in A2.
        destruct (get k (e_deleted st)) as [w|]; exact A2.
      - rewrite B2, B1. symmetry. exact B3. }
    split; [split|split].
    + intros k. left. split; [reflexivity|apply V].
    + exact D.
    + exact S.
    + intros k v Gk. rewrite V. apply (C k v Gk).
Qed.

(* with the repair, a failing frame leaves every lockup record as readable as it found it *)
Lemma failed_frame_lockups_fixed body st k :
  good st -> lk_view (eexec true (ECall body true) st) k = lk_view st k.
Proof.
  intros G. destruct (eexec_Qrel (ECall body true) st G) as [[K _] _].
  destruct (K k) as [[_ A]|(B1 & v & B2 & _)]; [exact A|].
  destruct (failed_call_lists true body st) as (_ & _ & D & _). rewrite D in B2. congruence.
Qed.

Lemma failed_frame_lockups_no_claim body st k :
  forallb no_claim body = true -> lk_view (eexec false (ECall body true) st) k = lk_view st k.
Proof.
  intros H. destruct (no_claim_batch (ECall body true) st H) as [B _].
  destruct (failed_call_lists false body st) as (_ & _ & _ & D).
  unfold lk_view. rewrite B, D. reflexivity.
Qed.

Lemma good_start db : good (mkEvm [] [] [] [] db).
Proof. split; [exact I|]. intros k v H. discriminate H. Qed.

Lemma failed_frame_lockups_code body st k :
  good st -> (code_fixd = true \/ forallb no_claim body = true) ->
  lk_view (eexec code_fixd (ECall body true) st) k = lk_view st k.
Proof.
  intros G H. destruct code_fixd eqn:E.
  - apply failed_frame_lockups_fixed. exact G.
  - destruct H as [H|H]; [discriminate|]. apply failed_frame_lockups_no_claim. exact H.
Qed.

(* ---------- the outbound set: what is in the ETX cache after a call tree ---------- *)
(* the sends of the frames that, with all the frames around them, ended well, in program order *)
Fixpoint kept (f : eframe) : list N :=
  match f with
  | EClaim _ _ _ => []
  | EEmit e => [e]
  | ECall body fails => if fails then [] else flat_map kept body
  end.

Lemma outbound_kept fixd f : forall st, no_claim f = true -> e_etxs (eexec fixd f st) = e_etxs st ++ kept f.
Proof.
  induction f as [k etx h|etx|body fails IHb] using eframe_ind'; intros st H; cbn [eexec no_claim kept] in *.
  - discriminate.
  - reflexivity.
  - assert (forall s, e_etxs (fold_left (fun a g => eexec fixd g a) body s) = e_etxs s ++ flat_map kept body) as X.
    { clear st. induction body as [|g l IH]; intros s; cbn [fold_left flat_map]; [rewrite app_nil_r; reflexivity|].
      cbn [forallb] in H. apply andb_prop in H as [Hg Hl].
      inversion IHb as [|? ? Pg Pl]; subst.
      rewrite (IH Pl Hl), (Pg s Hg), app_assoc. reflexivity. }
    destruct fails.
    + unfold evm_revert. cbn [e_etxs]. rewrite X, firstn_length_app, app_nil_r. reflexivity.
    + apply X.
Qed.

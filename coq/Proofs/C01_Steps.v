(* C01 -- inversion lemmas for the output loop and the fee part of ProcessQiTx / processQiTx:
   every accepting path, with the resulting accumulator written out. *)
From Coq Require Import List NArith Bool Lia ZifyBool ZifyN.
From GQ Require Import Lib.Key Lib.SMap Generated.C01Params Model.C01.
Import ListNotations.
Local Open Scope N_scope.

(* which branch of the output loop an output takes *)
Definition is_conv_out (c : ctx) (t : tx) (o : txout) : bool :=
  is_local c (o_addr o) && is_quai (o_addr o) && (len (t_data t) =? max_qi_tx_data_length).
Definition is_wrap_out (c : ctx) (t : tx) (o : txout) : bool :=
  negb (is_conv_out c t o) && (is_local c (o_addr o) && is_quai (o_addr o) && (len (t_data t) =? address_length)).
Definition prefork (c : ctx) : bool := negb (qi_wrapping_change_block <=? c_ptn c).

Definition rgas_after (c : ctx) (a : oacc) (o : txout) : N :=
  if a_region (o_addr o) =? c_region c then oa_rgas a + tx_gas else oa_rgas a.
Definition pgas_after (c : ctx) (a : oacc) (o : txout) : N :=
  if a_region (o_addr o) =? c_region c then oa_pgas a else oa_pgas a + tx_gas.

Definition agg_acc (a : oacc) (o : txout) (isconv iswrap : bool) (creates : list (key * utxo)) : oacc :=
  mkOA (oa_idx a + 1) (aremove (o_addr o) (o_addr o :: oa_addrs a)) (oa_total a + den_value (o_den o))
       (oa_conv a + den_value (o_den o)) isconv iswrap (o_addr o) (oa_dens a) (oa_etxs a) creates
       (oa_gp a) (oa_used a) (oa_rgas a) (oa_pgas a).

Definition new_utxo (t : tx) (a : oacc) (o : txout) : key * utxo :=
  (outkey (t_hash t) (oa_idx a), mkU (o_den o) (o_addr o) 0).

Lemma out_step_inv w c rl pl t a o a' : out_step w c rl pl t a o = Ok a' ->
  o_den o <= max_denomination /\ o_lock o = 0 /\ oa_idx a <= max_output_index /\ amem (o_addr o) (oa_addrs a) = false /\
  ( (is_conv_out c t o = true /\ a' = agg_acc a o true (oa_iswrap a) (oa_creates a))
    \/ (is_wrap_out c t o = true /\ prefork c = false /\ a' = agg_acc a o (oa_isconv a) true (oa_creates a))
    \/ (is_wrap_out c t o = true /\ prefork c = true
        /\ a' = agg_acc a o (oa_isconv a) true (oa_creates a ++ [new_utxo t a o]))
    \/ (is_conv_out c t o = false /\ is_wrap_out c t o = false /\ is_local c (o_addr o) = false
        /\ is_qi (o_addr o) = true /\ eligible c (o_addr o) = true /\ etx_gas <= oa_gp a
        /\ rgas_after c a o <= rl /\ pgas_after c a o <= pl
        /\ a' = mkOA (oa_idx a + 1) (o_addr o :: oa_addrs a) (oa_total a + den_value (o_den o)) (oa_conv a)
                     (oa_isconv a) (oa_iswrap a) (oa_caddr a) (o_den o :: oa_dens a)
                     (oa_etxs a ++ [mkEtx etx_default_type (o_addr o) (o_den o) (oa_idx a) tx_gas]) (oa_creates a)
                     (oa_gp a - etx_gas) (oa_used a + etx_gas) (rgas_after c a o) (pgas_after c a o))
    \/ (is_conv_out c t o = false /\ is_wrap_out c t o = false /\ is_local c (o_addr o) = true
        /\ is_qi (o_addr o) = true
        /\ a' = mkOA (oa_idx a + 1) (o_addr o :: oa_addrs a) (oa_total a + den_value (o_den o)) (oa_conv a)
                     (oa_isconv a) (oa_iswrap a) (oa_caddr a) (o_den o :: oa_dens a) (oa_etxs a)
                     (oa_creates a ++ [new_utxo t a o]) (oa_gp a) (oa_used a) (oa_rgas a) (oa_pgas a)) ).
Proof.
  unfold out_step, out_emit, is_wrap_out, is_conv_out, prefork, agg_acc, new_utxo, rgas_after, pgas_after, is_quai.
  cbv zeta. cbn [oa_idx oa_addrs oa_total oa_conv oa_isconv oa_iswrap oa_caddr oa_dens oa_etxs oa_creates oa_gp oa_used oa_rgas oa_pgas].
  destruct (max_output_index <? oa_idx a) eqn:E1; [discriminate|].
  destruct (max_denomination <? o_den o) eqn:E2; [discriminate|].
  destruct (o_lock o =? 0) eqn:E3; cbn [negb]; [|discriminate].
  destruct (amem (o_addr o) (oa_addrs a)) eqn:E4; [discriminate|].
  assert (o_den o <= max_denomination /\ o_lock o = 0 /\ oa_idx a <= max_output_index /\ false = false) as Hpre
      by (repeat split; lia).
  destruct (is_local c (o_addr o)) eqn:EL; destruct (is_qi (o_addr o)) eqn:EQ;
    destruct (len (t_data t) =? max_qi_tx_data_length) eqn:E22;
    destruct (len (t_data t) =? address_length) eqn:E20;
    cbn [andb negb orb];
    repeat match goal with
           | |- context[if ?b then _ else _] => destruct b eqn:?
           end;
    intros H; try discriminate; inversion H; subst a'; clear H;
      (split; [lia|split; [lia|split; [lia|split; [reflexivity|]]]]);
      try (left; split; reflexivity);
      try (right; left; repeat split; reflexivity);
      try (right; right; left; repeat split; reflexivity);
      try (right; right; right; right; repeat split; reflexivity);
      try (right; right; right; left; repeat split; try reflexivity; lia).
Qed.

Definition oa0 (addrs : list (list N)) (gp used : N) : oacc :=
  mkOA 0 addrs 0 0 false false [] [] [] [] gp used 0 0.

Definition conv_etx (a : oacc) (g : N) : etx :=
  mkEtx (if oa_iswrap a then etx_wrapping_qi_type else etx_conversion_type) (oa_caddr a) (oa_conv a) 0 g.

Lemma post_inputs_inv w c rl pl t gp used addrs tot p :
  post_inputs w c rl pl t gp used addrs tot = Ok p ->
  exists a, out_loop w c rl pl t (oa0 addrs gp used) (t_outs t) = Ok a
    /\ oa_total a <= tot /\ p_fee p = tot - oa_total a
    /\ p_creates p = oa_creates a /\ p_outdens p = oa_dens a /\ p_rgas p = oa_rgas a
    /\ p_total_out p = oa_total a /\ p_conv p = oa_conv a /\ p_isconv p = oa_isconv a /\ p_iswrap p = oa_iswrap a
    /\ t_intrinsic t * c_basefee c <= c_quai_reward c * p_fee p / c_qi_reward c
    /\ ( (oa_isconv a = false /\ oa_iswrap a = false /\ p_etxs p = oa_etxs a /\ p_gp p = oa_gp a
          /\ p_used p = oa_used a /\ p_pgas p = oa_pgas a)
         \/ (xorb (oa_isconv a) (oa_iswrap a) = true
             /\ (exists g, p_etxs p = oa_etxs a ++ [conv_etx a g])
             /\ etx_gas <= oa_gp a /\ p_gp p = oa_gp a - etx_gas /\ p_used p = oa_used a + etx_gas
             /\ p_pgas p = oa_pgas a + qi_to_quai_conversion_gas /\ p_pgas p <= pl
             /\ (oa_isconv a = true -> in_hold c kawpow_fork_block = false
                                       /\ in_hold c sha_equivalent_difficulty_fork_block = false)) ).
Proof.
  unfold post_inputs, oa0, conv_etx.
  destruct (out_loop w c rl pl t (mkOA 0 addrs 0 0 false false [] [] [] [] gp used 0 0) (t_outs t)) as [a|e g]; [|discriminate].
  cbv zeta.
  destruct (tot <? oa_total a) eqn:E1; [discriminate|].
  destruct ((t_intrinsic t + len (oa_etxs a) * (tx_gas + etx_gas)) mod two64 <? t_intrinsic t) eqn:E2; [discriminate|].
  destruct (c_quai_reward c * (tot - oa_total a) / c_qi_reward c <?
            (t_intrinsic t + len (oa_etxs a) * (tx_gas + etx_gas)) mod two64 * c_basefee c) eqn:E3; [discriminate|].
  assert (t_intrinsic t * c_basefee c <= c_quai_reward c * (tot - oa_total a) / c_qi_reward c) as Hfloor.
  { apply N.ltb_ge in E2, E3. etransitivity; [|exact E3]. apply N.mul_le_mono_r. exact E2. }
  destruct (oa_isconv a) eqn:EC; destruct (oa_iswrap a) eqn:EW; cbn [andb orb];
    repeat match goal with
           | |- context[if ?b then _ else _] => destruct b eqn:?
           end;
    intros H; try discriminate; inversion H; subst p; clear H;
    exists a; cbn [p_fee p_etxs p_creates p_gp p_used p_rgas p_pgas p_outdens p_total_out p_conv p_isconv p_iswrap];
    rewrite ?EC, ?EW;
    (split; [reflexivity|split; [lia|split; [reflexivity|]]]);
    repeat (split; [reflexivity|]);
    (split; [exact Hfloor|]);
    try (left; repeat split; reflexivity);
    try (right; split; [reflexivity|split; [eexists; reflexivity|]];
         repeat split; try reflexivity; try lia; try discriminate; try assumption).
Qed.

(* ------------------------------------------------------------------ value bookkeeping *)

Definition value_of (cs : list (key * utxo)) : N := sum_den (map (fun kv => u_den (snd kv)) cs).
Definition etx_val (e : etx) : N :=
  if e_type e =? etx_default_type then den_value (e_value e) else e_value e.   (* default Qi ETXs carry a denomination index *)
Definition etxs_value (l : list etx) : N := fold_right (fun e acc => etx_val e + acc) 0 l.
(* before QiWrappingChangeBlock a wrapped output is written to the UTXO set AND carried by the wrapping ETX *)
Definition dbl (c : ctx) (t : tx) (o : txout) : N :=
  if prefork c && is_wrap_out c t o then den_value (o_den o) else 0.
Definition dbl_sum (c : ctx) (t : tx) (outs : list txout) : N := fold_right (fun o acc => dbl c t o + acc) 0 outs.

Lemma sum_den_app a b : sum_den (a ++ b) = sum_den a + sum_den b.
Proof. induction a as [|x a IH]; cbn [app sum_den fold_right]; [reflexivity|]. fold (sum_den (a ++ b)). fold (sum_den a). rewrite IH. lia. Qed.
Lemma value_of_app a b : value_of (a ++ b) = value_of a + value_of b.
Proof. unfold value_of. rewrite map_app. apply sum_den_app. Qed.
Lemma etxs_value_app a b : etxs_value (a ++ b) = etxs_value a + etxs_value b.
Proof. induction a as [|x a IH]; cbn [app etxs_value fold_right]; [reflexivity|]. fold (etxs_value (a ++ b)). fold (etxs_value a). rewrite IH. lia. Qed.
Lemma value_of_one k u : value_of [(k, u)] = den_value (u_den u).
Proof. unfold value_of; cbn [map sum_den fold_right snd]. lia. Qed.
Lemma etxs_value_default to d i g : etxs_value [mkEtx etx_default_type to d i g] = den_value d.
Proof. unfold etxs_value, etx_val; cbn [fold_right e_type e_value]. rewrite N.eqb_refl. lia. Qed.

Definition measure (a : oacc) : N := value_of (oa_creates a) + etxs_value (oa_etxs a) + oa_conv a.

Lemma out_step_measure w c rl pl t a o a' : out_step w c rl pl t a o = Ok a' ->
  measure a' = measure a + den_value (o_den o) + dbl c t o
  /\ oa_total a' = oa_total a + den_value (o_den o)
  /\ oa_gp a' <= oa_gp a /\ oa_gp a' + oa_used a' = oa_gp a + oa_used a
  /\ oa_idx a' = oa_idx a + 1
  /\ ((oa_isconv a = false /\ oa_iswrap a = false -> oa_conv a = 0) ->
      (oa_isconv a' = false /\ oa_iswrap a' = false -> oa_conv a' = 0)).
Proof.
  intros H. apply out_step_inv in H as (_ & _ & _ & _ & H). unfold dbl, measure.
  destruct H as [(Hc & ->)|[(Hw & Hp & ->)|[(Hw & Hp & ->)|[(Hc & Hw & _ & _ & _ & Hg & _ & _ & ->)|(Hc & Hw & _ & _ & ->)]]]];
    unfold agg_acc, new_utxo;
    cbn [oa_idx oa_addrs oa_total oa_conv oa_isconv oa_iswrap oa_caddr oa_dens oa_etxs oa_creates oa_gp oa_used oa_rgas oa_pgas];
    rewrite ?value_of_app, ?etxs_value_app, ?value_of_one, ?etxs_value_default; cbn [u_den];
    rewrite ?Hw, ?Hp; cbn [andb].
  - assert (is_wrap_out c t o = false) as -> by (unfold is_wrap_out; rewrite Hc; reflexivity).
    rewrite andb_false_r. repeat split; try lia; try (intros _ [? ?]; discriminate).
  - repeat split; try lia; try (intros _ [? ?]; discriminate).
  - repeat split; try lia; try (intros _ [? ?]; discriminate).
  - rewrite andb_false_r. repeat split; try lia; auto.
  - rewrite andb_false_r. repeat split; try lia; auto.
Qed.

Lemma out_loop_measure w c rl pl t outs : forall a a', out_loop w c rl pl t a outs = Ok a' ->
  measure a' = measure a + sum_den (map o_den outs) + dbl_sum c t outs
  /\ oa_total a' = oa_total a + sum_den (map o_den outs)
  /\ oa_gp a' <= oa_gp a /\ oa_gp a' + oa_used a' = oa_gp a + oa_used a
  /\ oa_idx a' = oa_idx a + len outs
  /\ ((oa_isconv a = false /\ oa_iswrap a = false -> oa_conv a = 0) ->
      (oa_isconv a' = false /\ oa_iswrap a' = false -> oa_conv a' = 0)).
Proof.
  induction outs as [|o r IH]; intros a a' H; cbn [out_loop] in H.
  - inversion H; subst. unfold len; cbn [map sum_den fold_right dbl_sum length]. repeat split; try lia; auto.
  - destruct (out_step w c rl pl t a o) as [a1|] eqn:E; [|discriminate].
    apply out_step_measure in E as (E1 & E2 & E3 & E4 & E5 & E6).
    apply IH in H as (H1 & H2 & H3 & H4 & H5 & H6).
    cbn [map sum_den fold_right dbl_sum]. fold (sum_den (map o_den r)). fold (dbl_sum c t r).
    unfold len in *; cbn [length]. repeat split; try lia; auto.
Qed.

(* created records of the output loop: keys are tx.Hash() ++ index, indices strictly increasing *)
Lemma out_step_creates w c rl pl t a o a' : out_step w c rl pl t a o = Ok a' ->
  oa_creates a' = oa_creates a \/ oa_creates a' = oa_creates a ++ [new_utxo t a o].
Proof.
  intros H. apply out_step_inv in H as (_ & _ & _ & _ & H).
  destruct H as [(Hc & ->)|[(Hw & Hp & ->)|[(Hw & Hp & ->)|[(Hc & Hw & _ & _ & _ & Hg & _ & _ & ->)|(Hc & Hw & _ & _ & ->)]]]];
    unfold agg_acc; cbn [oa_creates]; auto.
Qed.

Definition created_by (t : tx) (lo hi : N) (kv : key * utxo) : Prop :=
  exists i, lo <= i < hi /\ fst kv = outkey (t_hash t) i /\ u_lock (snd kv) = 0.

Lemma out_loop_creates w c rl pl t outs : forall a a', out_loop w c rl pl t a outs = Ok a' ->
  exists cs, oa_creates a' = oa_creates a ++ cs /\ Forall (created_by t (oa_idx a) (oa_idx a')) cs.
Proof.
  induction outs as [|o r IH]; intros a a' H; cbn [out_loop] in H.
  - inversion H; subst. exists []. rewrite app_nil_r. split; auto.
  - destruct (out_step w c rl pl t a o) as [a1|] eqn:E; [|discriminate].
    pose proof (out_step_creates _ _ _ _ _ _ _ _ E) as Hc.
    apply out_step_measure in E as (_ & _ & _ & _ & E5 & _).
    pose proof (out_loop_measure _ _ _ _ _ _ _ _ H) as (_ & _ & _ & _ & H5 & _).
    apply IH in H as (cs & Hcs & Hall).
    assert (Forall (created_by t (oa_idx a) (oa_idx a')) cs) as Hall'.
    { eapply Forall_impl; [|exact Hall]. intros kv (i & Hi & Hk). exists i. split; [lia|exact Hk]. }
    destruct Hc as [Hc|Hc]; rewrite Hc in Hcs.
    + exists cs. split; auto.
    + exists (new_utxo t a o :: cs). rewrite Hcs, <- app_assoc. split; [reflexivity|].
      constructor; [|exact Hall'].
      exists (oa_idx a). unfold new_utxo; cbn [fst snd u_lock]. unfold len in H5. repeat split; lia.
Qed.

(* C08 -- lemmas of the third strengthening round:
     * the signed template of an AuxPoW (Model.C08.template_of = auxpow.go ConvertToTemplate) covers every field that is
       hashed into the post-fork identity, up to the nil/empty form of auxPow2 (which is NOT covered: refuted);
     * an engine error is never an accepted seal / share;
     * the generated obligation on ConvertToTemplate's control-flow paths. *)
From Coq Require Import String.
From Coq Require Import List ZArith Bool Lia.
From GQ Require Import Generated.C08Fields Model.C08.
Import ListNotations.
Local Open Scope Z_scope.

(* ------------------------------------------------------------------ generated side condition *)

Definition tmem (s : string) (l : list string) : bool := existsb (String.eqb s) l.
Definition slist_eqb (a b : list string) : bool :=
  forallb (fun x => tmem x b) a && forallb (fun x => tmem x a) b.
Definition assoc (k : string) (m : list (string * list string)) : list string :=
  match find (fun kv => String.eqb (fst kv) k) m with Some kv => snd kv | None => [] end.

Definition cpath := (list (list string * string * bool) * list (string * list string))%type.
Definition path_sources (p : cpath) : list string := concat (map snd (snd p)).
(* the path runs through the taken branch of `recv.f == nil` and that condition reads nothing else *)
Definition own_nil_path (f : string) (p : cpath) : bool :=
  existsb (fun g => match g with
                    | (fs, nt, taken) => taken && String.eqb nt f && slist_eqb fs [f]
                    end) (fst p).

(* receiver fields that AuxPow.ProtoEncode hashes into the identity *)
Definition identity_fields : list string := concat (map snd auxpow_encode_map).
(* reviewed: wire fields of ProtoAuxPow that no encoder writes (decoded objects never carry them) *)
Definition auxpow_wire_never_written : list string := ["SignatureTime"]%string.
Definition template_setters : list string :=
  ["SetPowID"; "SetPrevHash"; "SetVersion"; "SetNBits"; "SetAuxPow2"; "SetSignatureTime"; "SetHeight"; "SetCoinbaseOut";
   "SetMerkleBranch"; "SetSigs"]%string.
(* what the model's template_of copies from where, on every path *)
Definition fixed_setter_sources : list (string * list string) :=
  [("SetPowID", ["powID"]); ("SetPrevHash", ["header"]); ("SetVersion", ["header"]); ("SetNBits", ["header"]);
   ("SetCoinbaseOut", ["transaction"]); ("SetMerkleBranch", ["merkleBranch"]); ("SetSigs", ["signature"])]%string.

Definition template_covers_identity : bool :=
  (* every wire field of ProtoAuxPow is written by ProtoEncode or is on the reviewed list, and those are really not written *)
  forallb (fun f => tmem f (map fst auxpow_encode_map) || tmem f auxpow_wire_never_written) (map snd auxpow_proto_fields)
  && forallb (fun f => negb (tmem f (map fst auxpow_encode_map))) auxpow_wire_never_written
  (* every struct field of AuxPow is hashed into the identity *)
  && forallb (fun f => tmem f identity_fields) auxpow_struct_fields
  (* on EVERY path of ConvertToTemplate every identity field reaches a template setter, or the path is that field's own
     nil-normalisation *)
  && negb (match convert_paths with [] => true | _ => false end)
  && forallb (fun p => forallb (fun f => tmem f (path_sources p) || own_nil_path f p) identity_fields) convert_paths
  (* every path sets all ten template fields; the plain copies have the sources the model assumes; auxPow2 is copied from
     auxPow2 except on its own nil path *)
  && forallb (fun p => forallb (fun s => tmem s (map fst (snd p))) template_setters) convert_paths
  && forallb (fun p => forallb (fun kv => slist_eqb (assoc (fst kv) (snd p)) (snd kv)) fixed_setter_sources) convert_paths
  && forallb (fun p => slist_eqb (assoc "SetAuxPow2" (snd p)) ["auxPow2"%string]
                       || (own_nil_path "auxPow2" p && slist_eqb (assoc "SetAuxPow2" (snd p)) [])) convert_paths
  (* the signed message: AuxTemplate.Hash hashes ProtoEncode, which writes every wire field; only the signature is cleared *)
  && template_hash_uses_encode
  && forallb (fun f => tmem f (map fst template_encode_map)) (map snd template_proto_fields)
  && slist_eqb template_hash_nils ["Sigs"%string].

Lemma template_covers_identity_holds : template_covers_identity = true.
Proof. vm_compute. reflexivity. Qed.

(* ------------------------------------------------------------------ the template binds the identity *)

(* everything AuxPow.ProtoEncode writes (= what WoCustomPowHash hashes) *)
Definition identity (a : auxfull) : Z * bytes * bytes * list bytes * bytes * option bytes :=
  (af_powid a, af_donor a, af_sig a, af_branch a, af_tx a, af_aux2 a).
(* ... with the two encodings of an empty auxPow2 identified *)
Definition identity_norm (a : auxfull) : Z * bytes * bytes * list bytes * bytes * bytes :=
  (af_powid a, af_donor a, af_sig a, af_branch a, af_tx a, aux2_norm (af_aux2 a)).

Lemma template_covers_signed_fields_lemma : forall a b,
  template_msg (template_of a) = template_msg (template_of b) ->
  af_powid a = af_powid b /\ af_prev a = af_prev b /\ af_version a = af_version b /\ af_bits a = af_bits b
  /\ aux2_norm (af_aux2 a) = aux2_norm (af_aux2 b) /\ af_branch a = af_branch b
  /\ extract_coinbase_out (af_tx a) = extract_coinbase_out (af_tx b)
  /\ t_sigtime (template_of a) = t_sigtime (template_of b)
  /\ (af_powid a = powid_kawpow -> af_height a = af_height b).
Proof.
  intros a b E. unfold template_msg, template_of in E. cbv zeta in E. cbn [t_powid t_prev t_version t_bits t_aux2 t_sigtime t_height t_out t_branch t_sigs] in E.
  injection E as Epow Eprev Ever Ebits Eaux Est Eh Eout Ebr.
  split; [exact Epow|]. split; [exact Eprev|]. split; [exact Ever|]. split; [exact Ebits|]. split; [exact Eaux|].
  split; [exact Ebr|]. split; [exact Eout|]. split.
  - unfold template_of. cbv zeta. cbn [t_sigtime]. exact Est.
  - intro K. rewrite <- Epow in Eh. rewrite K in Eh. rewrite Z.eqb_refl in Eh. exact Eh.
Qed.

Lemma auxpow_identity_bound_lemma : forall a b,
  template_msg (template_of a) = template_msg (template_of b) ->
  af_donor a = af_donor b -> af_sig a = af_sig b -> af_tx a = af_tx b ->
  identity_norm a = identity_norm b.
Proof.
  intros a b E D S T. destruct (template_covers_signed_fields_lemma a b E) as (P & _ & _ & _ & A & B & _).
  unfold identity_norm. rewrite P, D, S, T, A, B. reflexivity.
Qed.

(* the nil / empty form of auxPow2 is hashed into the identity and is NOT covered by the template *)
Definition presence_a : auxfull := mkAuxFull 1 [7] [] 0 0 0 None [] [] [9].
Definition presence_b : auxfull := mkAuxFull 1 [7] [] 0 0 0 (Some []) [] [] [9].
Lemma auxpow_identity_presence_refuted_lemma :
  exists a b, template_of a = template_of b /\ af_donor a = af_donor b /\ af_sig a = af_sig b /\ af_tx a = af_tx b
              /\ identity a <> identity b.
Proof. exists presence_a, presence_b. repeat split; try reflexivity. discriminate. Qed.

(* the shape of a conversion that copies auxPow2 only for the scrypt chain: then the statement above is false for
   the other chains even up to normalisation *)
Definition template_of_scrypt_only (a : auxfull) : template :=
  let t := template_of a in
  mkTmpl (t_powid t) (t_prev t) (t_version t) (t_bits t)
    (if af_powid a =? powid_scrypt then t_aux2 t else Some []) (t_sigtime t) (t_height t) (t_out t) (t_branch t) (t_sigs t).
Definition drop_a : auxfull := mkAuxFull 1 [7] [] 0 0 0 (Some []) [] [] [9].
Definition drop_b : auxfull := mkAuxFull 1 [7] [] 0 0 0 (Some [1; 2; 3]) [] [] [9].
Lemma template_copying_aux2_for_scrypt_only_refuted_lemma :
  exists a b, template_of_scrypt_only a = template_of_scrypt_only b /\ af_donor a = af_donor b /\ af_sig a = af_sig b
              /\ af_tx a = af_tx b /\ identity_norm a <> identity_norm b.
Proof. exists drop_a, drop_b. repeat split; try reflexivity. discriminate. Qed.

(* ------------------------------------------------------------------ an engine error is never an accepted seal *)

Lemma cwt_err : forall e h k, eng_err e h = true -> check_work_threshold e h k <> WBool true.
Proof.
  intros e h k E. unfold check_work_threshold. destruct (calc_ws_threshold (h_diff h) k); try discriminate.
  rewrite E. discriminate.
Qed.

Lemma soi_err : forall e h, eng_err e h = true -> sub_or_invalid e h = WsInvalid \/ sub_or_invalid e h = WsPanic.
Proof.
  intros e h E. unfold sub_or_invalid. pose proof (cwt_err e h (e_wsthr e) E) as N.
  destruct (check_work_threshold e h (e_wsthr e)) as [|[|]]; auto. congruence.
Qed.

Lemma cvw_err : forall e h, eng_err e h = true -> check_valid_ws e h = WsInvalid \/ check_valid_ws e h = WsPanic.
Proof.
  intros e h E. unfold check_valid_ws. destruct (u64 (h_ptn h) <? kawpow_fork_block).
  - pose proof (cwt_err e h workshares_threshold_diff E) as N.
    destruct (check_work_threshold e h workshares_threshold_diff) as [|[|]]; auto; [congruence | apply soi_err; exact E].
  - cbv zeta. destruct (kawpow_share_diff h =? 0); auto. rewrite E. auto.
Qed.

Lemma vs_err : forall e h, e_fake e = false -> eng_err e h = true -> seal_err (verify_seal e h) = true.
Proof.
  intros e h F E. unfold verify_seal. rewrite F. destruct (h_diff h <=? 0); [reflexivity|]. rewrite E. reflexivity.
Qed.

Lemma donor_share_cases : forall h d, donor_share h d = WsInvalid \/ donor_share h d = WsValid.
Proof.
  intros h d. unfold donor_share. destruct d as [sd|]; auto. destruct (sd =? 0); auto.
  destruct (of_be (h_donor_pow h) <? go_div two256 sd); auto.
Qed.

Lemma engine_error_never_accepted_lemma : forall e h, e_fake e = false -> eng_err e h = true ->
  verify_seal e h <> SealOk
  /\ (forall k, check_work_threshold e h k <> WBool true)
  /\ (check_valid_ws e h = WsInvalid \/ check_valid_ws e h = WsPanic)
  /\ classify e h <> WsBlock /\ classify e h <> WsSub
  /\ (classify e h = WsValid ->
      exists id d, h_aux h = Some id /\ (id =? powid_kawpow) = false /\ donor_share h d = WsValid).
Proof.
  intros e h F E. pose proof (vs_err e h F E) as S. pose proof (cvw_err e h E) as C.
  split; [intro V; rewrite V in S; discriminate|].
  split; [intro k; apply cwt_err; exact E|].
  split; [exact C|].
  unfold classify.
  destruct (negb (activated h) || transition_progpow h).
  - rewrite S. destruct C as [C|C]; rewrite C; repeat split; try discriminate.
  - destruct (h_aux h) as [id|]; [|repeat split; discriminate].
    destruct (id =? powid_kawpow) eqn:K.
    + rewrite S. destruct C as [C|C]; rewrite C; repeat split; try discriminate.
    + destruct ((id =? powid_sha_bch) || (id =? powid_sha_btc)).
      * destruct (donor_share_cases h (h_shaD h)) as [D|D]; rewrite D; repeat split; try discriminate.
        intros _. exists id, (h_shaD h). auto.
      * destruct (id =? powid_scrypt); [|repeat split; discriminate].
        destruct (donor_share_cases h (h_scrD h)) as [D|D]; rewrite D; repeat split; try discriminate.
        intros _. exists id, (h_scrD h). auto.
Qed.

(* C06 — lemmas about the database content model (sorted association list) and run_ops. *)
From Coq Require Import List NArith ZArith Bool Lia Permutation Arith.
From Coq Require Import ZifyBool ZifyNat ZifyN.
From GQ Require Import Model.C06 Proofs.C06_Acc.
Import ListNotations.
Local Open Scope N_scope.

Definition above (k : key) (d : db) : Prop :=
  match d with [] => True | (k', _) :: _ => k < k' end.
Fixpoint db_ok (d : db) : Prop :=
  match d with [] => True | (k, _) :: t => above k t /\ db_ok t end.

Definition ind (o : option elem) (x : elem) : Z :=
  match o with Some e => if N.eqb e x then 1%Z else 0%Z | None => 0%Z end.
Definition isS (o : option elem) : nat := match o with Some _ => 1%nat | None => 0%nat end.

Lemma above_trans : forall k k' d, k <= k' -> above k' d -> above k d.
Proof. intros k k' [|[k2 e2] t] Hle Ha; cbn [above] in *; [exact I|lia]. Qed.

Lemma get_above : forall d k k', db_ok d -> above k d -> k' <= k -> db_get d k' = None.
Proof.
  intros [|[k2 e2] t] k k' _ Ha Hle; cbn [db_get above] in *; [reflexivity|].
  destruct (N.eqb_spec k' k2); [lia|]. destruct (N.ltb_spec k' k2); [reflexivity|lia].
Qed.

Lemma get_put : forall d k e k', db_ok d ->
  db_get (db_put k e d) k' = if N.eqb k' k then Some e else db_get d k'.
Proof.
  induction d as [|[k2 e2] t IH]; intros k e k' Hok; cbn [db_put db_get].
  - destruct (N.eqb_spec k' k); [reflexivity|]. destruct (N.ltb k' k); reflexivity.
  - destruct Hok as [Ha Hok].
    destruct (N.ltb_spec k k2) as [Hlt|Hge].
    + cbn [db_get]. destruct (N.eqb_spec k' k) as [->|Hne]; [reflexivity|].
      destruct (N.ltb_spec k' k) as [Hl2|Hg2]; [|reflexivity].
      destruct (N.eqb_spec k' k2); [lia|]. destruct (N.ltb_spec k' k2); [reflexivity|lia].
    + destruct (N.eqb_spec k k2) as [->|Hne2].
      * cbn [db_get]. destruct (N.eqb_spec k' k2); [reflexivity|]. reflexivity.
      * cbn [db_get]. rewrite IH by exact Hok.
        destruct (N.eqb_spec k' k2) as [->|Hn3].
        { destruct (N.eqb_spec k2 k); [lia|reflexivity]. }
        destruct (N.ltb_spec k' k2) as [Hl3|Hg3]; [|reflexivity].
        destruct (N.eqb_spec k' k); [lia|reflexivity].
Qed.

Lemma get_del : forall d k k', db_ok d ->
  db_get (db_del k d) k' = if N.eqb k' k then None else db_get d k'.
Proof.
  induction d as [|[k2 e2] t IH]; intros k k' Hok; cbn [db_del db_get].
  - destruct (N.eqb k' k); reflexivity.
  - destruct Hok as [Ha Hok].
    destruct (N.eqb_spec k k2) as [->|Hne].
    + destruct (N.eqb_spec k' k2) as [->|Hn2].
      * apply (get_above t k2 k2 Hok Ha); lia.
      * destruct (N.ltb_spec k' k2) as [Hl|Hg]; [|reflexivity].
        apply (get_above t k2 k' Hok Ha); lia.
    + destruct (N.ltb_spec k k2) as [Hlt|Hge].
      * cbn [db_get]. destruct (N.eqb_spec k' k) as [->|Hn3]; [|reflexivity].
        destruct (N.eqb_spec k k2); [lia|]. destruct (N.ltb_spec k k2); [reflexivity|lia].
      * cbn [db_get]. rewrite IH by exact Hok.
        destruct (N.eqb_spec k' k2) as [->|Hn3].
        { destruct (N.eqb_spec k2 k); [lia|reflexivity]. }
        destruct (N.ltb_spec k' k2) as [Hl3|Hg3]; [|reflexivity].
        destruct (N.eqb_spec k' k); [lia|reflexivity].
Qed.

Lemma put_above : forall d k0 k e, above k0 d -> k0 < k -> above k0 (db_put k e d).
Proof.
  intros [|[k2 e2] t] k0 k e Ha Hlt; cbn [db_put above] in *; [exact Hlt|].
  destruct (N.ltb k k2); [exact Hlt|]. destruct (N.eqb k k2); [exact Hlt|exact Ha].
Qed.

Lemma put_ok : forall d k e, db_ok d -> db_ok (db_put k e d).
Proof.
  induction d as [|[k2 e2] t IH]; intros k e Hok; cbn [db_put].
  - cbn; auto.
  - destruct Hok as [Ha Hok].
    destruct (N.ltb_spec k k2) as [Hlt|Hge].
    + cbn [db_ok above]. repeat split; assumption.
    + destruct (N.eqb_spec k k2) as [->|Hne].
      * cbn [db_ok]. split; assumption.
      * cbn [db_ok]. split; [apply put_above; [exact Ha|lia]|apply IH; exact Hok].
Qed.

Lemma del_above : forall d k0 k, db_ok d -> above k0 d -> above k0 (db_del k d).
Proof.
  intros [|[k2 e2] t] k0 k Hok Ha; cbn [db_del above] in *; [exact I|].
  destruct Hok as [Ha2 Hok].
  destruct (N.eqb k k2).
  - apply (above_trans k0 k2); [lia|exact Ha2].
  - destruct (N.ltb k k2); cbn [above]; exact Ha.
Qed.

Lemma del_ok : forall d k, db_ok d -> db_ok (db_del k d).
Proof.
  induction d as [|[k2 e2] t IH]; intros k Hok; cbn [db_del]; [exact I|].
  destruct Hok as [Ha Hok].
  destruct (N.eqb k k2); [exact Hok|].
  destruct (N.ltb k k2); cbn [db_ok]; [split; assumption|].
  split; [apply del_above; assumption|apply IH; exact Hok].
Qed.

Lemma occ_put : forall d k e x, db_ok d ->
  occ (content (db_put k e d)) x = (occ (content d) x + ind (Some e) x - ind (db_get d k) x)%Z.
Proof.
  induction d as [|[k2 e2] t IH]; intros k e x Hok; cbn [db_put db_get content map occ ind snd].
  - lia.
  - destruct Hok as [Ha Hok].
    destruct (N.ltb_spec k k2) as [Hlt|Hge].
    + destruct (N.eqb_spec k k2); [lia|]. cbn [content map occ snd ind]. lia.
    + destruct (N.eqb_spec k k2) as [->|Hne].
      * cbn [content map occ snd ind]. fold (content t). lia.
      * cbn [content map occ snd]. fold (content t) (content (db_put k e t)).
        rewrite IH by exact Hok. cbn [ind]. lia.
Qed.

Lemma occ_del : forall d k x, db_ok d ->
  occ (content (db_del k d)) x = (occ (content d) x - ind (db_get d k) x)%Z.
Proof.
  induction d as [|[k2 e2] t IH]; intros k x Hok; cbn [db_del db_get content map occ ind snd].
  - lia.
  - destruct Hok as [Ha Hok].
    destruct (N.eqb_spec k k2) as [->|Hne].
    + fold (content t). cbn [ind]. lia.
    + destruct (N.ltb_spec k k2) as [Hlt|Hge].
      * cbn [content map occ snd ind]. lia.
      * cbn [content map occ snd]. fold (content t) (content (db_del k t)).
        rewrite IH by exact Hok. lia.
Qed.

Lemma len_put : forall d k e, db_ok d ->
  (length (db_put k e d) + isS (db_get d k) = length d + 1)%nat.
Proof.
  induction d as [|[k2 e2] t IH]; intros k e Hok; cbn [db_put db_get length isS].
  - lia.
  - destruct Hok as [Ha Hok].
    destruct (N.ltb_spec k k2) as [Hlt|Hge].
    + destruct (N.eqb_spec k k2); [lia|]. cbn [length isS]. lia.
    + destruct (N.eqb_spec k k2) as [->|Hne]; cbn [length isS]; [lia|].
      specialize (IH k e Hok). lia.
Qed.

Lemma len_del : forall d k, db_ok d ->
  (length (db_del k d) + isS (db_get d k) = length d)%nat.
Proof.
  induction d as [|[k2 e2] t IH]; intros k Hok; cbn [db_del db_get length isS].
  - lia.
  - destruct Hok as [Ha Hok].
    destruct (N.eqb_spec k k2) as [->|Hne]; cbn [isS]; [lia|].
    destruct (N.ltb_spec k k2) as [Hlt|Hge]; cbn [length isS]; [lia|].
    specialize (IH k Hok). lia.
Qed.

(* extensionality: a sorted content list is determined by its lookups *)
Lemma db_ext : forall d d', db_ok d -> db_ok d' -> (forall k, db_get d k = db_get d' k) -> d = d'.
Proof.
  induction d as [|[k e] t IH]; intros [|[k' e'] t'] Hok Hok' Hg.
  - reflexivity.
  - specialize (Hg k'). cbn [db_get] in Hg. rewrite N.eqb_refl in Hg. discriminate.
  - specialize (Hg k). cbn [db_get] in Hg. rewrite N.eqb_refl in Hg. discriminate.
  - destruct Hok as [Ha Hok], Hok' as [Ha' Hok'].
    assert (Hk : k = k').
    { pose proof (Hg k) as H1. pose proof (Hg k') as H2. cbn [db_get] in H1, H2.
      rewrite N.eqb_refl in H1, H2.
      destruct (N.eqb_spec k k') as [->|Hne]; [reflexivity|].
      destruct (N.eqb_spec k' k); [lia|].
      destruct (N.ltb_spec k k'); [discriminate|].
      destruct (N.ltb_spec k' k); [discriminate|lia]. }
    subst k'.
    assert (He : e = e').
    { specialize (Hg k). cbn [db_get] in Hg. rewrite N.eqb_refl in Hg. congruence. }
    subst e'. f_equal. apply IH; try assumption.
    intros k2. specialize (Hg k2). cbn [db_get] in Hg.
    destruct (N.eqb_spec k2 k) as [E|Hne].
    + rewrite E, (get_above t k k Hok Ha), (get_above t' k k Hok' Ha'); [reflexivity|lia|lia].
    + destruct (N.ltb_spec k2 k) as [Hl|Hg2]; [|exact Hg].
      rewrite (get_above t k k2 Hok Ha), (get_above t' k k2 Hok' Ha'); [reflexivity|lia|lia].
Qed.

Lemma del_comm : forall d k1 k2, db_ok d -> db_del k1 (db_del k2 d) = db_del k2 (db_del k1 d).
Proof.
  intros d k1 k2 Hok. apply db_ext; [apply del_ok, del_ok, Hok|apply del_ok, del_ok, Hok|].
  intros k. rewrite !get_del by (try apply del_ok; exact Hok).
  destruct (N.eqb k k1), (N.eqb k k2); reflexivity.
Qed.

(* ---------- the transaction loop ---------- *)
Fixpoint creates_fresh (d : db) (ops : list op) : Prop :=
  match ops with
  | [] => True
  | o :: t =>
      match o with Create k _ => db_get d k = None | _ => True end
      /\ creates_fresh (fst (fst (eff d o))) t
  end.

Lemma eff_spec : forall d o, db_ok d ->
  match o with Create k _ => db_get d k = None | _ => True end ->
  let '(d1, cr, de) := eff d o in
  db_ok d1 /\ (forall x, occ (content d1) x = (occ (content d) x + occ cr x - occ de x)%Z)
  /\ (length d1 + length de = length d + length cr)%nat.
Proof.
  intros d [k e|k e|k] Hok Hf; cbn [eff].
  - split; [apply put_ok, Hok|]. split.
    + intros x. rewrite occ_put by exact Hok. rewrite Hf. cbn [occ ind]. lia.
    + pose proof (len_put d k e Hok) as L. rewrite Hf in L. cbn [isS length] in *. lia.
  - destruct (db_get d k) as [old|] eqn:G.
    + split; [apply put_ok, Hok|]. split.
      * intros x. rewrite occ_put by exact Hok. rewrite G. cbn [occ ind]. lia.
      * pose proof (len_put d k e Hok) as L. rewrite G in L. cbn [isS length] in *. lia.
    + split; [apply put_ok, Hok|]. split.
      * intros x. rewrite occ_put by exact Hok. rewrite G. cbn [occ ind]. lia.
      * pose proof (len_put d k e Hok) as L. rewrite G in L. cbn [isS length] in *. lia.
  - destruct (db_get d k) as [old|] eqn:G.
    + split; [apply del_ok, Hok|]. split.
      * intros x. rewrite occ_del by exact Hok. rewrite G. cbn [occ ind]. lia.
      * pose proof (len_del d k Hok) as L. rewrite G in L. cbn [isS length] in *. lia.
    + split; [exact Hok|]. split; [intros x; cbn [occ]; lia|cbn [length]; lia].
Qed.

Lemma run_ops_spec : forall ops d, db_ok d -> creates_fresh d ops ->
  let '(d1, cr, de) := run_ops d ops in
  db_ok d1 /\ (forall x, occ (content d1) x = (occ (content d) x + occ cr x - occ de x)%Z)
  /\ (length d1 + length de = length d + length cr)%nat.
Proof.
  induction ops as [|o t IH]; intros d Hok Hf; cbn [run_ops].
  - split; [exact Hok|]. split; [intros x; cbn [occ]; lia|cbn [length]; lia].
  - destruct Hf as [Hf1 Hf2].
    pose proof (eff_spec d o Hok Hf1) as E.
    destruct (eff d o) as [[d1 c1] x1] eqn:EE. cbn [fst] in Hf2.
    destruct E as [Hok1 [Hocc1 Hlen1]].
    specialize (IH d1 Hok1 Hf2).
    destruct (run_ops d1 t) as [[d2 c2] x2].
    destruct IH as [Hok2 [Hocc2 Hlen2]].
    split; [exact Hok2|]. split.
    + intros x. rewrite Hocc2, Hocc1, !occ_app. lia.
    + rewrite !app_length. lia.
Qed.

(* ---------- trimming: deleting a list of (key, element) pairs ---------- *)
Definition dels (tr : list (key * elem)) (d : db) : db :=
  fold_left (fun d kv => db_del (fst kv) d) tr d.

Definition is_some (o : option elem) : bool := match o with Some _ => true | None => false end.
(* entries of tr still live in d / no longer live in d *)
Definition present (d : db) (tr : list (key * elem)) : list (key * elem) :=
  filter (fun kv => is_some (db_get d (fst kv))) tr.
Definition gone (d : db) (tr : list (key * elem)) : list (key * elem) :=
  filter (fun kv => negb (is_some (db_get d (fst kv)))) tr.

Lemma dels_ok : forall tr d, db_ok d -> db_ok (dels tr d).
Proof.
  induction tr as [|kv t IH]; intros d Hok; cbn [dels fold_left]; [exact Hok|].
  apply IH, del_ok, Hok.
Qed.

Lemma filter_ext_in' : forall (A : Type) (f g : A -> bool) l,
  (forall x, In x l -> f x = g x) -> filter f l = filter g l.
Proof.
  induction l as [|x t IH]; intros Hfg; cbn [filter]; [reflexivity|].
  rewrite Hfg by (left; reflexivity). rewrite IH; [reflexivity|].
  intros y Hy; apply Hfg; right; exact Hy.
Qed.

Lemma present_cons : forall d kv t,
  present d (kv :: t) = if is_some (db_get d (fst kv)) then kv :: present d t else present d t.
Proof. reflexivity. Qed.

Lemma dels_spec : forall tr d, db_ok d -> NoDup (map fst tr) ->
  (forall kv, In kv tr -> db_get d (fst kv) = Some (snd kv) \/ db_get d (fst kv) = None) ->
  (forall x, occ (content (dels tr d)) x = (occ (content d) x - occ (map snd (present d tr)) x)%Z)
  /\ (length (dels tr d) + length (present d tr) = length d)%nat.
Proof.
  induction tr as [|[k e] t IH]; intros d Hok Hnd Hst; cbn [dels fold_left].
  - cbn [present filter map occ length]. split; [intros x; lia|lia].
  - cbn [map fst] in Hnd. inversion Hnd as [|? ? Hnin Hnd']; subst.
    assert (Hok' : db_ok (db_del k d)) by (apply del_ok, Hok).
    assert (Hrest : forall kv, In kv t -> db_get (db_del k d) (fst kv) = db_get d (fst kv)).
    { intros kv Hi. rewrite get_del by exact Hok.
      destruct (N.eqb_spec (fst kv) k) as [E|]; [|reflexivity].
      exfalso; apply Hnin. rewrite <- E. apply in_map, Hi. }
    specialize (IH (db_del k d) Hok' Hnd').
    destruct IH as [IHo IHl].
    { intros kv Hi. rewrite Hrest by exact Hi. apply Hst; right; exact Hi. }
    assert (Hp : present (db_del k d) t = present d t).
    { unfold present. apply filter_ext_in'. intros kv Hi. rewrite Hrest by exact Hi. reflexivity. }
    rewrite Hp in IHo, IHl. fold (dels t (db_del k d)).
    rewrite present_cons. cbn [fst]. unfold dels in *.
    destruct (Hst (k, e) (or_introl eq_refl)) as [G|G]; cbn [fst snd] in G; rewrite G; cbn [is_some].
    + split.
      * intros x. rewrite IHo, occ_del by exact Hok. rewrite G. cbn [map snd occ ind]. destruct (N.eqb e x); lia.
      * pose proof (len_del d k Hok) as L. rewrite G in L. cbn [isS length] in *. lia.
    + split.
      * intros x. rewrite IHo, occ_del by exact Hok. rewrite G. cbn [ind]. lia.
      * pose proof (len_del d k Hok) as L. rewrite G in L. cbn [isS] in L. lia.
Qed.

Lemma present_gone_perm : forall d tr, Permutation tr (present d tr ++ gone d tr).
Proof.
  intros d; induction tr as [|kv t IH]; cbn [present gone filter]; [constructor|].
  fold (present d t) (gone d t).
  destruct (is_some (db_get d (fst kv))); cbn [negb app].
  - apply perm_skip, IH.
  - apply Permutation_cons_app, IH.
Qed.

Lemma occ_present_gone : forall d tr x,
  occ (map snd tr) x = (occ (map snd (present d tr)) x + occ (map snd (gone d tr)) x)%Z.
Proof.
  intros d tr x. rewrite <- occ_app, <- map_app.
  apply occ_perm, Permutation_map, present_gone_perm.
Qed.

Lemma len_present_gone : forall d tr, (length tr = length (present d tr) + length (gone d tr))%nat.
Proof.
  intros d tr. rewrite <- app_length. apply Permutation_length, present_gone_perm.
Qed.

(* deleting in any order (goroutine completion order) gives the same content *)
Lemma dels_perm : forall tr tr', Permutation tr tr' -> forall d, db_ok d -> dels tr d = dels tr' d.
Proof.
  intros tr tr' P; induction P; intros d Hok; cbn [dels fold_left].
  - reflexivity.
  - apply IHP, del_ok, Hok.
  - fold (dels l (db_del (fst x) (db_del (fst y) d))) (dels l (db_del (fst y) (db_del (fst x) d))).
    rewrite del_comm by exact Hok. reflexivity.
  - rewrite IHP1 by exact Hok. apply IHP2, Hok.
Qed.

(* ---------- the trimmed list ---------- *)
Definition trim_f (view : db) (c : cand) : list (key * elem) :=
  if snd c then match db_get view (fst c) with Some e => [(fst c, e)] | None => [] end else [].
Definition trim_g (view : db) (c : cand) : bool := snd c && is_some (db_get view (fst c)).

Lemma trim_one_eq : forall view cs, trim_one view cs = flat_map (trim_f view) cs.
Proof. reflexivity. Qed.

Lemma flat_map_concat' : forall (A B : Type) (f : A -> list B) (ls : list (list A)),
  flat_map (flat_map f) ls = flat_map f (concat ls).
Proof.
  induction ls as [|l t IH]; cbn [flat_map concat]; [reflexivity|].
  rewrite IH, flat_map_app. reflexivity.
Qed.

Lemma trimmed_keys : forall view l,
  map fst (flat_map (trim_f view) l) = map fst (filter (trim_g view) l).
Proof.
  induction l as [|c t IH]; cbn [flat_map filter map]; [reflexivity|].
  rewrite map_app, IH. unfold trim_f, trim_g.
  destruct (snd c); cbn [andb]; [|reflexivity].
  destruct (db_get view (fst c)); cbn [is_some map fst app]; reflexivity.
Qed.

Lemma NoDup_map_filter : forall (A B : Type) (f : A -> B) (g : A -> bool) l,
  NoDup (map f l) -> NoDup (map f (filter g l)).
Proof.
  induction l as [|x t IH]; intros Hnd; cbn [filter map] in *; [constructor|].
  inversion Hnd as [|? ? Hnin Hnd']; subst.
  destruct (g x); cbn [map]; [|apply IH, Hnd'].
  constructor; [|apply IH, Hnd'].
  intro Hi. apply Hnin. apply in_map_iff in Hi. destruct Hi as [y [Hy Hin]].
  apply filter_In in Hin. rewrite <- Hy. apply in_map, Hin.
Qed.

Lemma trimmed_nodup : forall view cands,
  NoDup (map fst (concat cands)) -> NoDup (map fst (flat_map (trim_one view) cands)).
Proof.
  intros view cands Hnd.
  assert (E : flat_map (trim_one view) cands = flat_map (trim_f view) (concat cands)).
  { apply (flat_map_concat' _ _ (trim_f view)). }
  rewrite E, trimmed_keys. apply NoDup_map_filter, Hnd.
Qed.

Lemma trimmed_in_view : forall view cands kv,
  In kv (flat_map (trim_one view) cands) -> db_get view (fst kv) = Some (snd kv).
Proof.
  intros view cands kv Hi. apply in_flat_map in Hi. destruct Hi as [cs [_ Hi]].
  rewrite trim_one_eq in Hi. apply in_flat_map in Hi. destruct Hi as [c [_ Hi]].
  unfold trim_f in Hi. destruct (snd c); [|destruct Hi].
  destruct (db_get view (fst c)) as [e|] eqn:G; [|destruct Hi].
  destruct Hi as [<-|[]]. cbn [fst snd]. exact G.
Qed.

(* C16 — Every address has one zone and one ledger, respected by all state.
   Property theorems only: each is closed by [exact <lemma>] and followed by
   [Print Assumptions].  Model: Model/C16.v  Lemmas: Proofs/C16.v, Proofs/C16_Sender.v, Proofs/C16_QiTx.v  Generated data: Generated/C16Sites.v
   [bytes_to_address] is the model of the CURRENT common.BytesToAddress (Model.C16.fix_applied = true: F10 is
   repaired in the tree; the *_refuted theorems speak about [bytes_to_address_gen false] explicitly). *)
From Coq Require Import List NArith Bool.
From GQ Require Import Lib.Key Model.C16 Generated.C16Sites Proofs.C16 Proofs.C16_Sender Proofs.C16_QiTx.
Import ListNotations.
Local Open Scope N_scope.

(* Every 20-byte string belongs to exactly one of the 16 x 16 zones (first byte = region<<4 | zone)
   and to exactly one ledger.  Finite part decided exhaustively: all 256 first bytes x all 256
   zone prefixes (BytePrefix injective, Location() its inverse). *)
Theorem zone_ledger_partition : forall a, wf20 a ->
  valid_zone (location_of a) /\ in_zone a (location_of a) = true
  /\ (forall l, valid_zone l -> in_zone a l = true -> l = location_of a)
  /\ ((is_qi a = true /\ is_quai a = false) \/ (is_qi a = false /\ is_quai a = true)).
Proof. exact zone_ledger_partition_lemma. Qed.
Print Assumptions zone_ledger_partition.

(* the ledger is the high bit of the second byte (all 256 byte values checked) *)
Theorem ledger_is_high_bit_of_second_byte : forall a, wf_bytes a ->
  is_qi a = N.testbit (second a) 7 /\ is_quai a = negb (is_qi a).
Proof. exact ledger_high_bit_lemma. Qed.
Print Assumptions ledger_is_high_bit_of_second_byte.

(* IsInChainScope on 20 bytes = "zone context and first byte = BytePrefix(location)":
   the zero-address clause adds nothing *)
Theorem in_scope_iff_prefix : forall b l, length b = 20%nat ->
  (in_chain_scope b l = true <-> (context l = ZONE_CTX /\ nth 0 b 0 = byte_prefix l)).
Proof. exact in_scope_iff_prefix_lemma. Qed.
Print Assumptions in_scope_iff_prefix.

Theorem non_zone_location_nothing_in_scope : forall b l,
  (context l =? ZONE_CTX) = false -> in_chain_scope b l = false.
Proof. exact non_zone_nothing_in_scope. Qed.
Print Assumptions non_zone_location_nothing_in_scope.

(* every constructor always yields exactly 20 bytes, whatever the input length *)
Theorem addresses_are_20_bytes : forall b l,
  length (res_bytes (bytes_to_address b l)) = 20%nat /\ bytes_to_address b l <> Err.
Proof. exact addresses_20_lemma. Qed.
Print Assumptions addresses_are_20_bytes.

(* For every node location, every location-taking constructor applied to an encoding of the same
   20 bytes (raw, [20]byte, 0x-hex, bare hex, proto Value, wire to/etx_sender, sql Scan, mixed-case
   string, last 20 bytes of a 32-byte digest = pubkey / CREATE / CREATE2 derivation) gives the same
   class, namely Internal iff the address is in the zone. *)
Theorem constructors_agree : forall a l (p : bytes), wf20 a -> length p = 12%nat ->
  let r := (if in_zone a l then Internal a else External a) in
  bytes_to_address a l = r /\ bytes20_to_address a l = r
  /\ hex_to_address (hex0x a) l = r /\ hex_to_address (hex_encode a) l = r
  /\ proto_decode (Some a) l = r /\ wire_to_address a l = r /\ scan a l = r
  /\ mixedcase_from_string (hex0x a) l = r /\ digest_to_address (p ++ a) l = r
  /\ hex_to_address_bytes (hex0x a) = a /\ res_bytes r = a.
Proof. exact constructors_agree_lemma. Qed.
Print Assumptions constructors_agree.

(* the whole classification table: 65536 (first, second byte) prefixes x 256 zone locations,
   plus prime and the region locations, any 18-byte tail *)
Theorem classification_table : forall b0 b1 (tail : bytes) r z,
  b0 < 256 -> b1 < 256 -> length tail = 18%nat -> r < 16 -> z < 16 ->
  let a := b0 :: b1 :: tail in
  (bytes_to_address a [r; z] = Internal a <-> b0 = r * 16 + z)
  /\ (bytes_to_address a [r; z] = External a <-> b0 <> r * 16 + z)
  /\ bytes_to_address a [] = External a /\ bytes_to_address a [r] = External a
  /\ (is_qi a = true <-> 128 <= b1) /\ (is_quai a = true <-> b1 < 128).
Proof. exact class_table_lemma. Qed.
Print Assumptions classification_table.

(* The decoders that take no location (RLP, text, JSON) classify against zone (0,0), whatever
   zone the node runs; MixedcaseAddress JSON against prime (always external).
   Full statement (refuted below): decode_rlp a = bytes_to_address a l for every node location l. *)
Theorem locationless_decoders_agree_partial : forall a, wf20 a ->
  let r := (if in_zone a [0; 0] then Internal a else External a) in
  decode_rlp a = r /\ unmarshal_text (hex0x a) = r /\ unmarshal_json (quote (hex0x a)) = r
  /\ mixedcase_unmarshal_json (quote (hex0x a)) = External a.
Proof. exact locationless_lemma. Qed.
Print Assumptions locationless_decoders_agree_partial.

Theorem locationless_decoders_agree_refuted :
  exists a l, wf20 a /\ valid_zone l /\
    bytes_to_address a l = Internal a /\ decode_rlp a = External a
    /\ unmarshal_text (hex0x a) = External a /\ unmarshal_json (quote (hex0x a)) = External a.
Proof. exact locationless_refuted_lemma. Qed.
Print Assumptions locationless_decoders_agree_refuted.

(* BigToAddress drops leading zero bytes before classifying: agrees unless the address starts with 00 *)
Theorem big_to_address_agrees_partial : forall a l, wf20 a -> nth 0 a 0 <> 0 ->
  big_to_address a l = (if in_zone a l then Internal a else External a).
Proof. exact big_to_address_agrees. Qed.
Print Assumptions big_to_address_agrees_partial.

(* Internal a  ==>  a is in the node's zone.
   Full statement: forall b l a, bytes_to_address b l = Internal a -> in_zone a l = true.
   REFUTED for the current code (finding F10): proved under the guard length b = 20. *)
Theorem internal_implies_in_zone_partial : forall b l a, length b = 20%nat ->
  (bytes_to_address b l = Internal a -> a = b /\ in_zone a l = true)
  /\ (bytes_to_address b l = External a -> a = b /\ in_zone a l = false).
Proof. exact internal_implies_in_zone_partial_lemma. Qed.
Print Assumptions internal_implies_in_zone_partial.

(* The three theorems below are about the UNREPAIRED BytesToAddress (bytes_to_address_gen false, the code before
   fix commit 0cf8b5d8): kept as the record of why finding F10 mattered. *)
Theorem internal_implies_in_zone_refuted :
  (exists b a, length b = 21%nat /\ bytes_to_address_gen false b [0; 0] = Internal a
               /\ in_zone a [0; 0] = false /\ in_zone a [1; 0] = true)
  /\ (exists b a, length b = 19%nat /\ bytes_to_address_gen false b [1; 0] = Internal a
               /\ in_zone a [1; 0] = false /\ in_zone a [0; 0] = true).
Proof. exact internal_implies_in_zone_refuted_lemma. Qed.
Print Assumptions internal_implies_in_zone_refuted.

Theorem in_zone_implies_internal_refuted :
  exists b a, length b = 21%nat /\ bytes_to_address_gen false b [0; 0] = External a /\ in_zone a [0; 0] = true.
Proof. exact in_zone_implies_internal_refuted_lemma. Qed.
Print Assumptions in_zone_implies_internal_refuted.

Theorem big_to_address_agrees_refuted :
  exists a, wf20 a /\ bytes_to_address_gen false (strip_zeros a) [0; 0] = External a /\ bytes_to_address_gen false a [0; 0] = Internal a.
Proof. exact big_to_address_refuted_lemma. Qed.
Print Assumptions big_to_address_agrees_refuted.


(* The repaired constructor (design/C16.fix.diff: classify the 20 stored bytes) satisfies the full
   statement for inputs of EVERY length. *)
Theorem internal_iff_in_zone_after_fix : forall b l,
  bytes_to_address_gen true b l = (if in_zone (to20 b) l then Internal (to20 b) else External (to20 b)).
Proof. exact bta_fixed_spec. Qed.
Print Assumptions internal_iff_in_zone_after_fix.

(* ... and the model of the running code inherits it as soon as the switch is flipped
   (vacuous today; instantiate the premise with eq_refl after the fix) *)
Theorem internal_implies_in_zone_full_when_fixed : fix_applied = true -> forall b l a,
  (bytes_to_address b l = Internal a -> a = to20 b /\ in_zone a l = true)
  /\ (bytes_to_address b l = External a -> a = to20 b /\ in_zone a l = false).
Proof. exact internal_in_zone_when_fixed. Qed.
Print Assumptions internal_implies_in_zone_full_when_fixed.

(* Scope / ledger predicates agree with the class of the constructors *)
Theorem predicates_agree_with_class : forall a l, wf20 a -> valid_zone l ->
  (check_internal_qi a l = true <-> (exists x, bytes_to_address a l = Internal x) /\ is_qi a = true)
  /\ (is_conversion_output a l = true <-> (exists x, bytes_to_address a l = Internal x) /\ is_quai a = true)
  /\ (contains_address l a = true <-> exists x, bytes_to_address a l = Internal x)
  /\ (create_object_guard a l = true <-> (exists x, bytes_to_address a l = Internal x) /\ is_quai a = true).
Proof. exact predicates_agree_lemma. Qed.
Print Assumptions predicates_agree_with_class.

(* InternalAndQuaiAddress / InternalAndQiAddress: sound, and never both *)
Theorem internal_and_ledger_sound_exclusive : forall r a,
  (internal_and_quai r = Some a <-> (r = Internal a /\ is_quai a = true))
  /\ (internal_and_qi r = Some a <-> (r = Internal a /\ is_qi a = true))
  /\ (forall x y, internal_and_quai r = Some x -> internal_and_qi r = Some y -> False).
Proof. exact internal_and_ledger_lemma. Qed.
Print Assumptions internal_and_ledger_sound_exclusive.

(* Contract creation (EVM.Create: CreateAddress, then GrindContract with at most
   MaxAddressGrindAttempts / PreviousMaxAddressGrindAttempts salts): whatever the hash function
   (H, d0 abstract 32-byte digests), the result is an in-zone Quai-ledger 20-byte address with
   no more gas than before, or an error. *)
Theorem create_address_in_zone_or_fails : forall (H : N -> bytes) (d0 : bytes) l block_number gas cost,
  length d0 = 32%nat -> (forall i, length (H i) = 32%nat) ->
  let attempts := grind_attempts C16Sites.previous_max_address_grind_attempts
                    C16Sites.max_address_grind_attempts C16Sites.max_grind_increase_fork_block block_number in
  attempts <= C16Sites.max_address_grind_attempts /\
  match create_select d0 H l attempts gas cost with
  | GOk a g => length a = 20%nat /\ in_zone a l = true /\ is_quai a = true /\ g <= gas
  | GErr => True
  end.
Proof. exact create_address_lemma. Qed.
Print Assumptions create_address_in_zone_or_fails.

(* GrindContract returns the FIRST successful attempt, charges cost per attempt, and fails only
   when no attempt within the bound succeeds before the gas runs out *)
Theorem grind_first_success_or_exhausted : forall (H : N -> bytes) l attempts gas cost,
  (forall i, length (H i) = 32%nat) ->
  match grind H l attempts gas cost with
  | GOk a g =>
      length a = 20%nat /\ in_zone a l = true /\ is_quai a = true /\ g <= gas
      /\ exists k, k < attempts /\ a = skipn 12 (H k) /\ g + (k + 1) * cost = gas
                   /\ forall j, j < k -> attempt H l j = None
  | GErr =>
      (forall j, j < attempts -> attempt H l j = None)
      \/ (exists k, k < attempts /\ gas < (k + 1) * cost /\ forall j, j < k -> attempt H l j = None)
  end.
Proof. exact grind_lemma. Qed.
Print Assumptions grind_first_success_or_exhausted.

(* CREATE2: no grinding; an address outside the zone or in the Qi ledger is refused *)
Theorem create2_in_zone_or_fails : forall d l a, length d = 32%nat -> create2_select d l = Some a ->
  length a = 20%nat /\ in_zone a l = true /\ is_quai a = true.
Proof. exact create2_select_sound. Qed.
Print Assumptions create2_in_zone_or_fails.

(* StateDB.createObject creates an account only for an in-zone Quai-ledger address; in particular
   an address misclassified as internal by BytesToAddress (F10) is still refused by the state *)
Theorem state_accounts_in_zone_quai : forall a l, length a = 20%nat -> create_object_guard a l = true ->
  in_zone a l = true /\ is_quai a = true /\ is_qi a = false.
Proof. exact guard_sound. Qed.
Print Assumptions state_accounts_in_zone_quai.

Theorem misclassified_internal_refused_by_state : forall b l a,
  bytes_to_address b l = Internal a -> in_zone a l = false -> create_object_guard a l = false.
Proof. exact (guard_refuses_misclassified fix_applied). Qed.
Print Assumptions misclassified_internal_refused_by_state.

(* ProcessQiTx creates a UTXO only when the 20 bytes BytesToAddress would store are an in-zone
   Qi-ledger address ...                                                                   *)
Theorem qi_utxo_only_for_in_zone_qi_partial : forall addr datalen l, wf_bytes addr -> valid_zone l ->
  qi_output addr datalen l = QUtxo ->
  in_zone (to20 addr) l = true /\ is_qi (to20 addr) = true /\ is_quai (to20 addr) = false
  /\ (length addr = 20%nat -> to20 addr = addr).
Proof. exact qi_utxo_partial_lemma. Qed.
Print Assumptions qi_utxo_only_for_in_zone_qi_partial.

(* ... but the UTXO stores the RAW output bytes: a 21-byte owner is accepted, and the 20-byte
   address its consumers read from it (common.AddressBytes(utxo.Address) = first 20 bytes) is a
   Quai-ledger address of another zone.  Full statement: the stored owner IS an in-zone Qi address. *)
Theorem qi_utxo_owner_is_in_zone_qi_address_refuted :
  exists addr, qi_output addr 0 [0; 0] = QUtxo /\ length addr = 21%nat
    /\ in_zone (firstn 20 addr) [0; 0] = false /\ is_qi (firstn 20 addr) = false.
Proof. exact qi_utxo_owner_refuted_lemma. Qed.
Print Assumptions qi_utxo_owner_is_in_zone_qi_address_refuted.

(* ---- a WHOLE Qi transaction through ProcessQiTx (extension round): [qi_process l owners outs data ptn]
   = the three data guards, the output loop with the shared `addresses` set (seeded with the owners of
   the spent inputs) and the conversion / wrapping flags, the fork params.QiWrappingChangeBlock, the
   kQuai hold intervals and the aggregated ETX.  For every output list, data, zone, prime terminus. *)

(* From the fork on, every UTXO an accepted transaction creates is one of its outputs and the 20 bytes
   it is classified by are an in-zone Qi-ledger address. *)
Theorem qi_tx_utxos_only_for_in_zone_qi_after_fork : forall l owners outs data ptn evs idx owner,
  valid_zone l -> Forall wf_bytes outs ->
  C16Sites.qi_wrapping_change_block <= ptn ->
  qi_process l owners outs data ptn = Some evs -> In (EvUtxo idx owner) evs ->
  In owner outs /\ in_zone (to20 owner) l = true /\ is_qi (to20 owner) = true /\ is_quai (to20 owner) = false.
Proof. exact qi_process_utxo_after_fork. Qed.
Print Assumptions qi_tx_utxos_only_for_in_zone_qi_after_fork.

(* Full statement (no fork premise) is FALSE for the code: before params.QiWrappingChangeBlock the
   wrapping branch falls through to the local-UTXO part, and a UTXO owned by an in-zone QUAI-ledger
   address is written (witness replayed on the real ProcessQiTx by the harness corpus). *)
Theorem qi_tx_utxo_for_quai_address_before_fork_refuted :
  exists l owners outs data ptn evs owner,
    valid_zone l /\ Forall wf_bytes outs /\ qi_process l owners outs data ptn = Some evs
    /\ In (EvUtxo 0 owner) evs /\ List.length owner = 20%nat /\ is_qi owner = false /\ is_quai owner = true.
Proof. exact qi_wrap_before_fork_refuted_lemma. Qed.
Print Assumptions qi_tx_utxo_for_quai_address_before_fork_refuted.

(* The strongest statement true in every fork regime: a UTXO owner is always in the zone, and it is a
   Quai-ledger address only through the wrapping branch (20 data bytes) before the fork. *)
Theorem qi_tx_utxos_in_zone_partial : forall l owners outs data ptn evs idx owner,
  valid_zone l -> Forall wf_bytes outs ->
  qi_process l owners outs data ptn = Some evs -> In (EvUtxo idx owner) evs ->
  In owner outs /\ in_zone (to20 owner) l = true
  /\ (is_qi (to20 owner) = true
      \/ (ptn < C16Sites.qi_wrapping_change_block /\ List.length data = 20%nat /\ is_quai (to20 owner) = true)).
Proof. exact qi_process_utxo_any_fork. Qed.
Print Assumptions qi_tx_utxos_in_zone_partial.

(* Every ETX of an accepted transaction: an ordinary one (type 0) goes to a 20-byte FOREIGN-zone Qi
   address held as an external object; the aggregated conversion / wrapping ETX goes to a 20-byte
   IN-zone Quai address held as an internal object. *)
Theorem qi_tx_etx_targets : forall l owners outs data ptn evs ty idx cls to,
  valid_zone l -> Forall wf_bytes outs ->
  qi_process l owners outs data ptn = Some evs -> In (EvEtx ty idx cls to) evs ->
  List.length to = 20%nat
  /\ (ty = 0 -> in_zone to l = false /\ is_qi to = true /\ is_quai to = false /\ cls = 1)
  /\ (ty <> 0 -> in_zone to l = true /\ is_quai to = true /\ is_qi to = false /\ cls = 0).
Proof. exact qi_process_etx. Qed.
Print Assumptions qi_tx_etx_targets.

(* A Quai-ledger output that is not an in-zone conversion / wrapping output makes the WHOLE transaction
   fail, wherever it stands in the output list and whatever the other outputs, owners and fork are. *)
Theorem qi_tx_rejects_quai_output_anywhere : forall l owners outs data ptn addr,
  valid_zone l -> In addr outs -> wf_bytes addr -> is_quai (to20 addr) = true ->
  (in_zone (to20 addr) l = false \/ (List.length data <> 20%nat /\ List.length data <> 22%nat)) ->
  qi_process l owners outs data ptn = None.
Proof. exact qi_process_rejects_quai_output. Qed.
Print Assumptions qi_tx_rejects_quai_output_anywhere.

(* The one-output transaction agrees with the classification [qi_output] of the earlier theorems for
   every data length (the 20 / 22 branches are now tied to the code through IQiTx cases). *)
Theorem qi_tx_single_output_agrees_with_classification : forall l owners addr data ptn,
  (qi_output addr (N.of_nat (List.length data)) l = QReject -> qi_process l owners [addr] data ptn = None)
  /\ (forall evs, qi_process l owners [addr] data ptn = Some evs ->
      match qi_output addr (N.of_nat (List.length data)) l with
      | QUtxo => evs = [EvUtxo 0 addr]
      | QEtx => evs = [EvEtx 0 0 (class_of addr l) (to20 addr)]
      | QConvert => evs = [EvEtx 1 0 (class_of (to20 addr) l) (to20 addr)]
      | QWrap => if wrap_skips ptn then evs = [EvEtx 2 0 (class_of (to20 addr) l) (to20 addr)]
                 else evs = [EvUtxo 0 addr; EvEtx 2 0 (class_of (to20 addr) l) (to20 addr)]
      | QReject => False
      end).
Proof.
  intros l owners addr data ptn. split.
  - exact (qi_process_single_reject l owners addr data ptn).
  - exact (qi_process_single_accept l owners addr data ptn).
Qed.
Print Assumptions qi_tx_single_output_agrees_with_classification.

(* ---- addresses handed out from stored / cached bytes: the sender cache of a transaction ----
   [run_ops t st_init ops] = any history of Sender / SignerV1.Sender / From / SetFrom / Hash /
   AsMessage / FromChain calls on one *Transaction object, by signers of any chain id and location. *)

(* After ANY history, types.Sender(signer, tx) on a signed transaction fails or returns the class
   of 20 bytes AT THE LOCATION OF THE SIGNER THAT ASKS (warm or cold cache, whoever filled it). *)
Theorem sender_class_follows_asking_location : forall t ops c l, tk t = TQuai -> tx_wf t ->
  let r := fst (sender_step t (snd (run_ops t st_init ops)) c l) in
  r = Err \/ exists a, List.length a = 20%nat /\ r = (if in_zone a l then Internal a else External a).
Proof. exact sender_after_history_class. Qed.
Print Assumptions sender_class_follows_asking_location.

(* the same for tx.From(nodeLocation), for every transaction type *)
Theorem cached_from_class_follows_asking_location : forall t ops l, tx_wf t ->
  let x := fst (sop_step t (snd (run_ops t st_init ops)) (SFrom l)) in
  x = SNil \/ exists a, List.length a = 20%nat /\
                 x = sobs_of_res (if in_zone a l then Internal a else External a).
Proof. exact from_after_history_class. Qed.
Print Assumptions cached_from_class_follows_asking_location.

(* Without SetFrom the cache is transparent: after any history the (possibly cached) answer of
   types.Sender IS the answer of a fresh signature recovery by the asking signer. *)
Theorem warm_sender_equals_cold_sender : forall t ops c l, tk t = TQuai -> tx_wf t ->
  existsb is_setfrom ops = false ->
  fst (sender_step t (snd (run_ops t st_init ops)) c l) = signer_sender t c l.
Proof. exact warm_equals_cold. Qed.
Print Assumptions warm_sender_equals_cold_sender.

(* No answer depends on who filled the cache: two histories that differ only in the LOCATIONS of
   their signers (same call kinds, chain ids, SetFrom bytes) are indistinguishable by every later
   query (Sender, SignerV1.Sender, From, AsMessage, FromChain at any location). *)
Theorem sender_answers_independent_of_cache_filler : forall t ops ops' q, tx_wf t ->
  Forall2 sop_sim ops ops' ->
  fst (sop_step t (snd (run_ops t st_init ops)) q) = fst (sop_step t (snd (run_ops t st_init ops')) q).
Proof. exact answers_independent_of_fillers. Qed.
Print Assumptions sender_answers_independent_of_cache_filler.

(* Obligations on data generated from the source tree (a source edit breaks these) *)
Theorem generated_constants_as_modelled : constants_as_modelled = true.
Proof. exact constants_ok. Qed.
Print Assumptions generated_constants_as_modelled.

Theorem ledger_predicate_copies_identical : ledger_predicates_as_modelled = true.
Proof. exact ledger_predicates_ok. Qed.
Print Assumptions ledger_predicate_copies_identical.

(* the BytesToAddress call sites whose argument is not 20 bytes by syntax are exactly the reviewed ones *)
Theorem bytes_to_address_sites_reviewed : inventory_as_reviewed = true.
Proof. exact inventory_ok. Qed.
Print Assumptions bytes_to_address_sites_reviewed.

(* non-vacuity *)
Example partition_nonvacuous :
  wf20 zone10_address /\ location_of zone10_address = [1; 0] /\ is_quai zone10_address = true
  /\ bytes_to_address zone10_address [1; 0] = Internal zone10_address
  /\ bytes_to_address zone10_address [0; 0] = External zone10_address.
Proof. split; [exact zone10_wf20|]. vm_compute. auto. Qed.

Example constructors_nonvacuous :
  hex_to_address (hex0x zone10_address) [1; 0] = Internal zone10_address
  /\ digest_to_address (repeat 9 12 ++ zone10_address) [1; 0] = Internal zone10_address
  /\ unmarshal_json (quote (hex0x zone10_address)) = External zone10_address
  /\ unmarshal_json [] = Internal (repeat 0 20).
Proof. vm_compute. auto. Qed.

(* grinding: attempts 0,1 fail (foreign zone; Qi ledger), attempt 2 succeeds, 3 x cost charged *)
Example grind_nonvacuous :
  grind (digest_fun [(5, 0); (16, 200)] (repeat 9 12 ++ zone10_address)) [1; 0] 1000 100 30
  = GOk zone10_address 10
  /\ grind (digest_fun [(5, 0); (16, 200)] (repeat 9 12 ++ zone10_address)) [1; 0] 2 100 30 = GErr
  /\ grind (digest_fun [(5, 0); (16, 200)] (repeat 9 12 ++ zone10_address)) [1; 0] 1000 80 30 = GErr.
Proof. vm_compute. auto. Qed.

Example guard_nonvacuous :
  create_object_guard zone10_address [1; 0] = true /\ create_object_guard zone10_address [0; 0] = false
  /\ create_object_guard (16 :: 200 :: repeat 7 18) [1; 0] = false.
Proof. vm_compute. auto. Qed.

Example qi_output_nonvacuous :
  qi_output (16 :: 200 :: repeat 7 18) 0 [1; 0] = QUtxo /\ qi_output (16 :: 200 :: repeat 7 18) 0 [0; 0] = QEtx
  /\ qi_output zone10_address 0 [1; 0] = QReject /\ qi_output zone10_address 22 [1; 0] = QConvert
  /\ qi_output zone10_address 20 [1; 0] = QWrap.
Proof. vm_compute. auto. Qed.

(* an accepted five-output conversion at zone (1,2) after the fork: UTXO, two converted outputs to the
   same address (aggregated), a cross-zone ETX, then the aggregate ETX; the same outputs with a second,
   different conversion address, or inside a kQuai hold interval, are rejected *)
Example qi_tx_nonvacuous :
  let q := 18 :: 5 :: repeat 7 18 in
  let u := 18 :: 200 :: repeat 1 18 in
  let f := 33 :: 200 :: repeat 2 18 in
  let d := 0 :: 5 :: 18 :: 200 :: repeat 4 18 in
  qi_process [1; 2] [] [u; q; f; q] d 1570000
    = Some [EvUtxo 0 u; EvEtx 0 2 1 f; EvEtx 1 0 0 q]
  /\ qi_process [1; 2] [] [u; q; f; 18 :: 6 :: repeat 7 18] d 1570000 = None
  /\ qi_process [1; 2] [] [u; q; f; q] d 1755000 = None
  /\ qi_process [1; 2] [u] [u; q; f; q] d 1570000 = None
  /\ qi_process [1; 2] [] [u; f; u] [] 1570000 = None.
Proof. vm_compute. auto. Qed.

Example f10_sites_nonvacuous : List.length f10_site_list = 8%nat.
Proof. vm_compute. reflexivity. Qed.

(* sender cache: tx.Hash() fills the cache through a signer at Location{0,0}; a zone-(0,1) node then
   still gets its own account as INTERNAL.  The variant that re-wraps at the filler's location (the
   blind change C16_3) answers EXTERNAL on the same state. *)
Example sender_cache_nonvacuous :
  tk witness_tx = TQuai /\ tx_wf witness_tx
  /\ fst (sender_step witness_tx (snd (run_ops witness_tx st_init [SHash false])) 9 [0; 1])
      = Internal (1 :: 5 :: repeat 7 18)
  /\ sender_step_filler_variant witness_tx (snd (run_ops witness_tx st_init [SHash false])) 9 [0; 1]
      = External (1 :: 5 :: repeat 7 18)
  /\ in_zone (1 :: 5 :: repeat 7 18) [0; 1] = true.
Proof. split; [reflexivity|]. split; [reflexivity|]. exact witness_after_hash. Qed.

(* C12 — A failed or reverted call frame leaves no trace.
   Property theorems only: each is closed by [exact <lemma>] (or a vm_compute witness for the
   refuted ones) and followed by [Print Assumptions].
   Model: Model/C12.v   Lemmas: Proofs/C12.v, Proofs/C12_Evm.v, Proofs/C12_Inventory.v, Proofs/C12_Layers.v, Proofs/C12_Fin.v (model Model/C12_Fin.v)   Generated: Generated/C12Journal.v

   Reading guide.  [step fx x o] is one call on the StateDB (mutator, Snapshot, RevertToSnapshot);
   [fx = false] is the code of /repo, [fx = true] the proposed repair of StateDB.Suicide.
   [m_core] = accounts (nonce, balance, code, storage, size counter, suicided, deleted), refund,
   logs, preimages, access list, transient storage; [m_jr] = the journal; [s_revs] = validRevisions.
   [benign fx o m] excludes exactly: Suicide of a live account whose storage-size counter is non-zero
   (finding F8), and only when fx = false. *)
From Coq Require Import String.
From Coq Require Import List NArith ZArith Bool Lia.
From GQ Require Import Lib.Key Lib.SMap Lib.C12_Laws Model.C12 Proofs.C12 Proofs.C12_Evm Proofs.C12_Inventory Proofs.C12_Layers Generated.C12Journal.
From GQ Require Import Model.C12_Fin Proofs.C12_Fin.
From GQ Require Model.C12_All.   (* case type of the correspondence check: built with this cone *)
Import ListNotations.

(* Every mutator only appends to the journal, and reverting what it appended gives back exactly
   the journalled state it started from. *)
Theorem mutator_is_undone_by_its_entries : forall o m,
  WFc (m_core m) -> benign code_fx o m = true ->
  exists es, m_jr (fst (mutate code_fx o m)) = es ++ m_jr m /\
    rewind_core (length (m_jr m)) (m_core (fst (mutate code_fx o m))) (m_jr (fst (mutate code_fx o m)))
    = Some (m_core m, m_jr m).
Proof. exact (mutate_ext code_fx). Qed.
Print Assumptions mutator_is_undone_by_its_entries.

(* Reachable states satisfy the invariant all other theorems assume (well-formed maps, revision
   ids increasing and below nextRevisionId, journal indices monotone, every valid revision rewinds
   without a nil dereference to a well-formed state). *)
Theorem reachable_states_invariant : forall c d n ops,
  WFc c -> all_benign code_fx (fresh c d n) ops = true -> Inv (run code_fx (fresh c d n) ops).
Proof. intros c d n ops W B. exact (Inv_run code_fx ops (fresh c d n) (Inv_fresh c d n W) B). Qed.
Print Assumptions reachable_states_invariant.

(* FULL STATEMENT (refuted below for the code as it is):
     forall x ops, Inv x -> let id := s_next x in
       let x2 := run false (fst (step false x OSnapshot)) ops in In id (map fst (s_revs x2)) ->
       m_core (s_m (fst (step false x2 (ORevert id)))) = m_core (s_m x)
   Proved for every history [ops] (any mutators, arbitrarily nested snapshots and reverts, including
   reverts that panic) all of whose steps are benign: the revert succeeds, and the accounts, refund,
   logs, preimages, access list, transient storage, the journal itself and validRevisions are exactly
   those at the snapshot. *)
Theorem revert_restores_partial : forall x ops,
  Inv x ->
  let id := s_next x in
  let x1 := fst (step code_fx x OSnapshot) in
  all_benign code_fx x1 ops = true ->
  let x2 := run code_fx x1 ops in
  In id (map fst (s_revs x2)) ->
  snd (step code_fx x2 (ORevert id)) = OutNone /\
  m_core (s_m (fst (step code_fx x2 (ORevert id)))) = m_core (s_m x) /\
  m_jr (s_m (fst (step code_fx x2 (ORevert id)))) = m_jr (s_m x) /\
  s_revs (fst (step code_fx x2 (ORevert id))) = s_revs x.
Proof. exact (revert_restores_gen code_fx). Qed.
Print Assumptions revert_restores_partial.

(* F8: the faithful model violates the full statement: account [16] has size counter 3; Snapshot,
   Suicide, RevertToSnapshot leaves the counter at 0 (balance and flag are restored). *)
Definition f8_core : core :=
  mkCore [([16%N], mkAcct 1 100 [1%N; 2%N] [([1%N], 1%N); ([2%N], 2%N); ([3%N], 3%N)] 3 false false)] 0 [] 0 [] [] [] [].
Definition f8_state : sdb := fresh f8_core [] 0.

Theorem revert_restores_refuted : exists x ops,
  Inv x /\ In (s_next x) (map fst (s_revs (run false (fst (step false x OSnapshot)) ops))) /\
  m_core (s_m (fst (step false (run false (fst (step false x OSnapshot)) ops) (ORevert (s_next x))))) <> m_core (s_m x) /\
  option_map a_size (get [16%N] (objs (m_core (s_m (fst (step false (run false (fst (step false x OSnapshot)) ops) (ORevert (s_next x)))))))) = Some 0%Z.
Proof.
  exists f8_state, [OSuicide [16%N]]. split; [|split; [|split]].
  - apply Inv_fresh. apply wf_coreb_WFc. vm_compute. reflexivity.
  - vm_compute. left. reflexivity.
  - vm_compute. intros H. discriminate H.
  - vm_compute. reflexivity.
Qed.
Print Assumptions revert_restores_refuted.

(* With the proposed repair (suicideChange records and restores the size counter) the full
   statement holds for EVERY history: F8 is the only defect of the journal with respect to [m_core]. *)
Theorem revert_restores_with_fix : forall x ops,
  Inv x ->
  let id := s_next x in
  let x2 := run true (fst (step true x OSnapshot)) ops in
  In id (map fst (s_revs x2)) ->
  snd (step true x2 (ORevert id)) = OutNone /\
  m_core (s_m (fst (step true x2 (ORevert id)))) = m_core (s_m x) /\
  m_jr (s_m (fst (step true x2 (ORevert id)))) = m_jr (s_m x) /\
  s_revs (fst (step true x2 (ORevert id))) = s_revs x.
Proof.
  intros x ops I id x2 Hin.
  exact (revert_restores_gen true x ops I (all_benign_fixed _ ops) Hin).
Qed.
Print Assumptions revert_restores_with_fix.

(* Siblings: whatever an earlier, completed part of the transaction did (ops1, with its own nested
   frames) is exactly what remains after a later frame (ops2) is reverted. *)
Theorem siblings_untouched : forall c d n ops1 ops2,
  WFc c ->
  let y := run code_fx (fresh c d n) ops1 in
  all_benign code_fx (fresh c d n) ops1 = true ->
  let id := s_next y in
  let y1 := fst (step code_fx y OSnapshot) in
  all_benign code_fx y1 ops2 = true ->
  In id (map fst (s_revs (run code_fx y1 ops2))) ->
  m_core (s_m (fst (step code_fx (run code_fx y1 ops2) (ORevert id)))) = m_core (s_m y) /\
  m_jr (s_m (fst (step code_fx (run code_fx y1 ops2) (ORevert id)))) = m_jr (s_m y).
Proof.
  intros c d n ops1 ops2 W y B1 id y1 B2 Hin.
  pose proof (Inv_run code_fx ops1 (fresh c d n) (Inv_fresh c d n W) B1) as I.
  destruct (revert_restores_gen code_fx y ops2 I B2 Hin) as (_ & E1 & E2 & _). split; assumption.
Qed.
Print Assumptions siblings_untouched.

(* Call frames (core/vm/evm.go: snapshot at entry, RevertToSnapshot on error): a frame is a mutator
   or a call/creation with a body of frames and an ending; [exec] threads a flag that stays true while
   every operation is a benign mutator.  A frame whose ending makes the EVM revert, at any nesting depth
   and whatever its sub-frames did, leaves accounts, refund, logs, preimages, access list, transient
   storage, journal and validRevisions exactly as at its entry.
   FULL STATEMENT = the same for every ending with [ending_failed e = true] and without the flag:
   refuted by [revert_restores_refuted] (SELFDESTRUCT of an account with a non-zero size counter) and by
   [failed_creation_leaves_no_trace_refuted] (code-store out of gas). *)
Theorem failed_frame_leaves_no_trace_partial : forall y body e,
  ending_reverts code_create_oog_reverts e = true ->
  Inv y -> snd (exec code_fx code_create_oog_reverts (FCall body e) (y, true)) = true ->
  let y' := fst (exec code_fx code_create_oog_reverts (FCall body e) (y, true)) in
  m_core (s_m y') = m_core (s_m y) /\ m_jr (s_m y') = m_jr (s_m y) /\ s_revs y' = s_revs y /\ Inv y'.
Proof. intros y body e. exact (failed_frame_restores code_fx code_create_oog_reverts y body e). Qed.
Print Assumptions failed_frame_leaves_no_trace_partial.

(* EVM.create exempts ErrCodeStoreOutOfGas from the revert: a creation that fails in the code deposit
   keeps the new account (nonce 1, endowment) and everything its init code did. *)
Theorem failed_creation_leaves_no_trace_refuted : exists y body,
  Inv y /\ ending_failed EndCodeStoreOOG = true /\
  snd (exec false false (FCall body EndCodeStoreOOG) (y, true)) = true /\
  m_core (s_m (fst (exec false false (FCall body EndCodeStoreOOG) (y, true)))) <> m_core (s_m y).
Proof.
  exists f8_state, [FOp (OCreateAccount [17%N]); FOp (OSetNonce [17%N] 1); FOp (OSetState [17%N] [1%N] 7%N)].
  split; [apply Inv_fresh; apply wf_coreb_WFc; vm_compute; reflexivity|].
  vm_compute. repeat split; try reflexivity. intros H. discriminate H.
Qed.
Print Assumptions failed_creation_leaves_no_trace_refuted.

(* with upstream's behaviour (revert on every error) every failed ending is covered by the theorem *)
Theorem every_failed_ending_reverts_with_fix : forall e, ending_failed e = true -> ending_reverts true e = true.
Proof. intros [] H; try reflexivity; discriminate H. Qed.
Print Assumptions every_failed_ending_reverts_with_fix.

(* Any frame preserves the invariant, so the theorem above applies again to the caller. *)
Theorem frames_preserve_invariant : forall f y b,
  Inv y -> snd (exec code_fx code_create_oog_reverts f (y, b)) = true ->
  Inv (fst (exec code_fx code_create_oog_reverts f (y, b))) /\
  (s_next y <= s_next (fst (exec code_fx code_create_oog_reverts f (y, b))))%N.
Proof. intros f y b I H. destruct (exec_ok code_fx code_create_oog_reverts f y b I H) as (I' & N' & _). split; assumption. Qed.
Print Assumptions frames_preserve_invariant.

(* RevertToSnapshot of a valid revision never panics (no missing object is dereferenced by any
   journalEntry.revert) and consumes the revision: it can be reverted at most once. *)
Theorem revert_of_valid_revision_succeeds_once : forall x id,
  Inv x -> In id (map fst (s_revs x)) ->
  snd (step code_fx x (ORevert id)) = OutNone /\
  ~ In id (map fst (s_revs (fst (step code_fx x (ORevert id))))).
Proof. exact (revert_valid_ok code_fx). Qed.
Print Assumptions revert_of_valid_revision_succeeds_once.

(* An id that is not a valid revision: "revision id cannot be reverted", and nothing changes. *)
Theorem revert_of_invalid_revision_is_inert : forall x id,
  ~ In id (map fst (s_revs x)) -> step code_fx x (ORevert id) = (x, OutPanic).
Proof. exact (revert_invalid_panics code_fx). Qed.
Print Assumptions revert_of_invalid_revision_is_inert.

(* journal.dirties is the image of the journal (one count per entry whose dirtied() is an address),
   for histories without the storage-size setters and without a zero-value credit to the RIPEMD
   address. *)
Theorem dirties_are_journal_image_partial : forall c d n ops,
  dpos d -> forallb dirt_safe ops = true ->
  let x := run code_fx (fresh c d n) ops in
  m_dirt (s_m x) = dirt_of d (m_jr (s_m x)).
Proof.
  intros c d n ops P S x.
  apply (DI_run d code_fx ops (fresh c d n) P S). split; [reflexivity|constructor].
Qed.
Print Assumptions dirties_are_journal_image_partial.

(* FULL STATEMENT: journal.dirties after the revert = journal.dirties at the snapshot.  Proved for the
   same histories; refuted below for the size setters (sizeChange.revert calls the journalling setter). *)
Theorem dirties_restored_partial : forall d0 x ops,
  Inv x -> dpos d0 -> DI d0 (s_m x) -> forallb dirt_safe ops = true ->
  let id := s_next x in
  let x1 := fst (step code_fx x OSnapshot) in
  all_benign code_fx x1 ops = true ->
  let x2 := run code_fx x1 ops in
  In id (map fst (s_revs x2)) ->
  m_dirt (s_m (fst (step code_fx x2 (ORevert id)))) = m_dirt (s_m x).
Proof. intros d0. exact (dirt_restored d0 code_fx). Qed.
Print Assumptions dirties_restored_partial.

Theorem dirties_restored_refuted : code_rejournal = true -> exists x ops,
  Inv x /\ all_benign false (fst (step false x OSnapshot)) ops = true /\
  m_core (s_m (fst (step false (run false (fst (step false x OSnapshot)) ops) (ORevert (s_next x))))) = m_core (s_m x) /\
  m_dirt (s_m (fst (step false (run false (fst (step false x OSnapshot)) ops) (ORevert (s_next x))))) <> m_dirt (s_m x).
Proof.
  intros Hrj.
  first [ exfalso; vm_compute in Hrj; discriminate Hrj
        | exists f8_state, [OAddSize [16%N]];
          split; [apply Inv_fresh; apply wf_coreb_WFc; vm_compute; reflexivity
                 |split; [vm_compute; reflexivity
                         |split; [vm_compute; reflexivity|vm_compute; intros H; discriminate H]]] ].
Qed.
Print Assumptions dirties_restored_refuted.

(* The analytics counters SupplyAdded/SupplyRemoved are not journalled: a reverted credit stays
   counted (not part of any commitment; recorded as a limit, not as a finding). *)
Theorem supply_counters_restored_refuted : exists x ops,
  s_added (fst (step false (run false (fst (step false x OSnapshot)) ops) (ORevert (s_next x)))) <> s_added x.
Proof. exists f8_state, [OAddBalance [16%N] 5]. vm_compute. intros H. discriminate H. Qed.
Print Assumptions supply_counters_restored_refuted.

(* ---- EVM layer: ETXCache, CoinbaseDeletedHashes, CoinbasesDeleted and the lockup deletions staged in
   EVM.Batch (core/vm/evm.go snapshot/revertToSnapshot/UndoCoinbasesDeleted, contracts.go
   ClaimCoinbaseLockup).  [eexec fixd f st]: fixd = false is /repo, true the proposed repair. ---- *)

(* The pending outbound ETXs, the deleted-lockup hashes and the undo map are restored by a failing
   frame, for every call tree. *)
Theorem evm_side_lists_restored : forall body st,
  let st' := eexec code_fixd (ECall body true) st in
  e_etxs st' = e_etxs st /\ e_hashes st' = e_hashes st /\ e_deleted st' = e_deleted st /\ e_db st' = e_db st.
Proof. exact (failed_call_lists code_fixd). Qed.
Print Assumptions evm_side_lists_restored.

(* The outbound set: after any call tree without lockup claims the ETX cache holds, after what it held
   before, exactly the sends of the frames that ended well together with every frame around them, in
   program order - nothing sent inside a frame that failed, at any depth, whatever came after it. *)
Theorem outbound_set_is_kept_sends_partial : forall f st,
  no_claim f = true -> e_etxs (eexec code_fixd f st) = e_etxs st ++ kept f.
Proof. exact (outbound_kept code_fixd). Qed.
Print Assumptions outbound_set_is_kept_sends_partial.

Example outbound_set_nonvacuous :
  let t := ECall [EEmit 1; ECall [EEmit 2; ECall [EEmit 3] false] true; ECall [EEmit 4] false; EEmit 5] false in
  no_claim t = true /\ kept t = [1%N; 4%N; 5%N] /\ e_etxs (eexec code_fixd t (mkEvm [9%N] [] [] [] [])) = [9%N; 1%N; 4%N; 5%N].
Proof. vm_compute. auto. Qed.

(* FULL STATEMENT: forall body st k, lk_view (eexec false (ECall body true) st) k = lk_view st k
   (a failing frame leaves every lockup record as readable as before).  Proved for call trees that
   contain no claim; refuted below. *)
Theorem lockup_records_restored_partial : forall body st k,
  good st -> (code_fixd = true \/ forallb no_claim body = true) ->
  lk_view (eexec code_fixd (ECall body true) st) k = lk_view st k.
Proof. exact failed_frame_lockups_code. Qed.
Print Assumptions lockup_records_restored_partial.

(* F9: a claim inside a frame that then fails: the payout ETX and the undo record are dropped, the
   deletion staged in the batch stays; after the (failed) transaction and the block's batch write the
   record is gone although nothing was paid. *)
Definition f9_state : evmst := mkEvm [] [] [] [] [([1%N], [3%N; 232%N])].
Definition f9_tx : eframe := ECall [ECall [EClaim [1%N] 7 9] false] true.

Theorem lockup_records_restored_refuted : exists body st k,
  good st /\ lk_view st k <> None /\
  lk_view (eexec false (ECall body true) st) k = None /\
  e_etxs (eexec false (ECall body true) st) = [] /\
  get k (evm_commit (evm_tx false (ECall body true) st)) = None.
Proof.
  exists [ECall [EClaim [1%N] 7 9] false], f9_state, [1%N].
  split; [apply good_start|]. vm_compute. repeat split; try reflexivity. discriminate.
Qed.
Print Assumptions lockup_records_restored_refuted.

(* After a failed top-level frame UndoCoinbasesDeleted (applyTransaction) finds an empty map: it cannot
   repair anything. *)
Theorem undo_after_failed_transaction_is_noop : forall body st,
  e_deleted st = [] ->
  e_batch (evm_undo (eexec code_fixd (ECall body true) st)) = e_batch (eexec code_fixd (ECall body true) st).
Proof. exact (undo_after_failed_top_is_noop code_fixd). Qed.
Print Assumptions undo_after_failed_transaction_is_noop.

(* With the proposed repair (revertToSnapshot puts back every record whose undo entry it drops) the
   full statement holds for every call tree, from every consistent EVM state. *)
Theorem lockup_records_restored_with_fix : forall body st k,
  good st -> lk_view (eexec true (ECall body true) st) k = lk_view st k.
Proof. intros body st k G. exact (failed_frame_lockups_fixed body st k G). Qed.
Print Assumptions lockup_records_restored_with_fix.

(* ---- the model's inventory is the source's inventory (generated from /repo on every run) ---- *)
Theorem journal_kinds_covered : journal_kinds_covered_b journal_kinds = true.
Proof. vm_compute. reflexivity. Qed.
Print Assumptions journal_kinds_covered.

Theorem statedb_mutators_covered : journalling_covered_b statedb_class statedb_journalling = true.
Proof. vm_compute. reflexivity. Qed.
Print Assumptions statedb_mutators_covered.

Theorem object_mutators_covered : journalling_covered_b object_class object_journalling = true.
Proof. vm_compute. reflexivity. Qed.
Print Assumptions object_mutators_covered.

Theorem evm_interface_covered : evm_interface_covered_b evm_statedb_interface statedb_journalling = true.
Proof. vm_compute. reflexivity. Qed.
Print Assumptions evm_interface_covered.

(* Every function of *EVM that runs code in a frame (Call, CallCode, DelegateCall, StaticCall, create -
   exactly these) takes the full EVM snapshot and reverts to it, and only snapshot()/revertToSnapshot()
   touch the bare StateDB revision: [ECall] models all call kinds. *)
Theorem evm_frames_covered : evm_frames_covered_b evm_frame_functions vm_raw_revision_users = true.
Proof. vm_compute. reflexivity. Qed.
Print Assumptions evm_frames_covered.

(* Every field of struct EVM assigned in package vm is one of the lists restored by revertToSnapshot or a
   classified non-effect; evmSnapshot has the four fields the model's [evm_revert] uses. *)
Theorem evm_side_state_covered : evm_side_state_covered_b evm_assigned_fields evm_snapshot_fields = true.
Proof. vm_compute. reflexivity. Qed.
Print Assumptions evm_side_state_covered.

(* the tables used by those checks describe the model *)
Theorem mutators_append_only_declared_kinds : forall fx o m,
  exists es, m_jr (fst (mutate fx o m)) = es ++ m_jr m /\ Forall (fun e => In (kind_of e) (op_kinds o)) es.
Proof. exact mutate_kinds. Qed.
Print Assumptions mutators_append_only_declared_kinds.

Theorem kind_tables_describe_model : forall e d,
  kind_dirties (kind_of e) = (match dirtied e with Some _ => true | None => false end) /\
  (kind_rejournals (kind_of e) = false -> undo_dirt e d = match dirtied e with Some a => ddec a d | None => d end).
Proof. intros e d. split; [apply kind_dirties_spec|apply kind_rejournals_spec]. Qed.
Print Assumptions kind_tables_describe_model.

(* ---- non-vacuity ---- *)
(* a benign history with nested frames, a reset of a live account, storage clearing, access list,
   transient storage, logs and refund, on a well-formed state; the outer snapshot stays valid *)
Definition nv_ops : list op :=
  [OAddBalance [17%N] 5; OSnapshot; OCreateAccount [16%N]; OSetState [16%N] [1%N] 7%N; OALSlot [16%N] [2%N];
   OSnapshot; OSetTransient [16%N] [1%N] 4%N; OAddLog 9; ORevert 2; OAddRefund 3; OSetState [17%N] [1%N] 1%N;
   OSetState [17%N] [1%N] 0%N; OSetNonce [17%N] 4].

Example revert_restores_nonvacuous :
  Inv f8_state /\
  all_benign code_fx (fst (step code_fx f8_state OSnapshot)) nv_ops = true /\
  In (s_next f8_state) (map fst (s_revs (run code_fx (fst (step code_fx f8_state OSnapshot)) nv_ops))) /\
  length (m_jr (s_m (run code_fx (fst (step code_fx f8_state OSnapshot)) nv_ops))) = 10 /\
  forallb dirt_safe nv_ops = true.
Proof.
  split; [apply Inv_fresh; apply wf_coreb_WFc; vm_compute; reflexivity|].
  vm_compute. repeat split; auto.
Qed.

Example mutator_is_undone_nonvacuous :
  WFc f8_core /\ benign code_fx (OSetState [16%N] [2%N] 0%N) (mkM f8_core [] []) = true /\
  m_jr (fst (mutate code_fx (OSetState [16%N] [2%N] 0%N) (mkM f8_core [] []))) = [EStorage [16%N] [2%N] 2%N].
Proof. split; [apply wf_coreb_WFc; vm_compute; reflexivity|]. vm_compute. auto. Qed.

Example with_fix_nonvacuous :
  In 0%N (map fst (s_revs (run true (fst (step true f8_state OSnapshot)) [OSuicide [16%N]]))) /\
  m_jr (s_m (run true (fst (step true f8_state OSnapshot)) [OSuicide [16%N]])) = [ESuicide [16%N] false 100 (Some 3%Z)].
Proof. vm_compute. auto. Qed.

(* a call tree: a failing call containing a failing and a successful sub-call *)
Definition nv_tree : list frame :=
  [FOp (OAddBalance [17%N] 5);
   FCall [FOp (OSetState [16%N] [1%N] 0%N); FCall [FOp (OSetNonce [16%N] 9)] EndFail; FOp (OAddLog 1)] EndOk;
   FCall [FOp (OCreateAccount [16%N]); FOp (OSetTransient [16%N] [1%N] 2%N)] EndFail;
   FOp (OALSlot [17%N] [3%N])].

Example failed_frame_nonvacuous :
  ending_reverts code_create_oog_reverts EndFail = true /\
  snd (exec code_fx code_create_oog_reverts (FCall nv_tree EndFail) (f8_state, true)) = true /\
  s_next (fst (exec code_fx code_create_oog_reverts (FCall nv_tree EndFail) (f8_state, true))) = 4%N /\
  length (m_jr (s_m (fst (fold_left (fun acc g => exec code_fx code_create_oog_reverts g acc) nv_tree (fst (step code_fx f8_state OSnapshot), true))))) = 6.
Proof. vm_compute. auto. Qed.

Example evm_nonvacuous :
  good f9_state /\ lk_view f9_state [1%N] = Some [3%N; 232%N] /\
  e_etxs (eexec false (ECall [ECall [EClaim [1%N] 7 9] false] false) f9_state) = [7%N] /\
  lk_view (eexec true f9_tx f9_state) [1%N] = Some [3%N; 232%N] /\
  forallb no_claim [EEmit 4; ECall [EEmit 5] true] = true.
Proof. split; [apply good_start|]. vm_compute. auto. Qed.


(* ================= storage of a slot over the transactions of a block =================
   [lslot] = the three caches a live state object keeps for one slot: dirtyStorage (current transaction),
   pendingStorage (earlier transactions of the block), originStorage (cache of the trie value), the trie
   value, the slot's storageChange entries, membership in stateObjectsPending.  [l_block true b s] runs
   transactions (trees of frames writing the slot) separated by Finalize or IntermediateRoot.
   [alpha s] = (value GetState returns, value GetCommittedState returns, trie value, journal, pending flag). *)

(* Generated from core/state: storageChange.revert is exactly obj.setState(ch.key, ch.prevalue) and
   stateObject.setState is exactly s.dirtyStorage[key] = value.  The theorems below are about this
   variant ([plain = true]); the correspondence cases CL run the variant the source has. *)
Theorem storage_revert_is_plain_write : code_storage_revert_plain = true.
Proof. vm_compute. reflexivity. Qed.
Print Assumptions storage_revert_is_plain_write.

(* Whatever the earlier transactions of the block did, the caches satisfy the invariant the next
   theorems assume (origin entry = trie value; pending entries only for accounts in
   stateObjectsPending; a written slot has its origin cached; journal entries imply a dirty entry;
   rewinding the whole journal gives the committed value). *)
Theorem storage_caches_invariant_reachable : forall b0 b pre,
  LInv (l_frames true pre (l_block true b (l_fresh b0))).
Proof. intros b0 b pre. apply sim_frames. apply l_reachable. Qed.
Print Assumptions storage_caches_invariant_reachable.

(* The three-level lookup refines a flat slot: running any block on the caches and then reading
   (visible value, committed value, trie value, journal) is running the block on the flat slot. *)
Theorem storage_caches_refine_flat_slot : forall b s, LInv s ->
  alpha (l_block true b s) = f_block b (alpha s) /\ LInv (l_block true b s).
Proof. exact sim_block. Qed.
Print Assumptions storage_caches_refine_flat_slot.

(* Storage clause over multi-transaction histories: a frame that fails - in any transaction of the
   block, after any frames of that transaction, whatever its sub-frames did - leaves the value GetState
   returns, the value that will be committed, the trie, the journal and the pending flag exactly as at
   frame entry: in particular it does not resurrect what an earlier transaction left in pendingStorage,
   and keeps what a sibling frame that completed earlier wrote. *)
Theorem failed_frame_restores_slot_in_any_transaction : forall s body, LInv s ->
  alpha (l_exec true (LCall body true) s) = alpha s /\ LInv (l_exec true (LCall body true) s).
Proof. intros s body I. exact (l_failed_frame body s I). Qed.
Print Assumptions failed_frame_restores_slot_in_any_transaction.

(* Erasure: a block equals the block without its failed frames (nested ones included), for every
   block-start value: same visible value, committed value, trie value afterwards. *)
Theorem block_equals_block_without_failed_frames : forall b0 b,
  alpha (l_block true b (l_fresh b0)) = alpha (l_block true (erase_block b) (l_fresh b0)).
Proof. intros b0 b. apply l_erasure. apply LInv_fresh. Qed.
Print Assumptions block_equals_block_without_failed_frames.

(* Why the obligation storage_revert_is_plain_write matters: with the origin-aware revert (drop the
   dirty entry when the restored value equals originStorage[key]) the statement is false.  Block-start
   value 0; transaction 1 writes 5; transaction 2: a frame that completes writes 0, a frame that writes
   9 fails: the slot reads 5. *)
Theorem origin_aware_storage_revert_refuted :
  exists b0 b pre body, let s := l_frames false pre (l_block false b (l_fresh b0)) in
    l_vis s = 0%N /\ l_vis (l_exec false (LCall body true) s) = 5%N.
Proof.
  exists 0%N, [([LSet 5%N], false)], [LCall [LSet 0%N] false], [LSet 9%N]. vm_compute. split; reflexivity.
Qed.
Print Assumptions origin_aware_storage_revert_refuted.

Example slot_across_transactions_nonvacuous :
  let s := l_frames true [LCall [LSet 0%N] false] (l_block true [([LSet 5%N], false)] (l_fresh 0%N)) in
  l_pending s = Some 5%N /\ l_origin s = Some 0%N /\ l_dirty s = Some 0%N /\ l_jr s = [5%N] /\
  l_vis (l_exec true (LCall [LSet 9%N; LCall [LSet 5%N] true] true) s) = 0%N /\
  erase_block [([LSet 5%N], false); ([LCall [LSet 0%N] false; LCall [LSet 9%N] true], true)]
    = [([LSet 5%N], false); ([LCall [LSet 0%N] false], true)].
Proof. vm_compute. repeat split; reflexivity. Qed.


(* ---------- one account over the transactions of a block: Finalize / IntermediateRoot / Commit and the
   snapshot-side bookkeeping (Model/C12_Fin.v) ----------
   [fa_op snap o] = CreateAccount / AddBalance / SetNonce / SetCode / Suicide on the account (createObject with
   createObjectChange or resetObjectChange{prev, prevdestruct}, getStateObject hiding an object deleted by an
   earlier transaction); [snap] = the StateDB reads through a snapshot layer (snapDestructs / snapAccounts are
   kept); [fa_finalize] / [fa_root] = StateDB.Finalize(true) / IntermediateRoot(true); [fa_commit] = what
   Commit hands to the database and to snaps.Update for the address.  A state is object, snapDestructs and
   snapAccounts membership, journal, journal.dirties, stateObjectsPending / stateObjectsDirty membership,
   account trie entry. *)

(* Every mutator only appends journal entries; undoing them gives back EXACTLY the state it started from,
   all eight components. *)
Theorem account_mutator_is_undone_by_its_entries : forall snap o s, FInv s ->
  (exists k, length (fa_jr (fa_op snap o s)) = k + length (fa_jr s) /\ fa_pop snap k (fa_op snap o s) = s)
  /\ FInv (fa_op snap o s).
Proof. exact aext_op. Qed.
Print Assumptions account_mutator_is_undone_by_its_entries.

(* Whatever the earlier transactions and the earlier frames of this transaction did, the state satisfies
   the invariants the next theorems assume: an address without object is not in stateObjectsDirty (so the
   delete in createObjectChange.revert is a no-op), and journal.dirties[addr] is the number of pending
   entries whose dirtied() is not nil (no leak, no underflow, through every revert and every boundary). *)
Theorem account_invariants_reachable : forall snap base b pre,
  FInv (fa_frames snap pre (fa_block snap b (fa_fresh base)))
  /\ DInv (fa_frames snap pre (fa_block snap b (fa_fresh base))).
Proof.
  intros snap base b pre. split.
  - apply aext_frames. apply FInv_block. apply FInv_fresh.
  - apply DInv_frames. apply DInv_block. apply DInv_fresh.
Qed.
Print Assumptions account_invariants_reachable.

(* The property for the account clauses over whole blocks: a frame that fails - in any transaction, after
   any frames, whatever its sub-frames did (re-creations over a live / deleted / absent account,
   self-destructs, nested failing and completing frames), with or without a snapshot layer - leaves the
   object, snapDestructs, snapAccounts, the journal, journal.dirties, the pending / dirty sets and the
   account trie exactly as at frame entry. *)
Theorem failed_frame_restores_account_and_snapshot_bookkeeping : forall snap base b pre body,
  let s := fa_frames snap pre (fa_block snap b (fa_fresh base)) in
  fa_exec snap (FFCall body true) s = s.
Proof. intros snap base b pre body s. apply fa_failed. apply account_invariants_reachable. Qed.
Print Assumptions failed_frame_restores_account_and_snapshot_bookkeeping.

(* Siblings: what the frames that completed before did is exactly what remains. *)
Theorem account_siblings_untouched : forall snap s pre body, FInv s ->
  fa_frames snap (pre ++ [FFCall body true]) s = fa_frames snap pre s.
Proof. intros snap s pre body I. exact (fa_siblings snap pre body s I). Qed.
Print Assumptions account_siblings_untouched.

(* A revert leaves no trace at the next Commit: a block and the block without its failed frames (nested
   ones included; [ferase] removes them, see the next theorem) reach the same state after every
   transaction boundary, and Commit writes the same account entry, the same destruct mark and the same
   snapshot account entry. *)
Theorem account_block_equals_block_without_failed_frames : forall snap base b,
  fa_block snap (ferase_block b) (fa_fresh base) = fa_block snap b (fa_fresh base)
  /\ fa_commit snap (fa_block snap (ferase_block b) (fa_fresh base)) = fa_commit snap (fa_block snap b (fa_fresh base)).
Proof.
  intros snap base b. split; [apply fa_erase_block|apply fa_erase_commit]; apply FInv_fresh.
Qed.
Print Assumptions account_block_equals_block_without_failed_frames.

Theorem erased_frames_never_fail : forall f, forallb no_fail (ferase f) = true.
Proof. exact ferase_no_fail. Qed.
Print Assumptions erased_frames_never_fail.

(* The snapshot layer only adds bookkeeping: object, journal length, dirties, pending / dirty sets, account
   trie entry and the account entry written by Commit are the same with and without it, for every block. *)
Theorem snapshot_layer_does_not_change_account_result : forall b base,
  fa_obj (fa_block true b (fa_fresh base)) = fa_obj (fa_block false b (fa_fresh base))
  /\ fa_trie (fa_block true b (fa_fresh base)) = fa_trie (fa_block false b (fa_fresh base))
  /\ fst (fst (fa_commit true (fa_block true b (fa_fresh base)))) = fst (fst (fa_commit false (fa_block false b (fa_fresh base)))).
Proof. exact backend_independent. Qed.
Print Assumptions snapshot_layer_does_not_change_account_result.

(* Non-vacuity, and the two shapes the prevdestruct field exists for.  Parent state: balance 7.
   (1) transaction 1 self-destructs (Finalize marks the destruct); in transaction 2 a frame re-creates the
   account, credits it and fails: the object is the deleted one again and the mark is STILL there;
   (2) no earlier destruct: the failed re-creation's mark is removed again;  (3) the journal of the failed
   frame held three entries. *)
Example account_block_nonvacuous :
  let base := Some (0%N, 7%Z, false) in
  let s1 := fa_block true [([FFOp FSuicide], false)] (fa_fresh base) in
  let body := [FFOp FCreate; FFOp (FCredit 4%Z); FFOp (FSetNonce 1%N)] in
  fa_destruct s1 = true /\ fa_obj s1 = Some (mkO 0 0 false true true)
  /\ fa_destruct (fa_frames true body s1) = true /\ length (fa_jr (fa_frames true body s1)) = 3
  /\ fa_exec true (FFCall body true) s1 = s1
  /\ fa_destruct (fa_frames true body (fa_fresh base)) = true
  /\ fa_exec true (FFCall body true) (fa_fresh base) = fa_fresh base
  /\ fa_commit true (fa_block true [([FFOp FSuicide], false); ([FFCall body true; FFOp (FCredit 4%Z)], false)] (fa_fresh base))
     = (Some (0%N, 4%Z, false), true, true).
Proof. vm_compute. repeat split; reflexivity. Qed.

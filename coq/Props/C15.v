(* C15 — No input can make the node use resources it did not pay for: interpreter memory
   is metered.  Property theorems only: each is closed by [exact <lemma>] (or by
   vm_compute on generated data) and followed by [Print Assumptions].
   Model: Model/C15.v   Lemmas: Proofs/C15.v   Generated data: Generated/C15JumpTable.v, Generated/C15Decoders.v *)
From Coq Require Import List NArith Bool String.
From GQ Require Import Lib.C15_Row Lib.C15_Wire Lib.C15_Window Generated.C15JumpTable Model.C15 Proofs.C15 Proofs.C15_Wire Proofs.C15_Window.
Import ListNotations.
Local Open Scope N_scope.

(* ---------- the fee ---------- *)

Theorem mem_gas_monotone : forall a b, a <= b -> mem_gas a <= mem_gas b.
Proof. exact Proofs.C15.mem_gas_monotone. Qed.
Print Assumptions mem_gas_monotone.

(* what G gas can buy at most: w words with w^2 <= 512 G + 511 and 3 w <= G *)
Theorem mem_gas_buys_at_most : forall w G, mem_gas w <= G -> w <= N.sqrt (512 * G + 511) /\ 3 * w <= G.
Proof. exact mem_gas_bound_words. Qed.
Print Assumptions mem_gas_buys_at_most.

(* ---------- single steps ---------- *)

(* a step that fails its charge phase (invalid opcode, stack, out of gas, size overflow)
   never grows memory: any table, any state *)
Theorem failed_step_never_grows_memory : forall T op a s v s',
  step T op a s = (v, s') -> v <> VOk -> m_mem s' = m_mem s.
Proof. exact step_fail_mem_lemma. Qed.
Print Assumptions failed_step_never_grows_memory.

(* metered table: a successful step pays, on top of its constant gas, at least the fee
   difference between the new and the old memory size, and lastGasCost stays in sync *)
Theorem metered_step_pays_growth : forall T, jumptable_metered T = true ->
  forall op a s s', frame_ok s -> step T op a s = (VOk, s') ->
    frame_ok s' /\ words_of s <= words_of s' /\
    m_gas s' + a_cgas a + mem_gas (words_of s') <= m_gas s + mem_gas (words_of s).
Proof. exact metered_step_pays_growth_lemma. Qed.
Print Assumptions metered_step_pays_growth.

(* ---------- whole programs ---------- *)

(* MAIN THEOREM.  If every row that can grow memory charges for it, then for EVERY program
   (any opcode/argument sequence of any length, hence every prefix = every point of every
   execution) and every gas budget G: fee(memory) + gas left <= G, memory is whole words,
   words^2 <= 512 G + 511 and 3 words <= G, i.e. |memory| <= 32 * isqrt(512 G + 511) bytes. *)
Theorem metered_memory_bound : forall T, jumptable_metered T = true ->
  forall G p v s, run T p (init G) = (v, s) ->
    mem_gas (words_of s) + m_gas s <= G /\
    m_mem s = 32 * words_of s /\
    words_of s * words_of s <= 512 * G + 511 /\
    3 * words_of s <= G /\
    m_mem s <= 32 * N.sqrt (512 * G + 511) /\
    (v = VOk -> m_last s = mem_gas (words_of s)).
Proof. exact metered_memory_bound_lemma. Qed.
Print Assumptions metered_memory_bound.

Theorem gas_never_increases : forall T G p v s, run T p (init G) = (v, s) -> m_gas s <= G.
Proof. exact gas_never_increases_lemma. Qed.
Print Assumptions gas_never_increases.

(* Across call frames (every frame has its own memory, a call hands part of the gas to a fresh
   frame, a return gives back at most what is left): the fees of all live memories plus all
   remaining gas never exceed G; in particular 3 * (total words of all live frames) <= G. *)
Theorem frames_memory_bound : forall T, jumptable_metered T = true ->
  forall G fp fs, frun T fp [init G] = Some fs ->
    total_mem_gas fs + total_gas fs <= G /\ 3 * total_words fs <= G /\
    Forall (fun s => m_mem s = 32 * words_of s) fs.
Proof. exact frames_memory_bound_lemma. Qed.
Print Assumptions frames_memory_bound.

(* ---------- the converse: one unmetered row breaks the bound ---------- *)

(* A row with a memorySize function that is not charged reaches ANY memory size (below the
   uint64 limit) in one instruction for constant gas c (+ its non-memory dynamic part o). *)
Theorem unmetered_row_unbounded : forall T op r,
  lookup T op = Some r -> r_has_mem r = true -> row_metered r = false ->
  forall n stk c o G,
    r_min r <= stk -> stk <= r_max r -> 32 * n < U64 -> c + o <= G ->
    exists s', step T op (mkA stk c (Some (32 * n)) (Some o)) (init G) = (VOk, s') /\
               m_mem s' = 32 * n /\ G <= m_gas s' + c + o.
Proof. exact unmetered_row_unbounded_lemma. Qed.
Print Assumptions unmetered_row_unbounded.

(* ---------- obligations on the generated table of the CURRENT tree ---------- *)

(* the fee formula of the model is the one of package params *)
Theorem fee_constants_match : (MemoryGas, QuadCoeffDiv) = (3, 512).
Proof. vm_compute. reflexivity. Qed.
Print Assumptions fee_constants_match.

(* the interpreter runs the table that was generated (NewEVMInterpreter installs instructionSet,
   which equals NewInstructionSet()); the fork gate covers exactly PUSH0/TLOAD/TSTORE/MCOPY *)
Theorem generated_table_is_the_interpreters :
  interp_uses_active && active_equals_full = true /\ gated_ops = [92; 93; 94; 95].
Proof. vm_compute. split; reflexivity. Qed.
Print Assumptions generated_table_is_the_interpreters.

(* Every opcode of every fork that has a memorySize function has a dynamicGas function that
   charges the expansion fee -- EXCEPT the recorded finding F4 (ETX).  A new unmetered opcode,
   or a dynamicGas that stops charging memory, makes this false. *)
Theorem jumptable_metered_except_known :
  forallb (jumptable_metered_except [opcode_ETX]) fork_tables = true.
Proof. vm_compute. reflexivity. Qed.
Print Assumptions jumptable_metered_except_known.

(* FULL STATEMENT (what C15 asks for):  forallb jumptable_metered fork_tables = true.
   It is FALSE on the current tree: the unmetered opcodes are exactly [ETX] in both forks. *)
Theorem jumptable_metered_refuted :
  map unmetered_ops fork_tables = [[opcode_ETX]; [opcode_ETX]] /\
  forallb jumptable_metered fork_tables = false.
Proof. vm_compute. split; reflexivity. Qed.
Print Assumptions jumptable_metered_refuted.

(* the probe data is coherent and neither memorySize nor dynamicGas reads below minStack *)
Theorem jumptable_probes_safe :
  forallb jumptable_safe fork_tables && forallb jumptable_wf fork_tables = true.
Proof. vm_compute. reflexivity. Qed.
Print Assumptions jumptable_probes_safe.

(* F4 on the generated ETX row: in both forks, for every n (32 n < 2^64) and every budget
   G >= ETXGas, the single instruction ETX takes an empty memory to n words for exactly ETXGas. *)
Theorem etx_unmetered_witness : forall T, In T fork_tables ->
  forall n G, 32 * n < U64 -> ETXGas <= G ->
    exists s', step T opcode_ETX (mkA 10 ETXGas (Some (32 * n)) (Some 0)) (init G) = (VOk, s') /\
               m_mem s' = 32 * n /\ G <= m_gas s' + ETXGas.
Proof.
  intros T HT n G Hn HG.
  assert (Hrow : exists r, lookup T opcode_ETX = Some r /\ r_has_mem r = true /\ row_metered r = false /\
                           r_min r = 10 /\ 10 <= r_max r).
  { destruct HT as [<-|[<-|[]]]; eexists; (split; [vm_compute; reflexivity|]);
      repeat split; vm_compute; congruence. }
  destruct Hrow as (r & Hl & Hhm & Hum & Hmin & Hmax).
  destruct (unmetered_row_unbounded_lemma T opcode_ETX r Hl Hhm Hum n 10 ETXGas 0 G) as (s' & A & B & C).
  - rewrite Hmin. apply N.le_refl.
  - exact Hmax.
  - exact Hn.
  - rewrite N.add_0_r. exact HG.
  - exists s'. split; [exact A|]. split; [exact B|]. rewrite N.add_0_r in C. exact C.
Qed.
Print Assumptions etx_unmetered_witness.

(* hence the main bound FAILS on the current tree: 64 MiB of memory for 21030 gas (ten pushes + ETX)
   (replayed on the real interpreter by the harness corpus case "etx-64MiB") *)
Definition etx_witness_prog : prog :=
  map (fun k => (127, mkA k 3 None None)) [0;1;2;3;4;5;6;7;8;9]                 (* ten PUSH32, 3 gas each *)
  ++ [(opcode_ETX, mkA 10 ETXGas (Some 67108864) None)].
Theorem metered_memory_bound_refuted : exists T G s,
  In T fork_tables /\ run T etx_witness_prog (init G) = (VOk, s) /\ G = 21030 /\ m_mem s = 67108864 /\
  G < mem_gas (words_of s).
Proof.
  exists table_postfork, 21030. eexists. split; [right; left; reflexivity|].
  split; [vm_compute; reflexivity|]. split; [reflexivity|]. split; vm_compute; reflexivity.
Qed.
Print Assumptions metered_memory_bound_refuted.

(* PARTIAL (strongest true statement for the current tree): in both forks, for every program
   and budget, memory stays below max(32*isqrt(512 G + 511), U) where U bounds the (rounded)
   sizes requested AT ETX INSTRUCTIONS ONLY -- every other opcode is covered by the gas bound. *)
Theorem current_tree_memory_bound_partial : forall T, In T fork_tables ->
  forall U G p v s,
    ex_req_bounded [opcode_ETX] U p = true ->
    run T p (init G) = (v, s) ->
    m_mem s <= N.max (32 * N.sqrt (512 * G + 511)) U /\ m_gas s <= G.
Proof.
  intros T HT U G p v s Hp Hrun.
  apply (known_exception_memory_bound_lemma [opcode_ETX] T U G p v s); try assumption.
  pose proof jumptable_metered_except_known as H. rewrite forallb_forall in H. apply H. exact HT.
Qed.
Print Assumptions current_tree_memory_bound_partial.

(* ... and with ETX removed the tables ARE metered, so the main theorem applies to every
   program that does not execute ETX (the model of a repaired tree). *)
Definition without_op (op : N) (T : table) : table := filter (fun r => negb (r_op r =? op)) T.
Theorem tables_without_etx_metered :
  forallb (fun T => jumptable_metered (without_op opcode_ETX T)) fork_tables = true.
Proof. vm_compute. reflexivity. Qed.
Print Assumptions tables_without_etx_metered.

(* ---------- (A) hand-written length-prefixed parsers allocate proportionally ---------- *)

(* CompactSize: a successful read consumes at least one byte and leaves a suffix of the input *)
Theorem read_varint_consumes : forall b v r,
  read_varint b = Some (v, r) -> suffix r b /\ len r < len b.
Proof. exact read_varint_consumes_lemma. Qed.
Print Assumptions read_varint_consumes.

(* decode_alloc_linear for ExtractScriptSigFromCoinbaseTx: the returned scriptSig is a contiguous
   piece of the input behind 42 bytes of framing (or empty), hence what is allocated is <= |input| *)
Theorem script_sig_within_input : forall tx s,
  extract_script_sig tx = Some s -> infix s tx /\ len s + 42 <= len tx \/ s = [].
Proof. exact script_sig_within_input_lemma. Qed.
Print Assumptions script_sig_within_input.

Theorem decode_alloc_linear : forall tx, script_sig_alloc tx <= len tx.
Proof. exact script_sig_alloc_linear_lemma. Qed.
Print Assumptions decode_alloc_linear.

(* no length prefix is trusted beyond the remaining input *)
Theorem script_sig_refuses_overlong : forall tx c r1 n r3,
  read_varint (drop 4 tx) = Some (c, r1) ->
  read_varint (drop 36 r1) = Some (n, r3) ->
  len r3 < n -> extract_script_sig tx = None.
Proof. exact script_sig_refuses_overlong_lemma. Qed.
Print Assumptions script_sig_refuses_overlong.

(* the seal hash is 32 bytes taken from inside the scriptSig; the pipeline tx -> scriptSig -> seal
   hash allocates at most |tx| + 32 bytes *)
Theorem coinbase_pipeline_alloc_linear : forall tx s hsh,
  extract_script_sig tx = Some s -> extract_seal_hash s = Some hsh ->
  len s + len hsh <= len tx + 32 /\ infix hsh tx.
Proof. exact coinbase_pipeline_alloc_linear_lemma. Qed.
Print Assumptions coinbase_pipeline_alloc_linear.

(* ---------- totality of an instruction body: the RETURNDATACOPY window (Lib/C15_Window.v) ---------- *)

(* every window the bounds check lets through is the requested one and a valid slice of the return data
   (returnData[lo:hi] cannot panic), for ANY dataOffset, any uint64 length, any buffer length *)
Theorem rdc_window_in_bounds : forall off len ret lo hi,
  len < W64 ->
  rdc_window off len ret = Some (lo, hi) ->
  lo = off /\ hi = off + len /\ slice_ok ret lo hi = true.
Proof. exact rdc_window_in_bounds_lemma. Qed.
Print Assumptions rdc_window_in_bounds.

(* the check is exact: it refuses iff dataOffset + length exceeds len(returnData) *)
Theorem rdc_window_exact : forall off len ret,
  len < W64 -> ret < W64 ->
  rdc_window off len ret = if off + len <=? ret then Some (off, off + len) else None.
Proof. exact rdc_window_exact_lemma. Qed.
Print Assumptions rdc_window_exact.

(* the end of the window computed in machine words (offset64 + length64, no overflow term) is NOT a sound check:
   dataOffset = 2^64-1, length = 2 on 32 bytes of return data passes with the inverted window [2^64-1 : 1],
   which the 256-bit check refuses *)
Theorem rdc_window_u64_refuted :
  exists off len ret lo hi,
    off < W64 /\ len < W64 /\ ret < W64 /\
    rdc_window_u64 off len ret = Some (lo, hi) /\ slice_ok ret lo hi = false /\
    rdc_window off len ret = None.
Proof. exact rdc_window_u64_unsound_lemma. Qed.
Print Assumptions rdc_window_u64_refuted.

(* the full statement "for all 256-bit dataOffset, length" is FALSE for the body alone (the 256-bit sum wraps for
   length = 2^256-2^64+2); the hypothesis len < 2^64 above is discharged by the charge phase: *)
Theorem rdc_window_body_alone_refuted :
  exists off len ret lo hi,
    off < W256 /\ len < W256 /\ rdc_window off len ret = Some (lo, hi) /\ slice_ok ret lo hi = false.
Proof. exact rdc_window_body_alone_lemma. Qed.
Print Assumptions rdc_window_body_alone_refuted.

(* a row with a memorySize function whose size computation overflows (calcMemSize64: length not a uint64) never
   reaches operation.execute *)
Theorem overflowing_request_never_executes : forall T op r a s,
  lookup T op = Some r -> r_has_mem r = true -> a_req a = None -> fst (step T op a s) <> VOk.
Proof. exact overflowing_request_refused_lemma. Qed.
Print Assumptions overflowing_request_never_executes.

(* OBLIGATION on generated data: both fork tables have a RETURNDATACOPY row, with memorySize and dynamicGas *)
Theorem returndatacopy_guarded_by_charge_phase : forallb rdc_rows_guarded fork_tables = true.
Proof. vm_compute. reflexivity. Qed.
Print Assumptions returndatacopy_guarded_by_charge_phase.

(* ---------- non-vacuity ---------- *)

(* a metered table with memory opcodes exists (the generated one minus ETX) and a real program
   grows memory under it: PUSH, PUSH, MSTORE at offset 1 MiB with 3,000,000 gas *)
Example metered_memory_bound_nonvacuous :
  jumptable_metered (without_op opcode_ETX table_postfork) = true /\
  run (without_op opcode_ETX table_postfork)
      [(96, mkA 0 3 None None); (96, mkA 1 3 None None); (opcode_MSTORE, mkA 2 3 (Some 1048608) (Some 0))]
      (init 3000000)
  = (VOk, mkM 804404 1048608 2195587).
Proof. split; vm_compute; reflexivity. Qed.

(* the same request with too little gas is refused and memory stays empty *)
Example metered_oog_nonvacuous :
  run (without_op opcode_ETX table_postfork) [(opcode_MSTORE, mkA 2 3 (Some 1048608) (Some 0))] (init 2000000)
  = (VOutOfGas, mkM 1999997 0 2195587).
Proof. vm_compute. reflexivity. Qed.

(* frames: a CALL that expands memory and hands 1000 gas to a child which expands its own memory *)
Example frames_memory_bound_nonvacuous :
  frun (without_op opcode_ETX table_postfork)
       [FCall 241 (mkA 7 100 (Some 64) (Some 1000)) 1000 0; FStep opcode_MSTORE (mkA 2 3 (Some 320) (Some 0)); FRet 900]
       [init 100000]
  = Some [mkM 99794 64 6].
Proof. vm_compute. reflexivity. Qed.

(* the partial bound's hypothesis is met by a program that uses ETX with a small request *)
Example current_tree_partial_nonvacuous :
  ex_req_bounded [opcode_ETX] 64 [(opcode_ETX, mkA 10 ETXGas (Some 40) None); (opcode_MSTORE, mkA 2 3 (Some 96) (Some 0))] = true /\
  run table_postfork [(opcode_ETX, mkA 10 ETXGas (Some 40) None); (opcode_MSTORE, mkA 2 3 (Some 96) (Some 0))] (init 30000)
  = (VOk, mkM 8988 96 9).
Proof. split; vm_compute; reflexivity. Qed.

(* a coinbase whose scriptSig length prefix (0xfd 0xff 0xff = 65535) exceeds the 3 remaining bytes is refused;
   a well-formed one yields its scriptSig *)
Example script_sig_nonvacuous :
  extract_script_sig (repeat 0 4 ++ [1] ++ repeat 0 36 ++ [253; 255; 255] ++ [1; 2; 3]) = None /\
  extract_script_sig (repeat 0 4 ++ [1] ++ repeat 0 36 ++ [3] ++ [7; 8; 9] ++ [255; 255]) = Some [7; 8; 9].
Proof. split; vm_compute; reflexivity. Qed.

(* a window inside the return data is granted, one byte beyond it is refused *)
Example rdc_window_nonvacuous :
  rdc_window 4 28 32 = Some (4, 32) /\ rdc_window 4 29 32 = None /\ rdc_window (W64 - 1) 2 32 = None.
Proof. repeat split; vm_compute; reflexivity. Qed.

(* ---------- (A) the decoder inventory (extension round) ----------
   Generated/C15Decoders.v `decoders` is read from the source tree on every run: every method ProtoDecode /
   UnmarshalJSON / UnmarshalText / DecodeRLP / UnmarshalBinary / Deserialize on a named type.  Each run of the
   harness reports, as the correspondence case mkInv, which of them its sweep exercised (an entry counts only when
   one of its valid fixtures decoded to the end in that run); case_ok = inv_ok. *)
From GQ Require Import Generated.C15Decoders Proofs.C15_Inv.

(* what a passing inventory case means, for ALL reported lists: every decoder defined in the source was exercised
   or is an exemption of the model, and the harness exempts exactly the model's exemptions *)
Theorem decoder_inventory_check_sound : forall swept exempt,
  inv_ok swept exempt = true ->
  (forall d, In d decoders -> In d swept \/ In d decoders_exempt) /\
  (forall d, In d exempt <-> In d decoders_exempt).
Proof. exact inv_ok_sound. Qed.
Print Assumptions decoder_inventory_check_sound.

(* and one decoder of the source that is neither swept nor exempted fails the case, whatever else is reported *)
Theorem decoder_inventory_check_complete : forall swept exempt d,
  In d decoders -> ~ In d swept -> ~ In d decoders_exempt -> inv_ok swept exempt = false.
Proof. exact inv_ok_complete. Qed.
Print Assumptions decoder_inventory_check_complete.

(* OBLIGATION on generated data: every exemption names a decoder that exists in the source (a renamed or removed
   decoder must be reviewed, an exemption cannot silently cover a future decoder of another name) *)
Theorem decoder_exemptions_are_real : str_incl decoders_exempt decoders = true.
Proof. exact exemptions_are_real. Qed.
Print Assumptions decoder_exemptions_are_real.

(* OBLIGATION on generated data: outside the exemptions, decoders are defined only in the packages the sweep links
   and feeds (common, common/hexutil, common/math, core/types, quai/filters, rpc): a decoder added to any other
   package breaks this without touching any .v *)
Theorem decoders_in_scope_or_exempt :
  forallb (fun d => in_scope d || str_mem d decoders_exempt) decoders = true.
Proof. exact Proofs.C15_Inv.decoders_in_scope_or_exempt. Qed.
Print Assumptions decoders_in_scope_or_exempt.

(* the check distinguishes: everything swept passes, nothing swept fails, one decoder short fails *)
Example decoder_inventory_nonvacuous :
  inv_ok decoders decoders_exempt = true /\ inv_ok [] decoders_exempt = false /\
  inv_ok (tl decoders) decoders_exempt = false /\ inv_ok decoders [] = false.
Proof. repeat split; vm_compute; reflexivity. Qed.

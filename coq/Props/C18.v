(* C18 -- A trie's root depends only on its contents, and proofs prove exactly them.
   Property theorems only: each is closed by [exact <lemma>] and followed by [Print Assumptions].
   Model: Model/C18.v   Lemmas: Proofs/C18_*.v

   Vocabulary.  Keys inside the trie are HEX keys (encoding.go:keybytesToHex): nibbles and the
   terminator 16.  [pf t key]: key is neither a strict prefix nor a strict extension of a key stored
   in t; [tk key]: symbols are nibbles except possibly a final terminator; [okdom t]: every stored
   key satisfies tk.  All three hold for keybytesToHex images ([Inv]).  [wf]: canonical form (no
   empty short key, no short node or nil under a short node, full nodes have 17 slots with >= 2
   occupied, no empty value).  None = Go panic. *)
From Coq Require Import List NArith Bool Arith.
From GQ Require Import Lib.Key Model.C18 Proofs.C18_Base Proofs.C18_Ext Proofs.C18_Insert
  Proofs.C18_Delete Proofs.C18_History Proofs.C18_Merkle Proofs.C18_Derive Proofs.C18_Main
  Proofs.C18_Copy Proofs.C18_Range Proofs.C18_Db Proofs.C18_Stack Proofs.C18_StackMain.
Import ListNotations.

(* (1) trie.go:insert never panics, keeps the canonical form, stores the value and leaves every
   other key (of the whole HEX key space) untouched. *)
Theorem lookup_insert : forall t key v,
  wf t = true -> okdom t -> pf t key -> tk key -> v <> [] ->
  exists t', insert t key (Val v) = Some t' /\ wf t' = true /\
    forall q, lookup t' q = if keqb q key then Some v else lookup t q.
Proof. exact insert_spec. Qed.
Print Assumptions lookup_insert.

(* (2) trie.go:delete never panics, re-establishes the canonical form (node collapse), removes the
   key and nothing else; "not dirty" means the very same tree. *)
Theorem lookup_delete : forall t key,
  wf t = true -> okdom t -> pf t key -> tk key ->
  exists d t', delete t key = Some (d, t') /\ wf t' = true /\
    (forall q, lookup t' q = if keqb q key then None else lookup t q) /\
    (d = false -> t' = t).
Proof. exact delete_spec. Qed.
Print Assumptions lookup_delete.

(* TryUpdate / TryDelete / TryGet on byte keys: the invariant is kept, the trie is a total map,
   an empty value deletes. *)
Theorem update_refines_map : forall t k v, Inv t -> wf_bytes k ->
  exists t', update t k v = Some t' /\ Inv t' /\ forall k', get t' k' = if keqb k' k then v else get t k'.
Proof. exact update_spec. Qed.
Print Assumptions update_refines_map.

(* every history from the empty trie runs without panic, ends in a canonical trie whose content is
   "last write wins, empty value = absent" *)
Theorem history_refines_map : forall h, wf_hist h ->
  exists t, run Nil h = Some t /\ Inv t /\ forall k, get t k = apply_hist (fun _ => []) h k.
Proof. exact history_spec. Qed.
Print Assumptions history_refines_map.

Theorem reachable_tries_are_canonical : forall t, Inv t ->
  wf t = true /\ (forall q v, lookup t q = Some v -> v <> [] /\ exists k, wf_bytes k /\ q = hex k).
Proof. exact inv_facts. Qed.
Print Assumptions reachable_tries_are_canonical.

(* (3) the heart: canonical tries are determined by their lookup function ... *)
Theorem wf_extensional : forall a b,
  wf a = true -> wf b = true -> (forall q, lookup a q = lookup b q) -> a = b.
Proof. exact wf_extensional_lemma. Qed.
Print Assumptions wf_extensional.

Theorem content_determines_tree : forall t1 t2, Inv t1 -> Inv t2 ->
  (forall k, wf_bytes k -> get t1 k = get t2 k) -> t1 = t2.
Proof. exact C18_History.content_determines_tree. Qed.
Print Assumptions content_determines_tree.

(* ... hence two histories (inserts, updates, deletes, empty values) with the same final content
   build the same node tree, so the same root for ANY function of the tree, in particular for the
   Merkle root under any hash function and any embedding rule. *)
Theorem root_history_independent : forall h1 h2, wf_hist h1 -> wf_hist h2 ->
  (forall k, wf_bytes k -> apply_hist (fun _ => []) h1 k = apply_hist (fun _ => []) h2 k) ->
  exists t1 t2, run Nil h1 = Some t1 /\ run Nil h2 = Some t2 /\ t1 = t2 /\
    forall (A : Type) (root : node -> A), root t1 = root t2.
Proof. exact history_independent_any_root. Qed.
Print Assumptions root_history_independent.

Theorem merkle_root_history_independent : forall (H : pnode -> N) (small : pnode -> bool) h1 h2,
  wf_hist h1 -> wf_hist h2 ->
  (forall k, wf_bytes k -> apply_hist (fun _ => []) h1 k = apply_hist (fun _ => []) h2 k) ->
  exists t1 t2, run Nil h1 = Some t1 /\ run Nil h2 = Some t2 /\
    root_hash H small t1 = root_hash H small t2.
Proof. exact history_independent_merkle_root. Qed.
Print Assumptions merkle_root_history_independent.

(* (4) VerifyProof against the root: whatever the proof database, a successful verification returns
   exactly the trie's answer for the key (the value, or None = proven absent), or H collides. *)
Theorem proof_sound : forall (H : pnode -> N) (small : pnode -> bool) t k db fuel r,
  Inv t -> wf_bytes k ->
  verify H fuel (root_hash H small t) (hex k) db = Some r ->
  r = lookup t (hex k) \/ collision H.
Proof. exact proof_sound_lemma. Qed.
Print Assumptions proof_sound.

(* the proof produced by Prove verifies (presence and absence), for every non-empty trie.
   Full statement without [t <> Nil] is refuted by the model and by the code (next theorem). *)
Theorem proof_complete_partial : forall (H : pnode -> N) (small : pnode -> bool) t k fuel,
  Inv t -> t <> Nil -> wf_bytes k -> length (hex k) < fuel ->
  verify H fuel (root_hash H small t) (hex k) (prove H small t (hex k) true) = Some (lookup t (hex k))
  \/ collision H.
Proof. exact proof_complete_lemma. Qed.
Print Assumptions proof_complete_partial.

(* F-C18-1: on the empty trie Prove emits nothing and VerifyProof rejects the (empty) proof
   instead of proving absence; replayed on the real code by the corpus case "empty". *)
Theorem proof_complete_empty_trie_refuted : forall (H : pnode -> N) (small : pnode -> bool) k fuel,
  prove H small Nil (hex k) true = [] /\
  verify H fuel (root_hash H small Nil) (hex k) (prove H small Nil (hex k) true) = None.
Proof. exact proof_empty_trie_refuted. Qed.
Print Assumptions proof_complete_empty_trie_refuted.

(* (5) DeriveSha feeds every index exactly once; the keys rlp(i) are pairwise distinct for all
   uint64 indices; and they come in strictly ascending byte order (what StackTrie needs).
   Full statement of the last one: for all n < 2^64; proved here by computation for n <= asc_bound. *)
Theorem derive_sha_order_each_index_once : forall n,
  NoDup (derive_order n) /\ forall i, In i (derive_order n) <-> (i < n)%N.
Proof. exact derive_order_once. Qed.
Print Assumptions derive_sha_order_each_index_once.

Theorem derive_sha_keys_distinct : forall n, (n <= 256 ^ 8)%N -> NoDup (map rlp_uint (derive_order n)).
Proof. exact derive_keys_distinct_lemma. Qed.
Print Assumptions derive_sha_keys_distinct.

Theorem derive_sha_keys_ascending_partial : forall n, (n <= asc_bound)%N ->
  ascb (map rlp_uint (derive_order n)) = true.
Proof. exact derive_keys_ascending_lemma. Qed.
Print Assumptions derive_sha_keys_ascending_partial.

(* the correspondence check compares trees with node_eqb: passing means equal *)
Theorem dump_check_is_equality : forall a b, node_eqb a b = true <-> a = b.
Proof. exact node_eqb_eq. Qed.
Print Assumptions dump_check_is_equality.

(* (6) copies (SecureTrie.Copy / CopyTrie / StateDB.Copy): several handles on one trie.  [mrun]
   runs a history whose operations each address one handle; [MCopy h] adds a handle.
   Operations that do not address handle h leave it exactly as it was ... *)
Theorem copy_untouched_is_unchanged : forall ops hs hs' h,
  mrun hs ops = Some hs' -> forallb (fun o => negb (addresses h o)) ops = true -> h < length hs ->
  nth_error hs' h = nth_error hs h.
Proof. exact mrun_untouched. Qed.
Print Assumptions copy_untouched_is_unchanged.

(* ... no operation on any handle panics and every handle stays a reachable canonical trie ... *)
Theorem copies_never_panic : forall ops hs,
  Forall Inv hs -> wf_mops ops -> in_range (length hs) ops = true ->
  exists hs', mrun hs ops = Some hs' /\ Forall Inv hs'.
Proof. exact mrun_no_panic. Qed.
Print Assumptions copies_never_panic.

(* ... each handle (the original and every copy) is the result of its own linear history [mhist]:
   the writes made through it and, up to the copy, through its source; its content is that
   history's "last write wins" and nothing written through another handle shows ... *)
Theorem handle_refines_its_own_history : forall ops ts h t,
  wf_mops ops -> mrun [Nil] ops = Some ts -> nth_error ts h = Some t ->
  exists x, nth_error (mhist [[]] ops) h = Some x /\ wf_hist x /\ run Nil x = Some t /\ Inv t /\
    forall k, get t k = apply_hist (fun _ => []) x k.
Proof. exact handle_own_history. Qed.
Print Assumptions handle_refines_its_own_history.

(* ... and its node tree -- hence its root under any hash -- is that of a fresh trie built by ANY
   history with the same content (what the harness compares Hash() of every handle with). *)
Theorem handle_is_fresh_trie_of_its_content : forall ops ts h t y,
  wf_mops ops -> mrun [Nil] ops = Some ts -> nth_error ts h = Some t -> wf_hist y ->
  (forall k, wf_bytes k -> get t k = apply_hist (fun _ => []) y k) ->
  run Nil y = Some t.
Proof. exact handle_is_fresh_trie. Qed.
Print Assumptions handle_is_fresh_trie_of_its_content.

(* ---------- non-vacuity ---------- *)
(* the shape of the seeded change C18_1: two keys under an extension, a copy, the original deletes
   one of them (branch collapses, extension and leaf merge): the copy still is the two-key trie *)
(* (7) range proofs (proof.go:VerifyRangeProof).  [strict_inc] is the verifier's monotonicity guard,
   [range_ok t ps]: the list passed the guard and replaying it onto the trie changes nothing (the
   root still matches).  Then every listed pair is held by the trie -- "no proof verifies for a
   different value" for lists.  The correspondence check evaluates range_ok on every list the real
   verifier accepted. *)
Theorem range_guard_is_strict_order : forall ks,
  strict_inc ks = true <-> Sorted.StronglySorted (fun a b => kltb a b = true) ks.
Proof. intros ks; split; [apply strict_inc_sorted|apply sorted_strict_inc]. Qed.
Print Assumptions range_guard_is_strict_order.

Theorem range_guard_excludes_repeated_keys : forall ks, strict_inc ks = true -> NoDup ks.
Proof. exact strict_inc_nodup. Qed.
Print Assumptions range_guard_excludes_repeated_keys.

Theorem range_strict_pairs_are_stored : forall t ps, Inv t -> wf_hist ps -> range_ok t ps = true ->
  forall k v, In (k, v) ps -> get t k = v.
Proof. exact range_pairs_stored. Qed.
Print Assumptions range_strict_pairs_are_stored.

(* the same statement with a NON-strict guard (sorted, equal neighbours allowed) is false: a foreign
   pair (k, bogus) right before the honest (k, stored) is overwritten during the replay.  The
   witness is replayed on the real verifier by the harness corpus (shape dup-adjacent-bogus-before),
   which must reject it. *)
Theorem range_nonstrict_refuted :
  exists t ps, Inv t /\ wf_hist ps /\
    Sorted.Sorted (fun a b => kleb a b = true) (map fst ps) /\
    (match run t ps with Some t' => node_eqb t' t | None => false end) = true /\
    exists k v, In (k, v) ps /\ get t k <> v.
Proof. exact range_nonstrict_witness. Qed.
Print Assumptions range_nonstrict_refuted.

(* (8) trie.Database (database.go) at the granularity of roots held from the meta root: a root
   stays openable (memory layer or disk) while its number of holders is positive, for every history
   of Trie.Commit / Reference(root, {}) / Dereference(root) / Database.Commit(root) / Cap(0) /
   reopening the database -- in particular when different histories commit the SAME root and each
   of them holds it. *)
Theorem held_root_stays_openable : forall ops r,
  0 < hold (db_run true ops db0) r -> db_openable (db_run true ops db0) r = true.
Proof. exact db_held_openable. Qed.
Print Assumptions held_root_stays_openable.

Theorem persisted_root_stays_openable : forall rd ops s r,
  disk s r = true -> db_openable (db_run rd ops s) r = true.
Proof. exact db_persisted_stays. Qed.
Print Assumptions persisted_root_stays_openable.

(* [hold] is the callers' count: +1 per Reference of an openable root, -1 per Dereference *)
Theorem holders_are_references_minus_dereferences : forall rd s r,
  (db_openable s r = true -> hold (db_ref rd s r) r = S (hold s r)) /\
  hold (db_deref s r) r = hold s r - 1.
Proof. intros rd s r. split; [apply db_hold_ref|apply db_hold_deref]. Qed.
Print Assumptions holders_are_references_minus_dereferences.

(* the exemption that lets the meta root reference one root several times is what the theorem rests
   on: without it, two holders of the same root and one release lose the root *)
Theorem meta_root_exemption_is_needed :
  let ops := [DIns 0; DRef 0; DIns 0; DRef 0; DDeref 0] in
  hold (db_run false ops db0) 0 = 1 /\ db_openable (db_run false ops db0) 0 = false /\
  hold (db_run true ops db0) 0 = 1 /\ db_openable (db_run true ops db0) 0 = true.
Proof. exact db_root_exemption_needed. Qed.
Print Assumptions meta_root_exemption_is_needed.

Example range_nonvacuous :
  let t := match run Nil [([18;52], [1]); ([18;53], [2]); ([19;0], [3])]%N with Some t => t | None => Nil end in
  range_ok t [([18;52], [1]); ([18;53], [2])]%N = true /\
  range_ok t [([18;52], [1]); ([18;53], [9]); ([18;53], [2])]%N = false /\
  range_ok t [([18;53], [2]); ([18;52], [1])]%N = false /\
  range_ok t [([18;52], [1]); ([18;53], [7])]%N = false.
Proof. vm_compute. repeat split; reflexivity. Qed.

Example db_nonvacuous :
  let s := db_run true [DIns 0; DRef 0; DIns 1; DRef 1; DDeref 0; DIns 1; DRef 1; DDeref 1; DFlush 1; DDeref 1; DReopen] db0 in
  db_openable s 0 = false /\ db_openable s 1 = true /\ hold s 1 = 0 /\
  db_crun db0 [DIns 0; DRef 0; DIns 0; DRef 0; DDeref 0; DObs 0 true; DDeref 0; DObs 0 false] = true /\
  db_crun db0 [DIns 0; DRef 0; DIns 0; DRef 0; DDeref 0; DObs 0 true; DDeref 0; DObs 0 false] = true /\
  db_crun db0 [DIns 0; DRef 0; DIns 0; DRef 0; DDeref 0; DObs 0 false] = false.
Proof. vm_compute. repeat split; reflexivity. Qed.

Example copy_nonvacuous :
  let ops := [MUpd 0 [18;52] [1]; MUpd 0 [21;103] [2]; MCopy 0; MUpd 0 [21;103] []; MUpd 1 [18;52] []]%N in
  wf_mops ops /\ in_range 1 ops = true /\
  mrun [Nil] ops = Some [Short [1;2;3;4;16]%N (Val [1%N]); Short [1;5;6;7;16]%N (Val [2%N])] /\
  mhist [[]] ops = [[([18;52], [1]); ([21;103], [2]); ([21;103], [])];
                    [([18;52], [1]); ([21;103], [2]); ([18;52], [])]]%N /\
  mrun [Nil] (firstn 4 ops) = Some [Short [1;2;3;4;16]%N (Val [1%N]);
     Short [1%N] (Full [Nil; Nil; Short [3;4;16]%N (Val [1%N]); Nil; Nil; Short [6;7;16]%N (Val [2%N]);
                        Nil; Nil; Nil; Nil; Nil; Nil; Nil; Nil; Nil; Nil; Nil])].
Proof.
  split; [repeat constructor; vm_compute; reflexivity|].
  vm_compute. repeat split; reflexivity.
Qed.

(* keys that are prefixes of each other ([1] and [1;2]): the value slot of a full node is used, and
   deleting [1;2] collapses the full node back into a single leaf *)
Example trie_nonvacuous :
  run Nil [([1], [7]); ([1;2], [8]); ([1;3], [9])]%N
  = Some (Short [0;1]%N
      (Full [Full [Nil; Nil; Short [16%N] (Val [8%N]); Short [16%N] (Val [9%N]); Nil; Nil; Nil; Nil;
                   Nil; Nil; Nil; Nil; Nil; Nil; Nil; Nil; Nil];
             Nil; Nil; Nil; Nil; Nil; Nil; Nil; Nil; Nil; Nil; Nil; Nil; Nil; Nil; Nil; Val [7%N]])).
Proof. vm_compute. reflexivity. Qed.

Example collapse_nonvacuous :
  run Nil [([1], [7]); ([1;2], [8]); ([1;2], [])]%N = Some (Short [0;1;16]%N (Val [7%N]))
  /\ run Nil [([1;2], [8]); ([1], [7]); ([1;2], [])]%N = run Nil [([1], [7])]%N.
Proof. vm_compute. split; reflexivity. Qed.

Example history_nonvacuous :
  wf_hist [([18;52], [1]); ([18;53], [2]); ([19;0], [3]); ([19;0], [])]%N /\
  run Nil [([18;52], [1]); ([18;53], [2]); ([19;0], [3]); ([19;0], [])]%N
  = run Nil [([18;53], [2]); ([18;52], [1])]%N.
Proof.
  split; [repeat constructor; vm_compute; reflexivity|vm_compute; reflexivity].
Qed.

(* a proof through a hashed child: with H = a toy injective-looking function and nothing embedded *)
Example proof_nonvacuous :
  let H := fun p : pnode => match p with PShort k _ => 1 + N.of_nat (length k) | PFull _ => 100 | _ => 0 end%N in
  let t := match run Nil [([18;52], [1]); ([35;0], [2])]%N with Some t => t | None => Nil end in
  verify H 10 (root_hash H (fun _ => false) t) (hex [18;52]%N) (prove H (fun _ => false) t (hex [18;52]%N) true)
  = Some (Some [1%N]) /\
  length (prove H (fun _ => false) t (hex [18;52]%N) true) = 2.
Proof. vm_compute. split; reflexivity. Qed.

Example derive_order_nonvacuous :
  derive_order 130 = (nrange 1 127 ++ [0] ++ [128; 129])%N /\
  map rlp_uint [127; 0; 128; 256]%N = [[127]; [128]; [129; 128]; [130; 1; 0]]%N.
Proof. vm_compute. split; reflexivity. Qed.

(* ================= extension round: StackTrie (trie/stacktrie.go) =================
   [snode]/[st_insert]/[st_run] model the streaming hasher behind DeriveSha; [to_node s] is the trie a
   StackTrie s stands for (hashed subtrees are kept as ghosts); [on_spine s last]: the key inserted
   last runs along the rightmost path of s, nothing on it is hashed and no branch on it has a child
   right of it; [div_lt a b]: a < b in bytes.Compare order and neither is a prefix of the other;
   [chain_div ks]: consecutive keys of ks satisfy div_lt; [nib k]: k consists of nibbles;
   [okkv]: the key is a byte string and the value is not empty. *)

(* (29) one StackTrie insertion that does not panic is exactly one trie.go:insert on the trie it stands
   for -- for every StackTrie state and every key, in whatever order the keys come. *)
Theorem stacktrie_insert_refines_trie_insert : forall v s key s',
  st_insert s key v = Some s' ->
  insert (to_node s) (key ++ [16%N]) (Val v) = Some (to_node s').
Proof. exact st_insert_sim. Qed.
Print Assumptions stacktrie_insert_refines_trie_insert.

(* (30) a key that diverges upwards from the key inserted last never panics (never reaches a hashed
   node, an existing key or an index out of range) and re-establishes the spine invariant. *)
Theorem stacktrie_ascending_insert_never_panics : forall v s last, on_spine s last ->
  forall key, div_lt last key = true -> nib last -> nib key ->
  exists s', st_insert s key v = Some s' /\ on_spine s' key.
Proof. exact st_insert_ascending. Qed.
Print Assumptions stacktrie_ascending_insert_never_panics.

(* (31) for EVERY ascending prefix-free list of any length: the StackTrie runs without panic and stands
   for exactly the tree trie.Trie builds from the same list. *)
Theorem stacktrie_equals_trie_on_ascending_lists : forall l,
  Forall okkv l -> chain_div (map fst l) = true ->
  exists s, st_run SE l = Some s /\ run Nil l = Some (to_node s).
Proof. exact stack_equals_trie_lemma. Qed.
Print Assumptions stacktrie_equals_trie_on_ascending_lists.

(* (32) ... and for the tree ANY history with the same final content builds (inserts in another order,
   overwrites, deletes): same tree, same root under every hash function. *)
Theorem stacktrie_agrees_with_any_history : forall l h,
  Forall okkv l -> chain_div (map fst l) = true -> wf_hist h ->
  (forall k, wf_bytes k -> apply_hist (fun _ => []) l k = apply_hist (fun _ => []) h k) ->
  exists s t, st_run SE l = Some s /\ run Nil h = Some t /\ to_node s = t /\
    forall (A : Type) (root : node -> A), root (to_node s) = root t.
Proof. exact stack_vs_any_history. Qed.
Print Assumptions stacktrie_agrees_with_any_history.

(* (33) the order matters: returning to a subtree that was left, a repeated key and a key that extends
   another one panic (replayed on the real StackTrie by the corpus cases return-to-hashed,
   repeated-key, extension-of-key). *)
Theorem stacktrie_unordered_refuted :
  st_run SE [([16], [1]); ([32], [1]); ([17], [2])]%N = None /\
  st_run SE [([1], [1]); ([1], [2])]%N = None /\
  st_run SE [([1], [1]); ([1; 0], [2])]%N = None.
Proof. exact stack_order_needed. Qed.
Print Assumptions stacktrie_unordered_refuted.

(* (34) DeriveSha through the StackTrie = DeriveSha through the full trie, for every list of non-empty
   items.  Full statement: all n < 2^64; the ascending order of the rlp(i) keys is discharged by
   computation for n <= asc_bound (see derive_sha_keys_ascending_partial), everything else is general. *)
Theorem derive_sha_stacktrie_equals_trie_partial : forall (item : N -> list N) n,
  (n <= asc_bound)%N -> (forall i, (i < n)%N -> item i <> []) ->
  exists s, st_run SE (derive_list item n) = Some s /\
            run Nil (derive_list item n) = Some (to_node s).
Proof. exact derive_stack_lemma. Qed.
Print Assumptions derive_sha_stacktrie_equals_trie_partial.

(* three ascending keys: leaf split under a common nibble, then a new branch child; the first two
   subtrees are hashed by then *)
Example stacktrie_nonvacuous :
  Forall okkv [([18], [1]); ([19], [2]); ([32], [3])]%N /\
  chain_div [[18]; [19]; [32]]%N = true /\
  st_run SE [([18], [1]); ([19], [2]); ([32], [3])]%N
  = Some (SB [SE; SH (Full [Nil; Nil; Short [16%N] (Val [1%N]); Short [16%N] (Val [2%N]);
                            Nil; Nil; Nil; Nil; Nil; Nil; Nil; Nil; Nil; Nil; Nil; Nil; Nil]);
              SL [0%N] [3%N]; SE; SE; SE; SE; SE; SE; SE; SE; SE; SE; SE; SE; SE]).
Proof.
  split; [|split; vm_compute; reflexivity].
  repeat constructor; cbn; try discriminate; vm_compute; reflexivity.
Qed.

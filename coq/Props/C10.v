(* C10 — Reorganisation leaves exactly the state of the winning branch.
   Property theorems only: each is closed by [exact <lemma>] and followed by
   [Print Assumptions].  Model: Model/C10.v  Lemmas: Proofs/C10.v *)
From Coq Require Import List NArith Bool.
From GQ Require Import Lib.Key Lib.SMap Generated.C10Params Model.C10 Model.C10_Undo Proofs.C10 Proofs.C10_Undo.
Import ListNotations.
Local Open Scope N_scope.

(* The order of the database calls in the rollback loop of SetCurrentHeader, the key lengths
   and the set of undo records written by Process/Finalize are what the model assumes
   (data regenerated from the source on every run). *)
Theorem rollback_order_as_modelled : rollback_order_ok = true.
Proof. vm_compute. reflexivity. Qed.
Print Assumptions rollback_order_as_modelled.

(* Each of the four write loops of the rollback (re-create spent/trimmed, delete created keys,
   restore deleted lockups, delete created lockups) performs its write on EVERY record: no guard,
   no continue/break (AST of the source, regenerated on every run). *)
Theorem rollback_writes_unconditional_as_modelled : rollback_writes_ok = true.
Proof. vm_compute. reflexivity. Qed.
Print Assumptions rollback_writes_unconditional_as_modelled.

Theorem key_lengths_as_modelled : key_lengths_ok = true.
Proof. vm_compute. reflexivity. Qed.
Print Assumptions key_lengths_as_modelled.

Theorem undo_records_all_written : undo_records_written = true.
Proof. vm_compute. reflexivity. Qed.
Print Assumptions undo_records_all_written.

(* One block: rolling back (SetCurrentHeader's batch) what was just appended restores the Qi
   outputs, the lockup records, the canonical map and the head EXACTLY (Leibniz equality of the
   whole state), provided the undo log is well formed w.r.t. the state before the block. *)
Theorem rollback_apply_id : forall {L} (d : db L) (e : effect L),
  db_ok d -> wf_effect d e -> rollback (apply d e) e = d.
Proof. intros L. exact (@rollback_apply_id_lemma L). Qed.
Print Assumptions rollback_apply_id.

(* A whole branch, any length, rolled back tip first. *)
Theorem rollback_branch_restores_ancestor : forall {L} (es : list (effect L)) (d : db L),
  db_ok d -> wf_branch d es -> rollback_all (apply_all d es) (rev es) = d.
Proof. intros L. exact (@rollback_branch_id L). Qed.
Print Assumptions rollback_branch_restores_ancestor.

(* Switching from branch A to branch B = following B from the common ancestor on a node that
   never saw A: same outputs, lockups, canonical map, head. Any branch lengths. *)
Theorem reorg_equals_direct : forall {L} (anc : db L) (A B : list (effect L)),
  db_ok anc -> wf_branch anc A -> reorg (apply_all anc A) (rev A) B = apply_all anc B.
Proof. intros L. exact (@reorg_equals_direct_lemma L). Qed.
Print Assumptions reorg_equals_direct.

(* The same when the effects of the re-appended blocks are whatever re-execution produces on the
   state it finds (any deterministic [process]): the reorganised node and the fresh node execute
   the blocks of B on identical states. *)
Theorem reorg_reexecution_equals_direct : forall {L} (block : Type) (process : db L -> block -> effect L)
  (anc : db L) (A B : list block),
  db_ok anc -> wf_branch anc (effects_of block process anc A) ->
  run block process (rollback_all (run block process anc A) (rev (effects_of block process anc A))) B
  = run block process anc B.
Proof. intros L. exact (@reorg_reexecution_lemma L). Qed.
Print Assumptions reorg_reexecution_equals_direct.

(* Switching back gives the original state. *)
Theorem reorg_back_restores : forall {L} (anc : db L) (A B : list (effect L)),
  db_ok anc -> wf_branch anc A -> wf_branch anc B ->
  reorg (reorg (apply_all anc A) (rev A) B) (rev B) A = apply_all anc A.
Proof. intros L. exact (@reorg_back_restores_lemma L). Qed.
Print Assumptions reorg_back_restores.

(* Nothing created only on the abandoned branch is present afterwards: an outpoint absent at the
   common ancestor and not created on the winning branch is absent after the switch. *)
Theorem abandoned_outputs_unspendable : forall {L} (anc : db L) (A B : list (effect L)) k,
  db_ok anc -> wf_branch anc A ->
  get k (utxo anc) = None -> (forall e, In e B -> ~ In k (map fst (e_created e))) ->
  get k (utxo (reorg (apply_all anc A) (rev A) B)) = None.
Proof. intros L. exact (@abandoned_lemma L). Qed.
Print Assumptions abandoned_outputs_unspendable.

(* Nothing the abandoned branch spent (or trimmed) stays missing: an outpoint the winning branch
   neither creates nor spends nor trims has exactly its ancestor value. *)
Theorem nothing_spent_stays_missing : forall {L} (anc : db L) (A B : list (effect L)) k,
  db_ok anc -> wf_branch anc A ->
  (forall e, In e B -> ~ In k (map fst (e_created e)) /\ ~ In k (map fst (e_spent e ++ e_trimmed e))) ->
  get k (utxo (reorg (apply_all anc A) (rev A) B)) = get k (utxo anc).
Proof. intros L. exact (@spent_restored_lemma L). Qed.
Print Assumptions nothing_spent_stays_missing.

Theorem lockup_records_follow_winning_branch : forall {L} (anc : db L) (A B : list (effect L)) k,
  db_ok anc -> wf_branch anc A ->
  (forall e, In e B -> ~ In k (map fst (e_lk_writes e))) ->
  get k (lockups (reorg (apply_all anc A) (rev A) B)) = get k (lockups anc).
Proof. intros L. exact (@lockups_follow_lemma L). Qed.
Print Assumptions lockup_records_follow_winning_branch.

(* Canonical number->hash mapping and head pointer of a (well-formed) branch: every block of the
   branch is canonical at its number, other numbers are as at the ancestor (in particular the
   entries of a longer abandoned branch are gone, by reorg_equals_direct), head = tip. *)
Theorem canonical_map_and_head_of_branch : forall {L} (es : list (effect L)) (d : db L),
  db_ok d -> wf_branch d es ->
  (forall e, In e es -> get (nkey (e_num e)) (canon (apply_all d es)) = Some (e_hash e)) /\
  (forall n, (forall e, In e es -> e_num e <> n) -> get (nkey n) (canon (apply_all d es)) = get (nkey n) (canon d)) /\
  head (apply_all d es) = last (map (@e_hash L) es) (head d).
Proof. intros L. exact (@canon_branch L). Qed.
Print Assumptions canonical_map_and_head_of_branch.

(* What the correspondence check evaluates on every real reorganisation (booleans over the real
   undo records and scans) is sufficient for the theorems above. *)
Theorem checked_wf_implies_exact : forall (anc : db val) (A B : list (effect val)),
  db_sortedb anc = true -> wf_branchb keqb anc A = true ->
  reorg (apply_all anc A) (rev A) B = apply_all anc B.
Proof.
  intros anc A B Hs Hw. apply reorg_equals_direct_lemma.
  - apply db_sortedb_ok; exact Hs.
  - apply (wf_branchb_sound keqb keqb_eq); exact Hw.
Qed.
Print Assumptions checked_wf_implies_exact.

(* A correspondence case that passes the check with a well-formed undo log is an instance of
   reorg_equals_direct: the real scan after the real SetCurrentHeader is exactly the state of
   following the winning branch from the (oracle) image of the common ancestor. *)
Theorem checked_case_exact : forall id anc olds news pre post wn,
  case_ok (CReorg id anc olds news pre post true wn) = true -> post = apply_all anc news.
Proof. exact checked_case_exact_lemma. Qed.
Print Assumptions checked_case_exact.

(* Necessity: an undo log that is well formed in every respect EXCEPT that a lockup restore
   record does not carry the bytes that were there (the shape produced by AddNewLock when an
   update changes the delegate) is not inverted by the rollback. *)
Theorem lockup_restore_record_must_carry_previous_bytes_refuted :
  exists (d : db val) (e : effect val),
    db_ok d /\ wf_utxo d e /\ wf_chain d e /\
    (forall k, In k (e_lk_created e) -> get k (lockups d) = None) /\
    (forall k w, In (k, w) (e_lk_writes e) -> In k (e_lk_created e) \/ In k (map fst (e_lk_deleted e))) /\
    rollback (apply d e) e <> d.
Proof. exists f6_db, f6_eff. exact f6_shape_refuted. Qed.
Print Assumptions lockup_restore_record_must_carry_previous_bytes_refuted.

(* The undo records Process derives from AddNewLock / ClaimCoinbaseLockup for one block (any
   sequence of coinbase lockups and claims; a key claimed in a block is never topped up in the
   same block: claims need epoch < current epoch, AddNewLock writes the current epoch).
   FULL statement (holds when oldLockupData is built with the OLD delegate):
     lockups (rollback (apply d e) e) = lockups d   for e = lk_effect use_old ...            *)
Theorem addnewlock_undo_exact_if_old_delegate : forall eb n h p (d : db lkrec) rs,
  sorted (lockups d) -> heights_ok (lockups d) -> no_add_after_claim rs ->
  let e := lk_effect true eb n h p (lockups d) rs in
  lockups (rollback (apply d e) e) = lockups d.
Proof. exact lockup_undo_exact_fixed_lemma. Qed.
Print Assumptions addnewlock_undo_exact_if_old_delegate.

(* With the NEW delegate in oldLockupData (the pinned source) the full statement is false ... *)
Theorem addnewlock_undo_exact_refuted : exists eb n h p (d : db lkrec) rs,
  sorted (lockups d) /\ heights_ok (lockups d) /\ no_add_after_claim rs /\
  let e := lk_effect false eb n h p (lockups d) rs in
  lockups (rollback (apply d e) e) <> lockups d.
Proof.
  exists 4, 7, [7], [6], (mkDb [] f6_map [] []), f6_reqs. exact lockup_undo_refuted_lemma.
Qed.
Print Assumptions addnewlock_undo_exact_refuted.

(* ... and holds for the blocks in which no update changes the stored delegate. *)
Theorem addnewlock_undo_exact_partial : forall eb n h p (d : db lkrec) rs,
  sorted (lockups d) -> heights_ok (lockups d) -> no_add_after_claim rs ->
  delegate_stable eb (lockups d) rs = true ->
  let e := lk_effect false eb n h p (lockups d) rs in
  lockups (rollback (apply d e) e) = lockups d.
Proof. exact lockup_undo_exact_partial_lemma. Qed.
Print Assumptions addnewlock_undo_exact_partial.

(* For the source under check (flag regenerated from core/vm/contracts.go on every run): either
   the lockup undo log is exact for every block, or there is a block whose rollback is wrong. *)
Theorem lockup_undo_of_this_source :
  (undo_uses_old_delegate = true ->
     forall eb n h p (d : db lkrec) rs,
       sorted (lockups d) -> heights_ok (lockups d) -> no_add_after_claim rs ->
       let e := lk_effect undo_uses_old_delegate eb n h p (lockups d) rs in
       lockups (rollback (apply d e) e) = lockups d)
  /\
  (undo_uses_old_delegate = false ->
     exists eb n h p (d : db lkrec) rs,
       sorted (lockups d) /\ heights_ok (lockups d) /\ no_add_after_claim rs /\
       let e := lk_effect undo_uses_old_delegate eb n h p (lockups d) rs in
       lockups (rollback (apply d e) e) <> lockups d).
Proof.
  split; intros ->; [exact lockup_undo_exact_fixed_lemma|].
  exists 4, 7, [7], [6], (mkDb [] f6_map [] []), f6_reqs. exact lockup_undo_refuted_lemma.
Qed.
Print Assumptions lockup_undo_of_this_source.

(* ---------------- outputs created AND spent inside one block (tx2 spends an output of tx1) ------- *)
(* In whatever state the rollback batch of a block is applied: none of the keys the block created
   is present afterwards — in particular an output the block also spent (it is in the spent record,
   so the batch first re-creates it) is unspendable after the reorganisation. *)
Theorem intra_block_output_absent_after_rollback : forall {L} (d : db L) (e : effect L) k,
  sorted (utxo d) -> In k (created_keys e) -> get k (utxo (rollback d e)) = None.
Proof. intros L. exact (@created_absent_after_rollback L). Qed.
Print Assumptions intra_block_output_absent_after_rollback.

(* The ORDER "re-create spent, THEN delete created" is necessary: with the two loops swapped there
   is a well-formed block (on which [rollback] is exact) after whose rollback an output that never
   existed before the block and did not exist after it is in the UTXO set. *)
Theorem rollback_delete_before_restore_refuted :
  exists (d : db val) e k, db_ok d /\ wf_effect d e /\ rollback (apply d e) e = d /\
    get k (utxo d) = None /\ get k (utxo (apply d e)) = None /\
    get k (utxo (rollback_delete_first (apply d e) e)) <> None.
Proof. exact rollback_delete_first_refuted_lemma. Qed.
Print Assumptions rollback_delete_before_restore_refuted.

(* The delete of a created key must be UNCONDITIONAL: skipping it when the key is not in the
   database (the re-creating Put sits in the same batch) resurrects the same kind of output. *)
Theorem rollback_delete_only_if_present_refuted :
  exists (d : db val) e k, db_ok d /\ wf_effect d e /\ rollback (apply d e) e = d /\
    get k (utxo d) = None /\ get k (utxo (apply d e)) = None /\
    get k (utxo (rollback_skip_absent (apply d e) e)) <> None.
Proof. exact rollback_skip_absent_refuted_lemma. Qed.
Print Assumptions rollback_delete_only_if_present_refuted.

(* Both wrong rollbacks are EXACT on every well-formed block in which no spent/trimmed output was
   created by the block itself: only blocks with an intra-block chain of Qi spends distinguish
   them from the source's rollback (the shape the harness therefore generates on every branch). *)
Theorem wrong_rollbacks_differ_only_on_intra_block_spends : forall {L} (d : db L) (e : effect L),
  db_ok d -> wf_effect d e -> no_intra_spend e ->
  rollback_delete_first (apply d e) e = d /\ rollback_skip_absent (apply d e) e = d.
Proof. intros L. exact (@wrong_rollbacks_exact_without_intra_spend L). Qed.
Print Assumptions wrong_rollbacks_differ_only_on_intra_block_spends.

(* ---------------- non-vacuity ---------------- *)
Definition nv_anc : db val :=
  mkDb [([1], [10]); ([2], [20]); ([3], [30])] [([9;1], [5])] [([0], [100]); ([1], [101])] [101].
(* branch A: block 2 spends [1], trims [3], creates [7] and [8] (37-byte style keys are only
   stripped at length 37; short keys are used as they are), updates lockup [9;1], creates [9;2];
   block 3 spends [7] created by block 2 *)
Definition nv_a2 : effect val :=
  mkEff 2 [102] [101] [([7], [70]); ([8], [80])] [[7]; [8]] [([1], [10])] [([3], [30])]
        [([9;1], Some [6]); ([9;2], Some [1])] [[9;2]] [([9;1], [5])].
Definition nv_a3 : effect val :=
  mkEff 3 [103] [102] [([6], [60])] [[6]] [([7], [70])] [] [([9;1], None)] [] [([9;1], [6])].
(* branch B: block 2' spends [2], creates [5] *)
Definition nv_b2 : effect val :=
  mkEff 2 [202] [101] [([5], [50])] [[5]] [([2], [20])] [] [] [] [].

Example branches_wf_nonvacuous :
  db_sortedb nv_anc = true /\ wf_branchb keqb nv_anc [nv_a2; nv_a3] = true /\ wf_branchb keqb nv_anc [nv_b2] = true.
Proof. vm_compute. repeat split. Qed.

Example reorg_nonvacuous :
  apply_all nv_anc [nv_a2; nv_a3]
  = mkDb [([2], [20]); ([6], [60]); ([8], [80])] [([9;2], [1])]
         [([0], [100]); ([1], [101]); ([2], [102]); ([3], [103])] [103]
  /\ reorg (apply_all nv_anc [nv_a2; nv_a3]) [nv_a3; nv_a2] [nv_b2]
  = mkDb [([1], [10]); ([3], [30]); ([5], [50])] [([9;1], [5])]
         [([0], [100]); ([1], [101]); ([2], [202])] [202].
Proof. vm_compute. split; reflexivity. Qed.

(* a block with a chain tx1 -> tx2 -> tx3 (outputs [7] and [9] created and spent inside the block)
   plus a trimmed old output: well formed, and its rollback is exact *)
Example intra_block_chain_nonvacuous :
  db_ok ic_db /\ wf_effect ic_db ic_eff
  /\ apply ic_db ic_eff = mkDb [([2], [20]); ([6], [60]); ([8], [80])] [] [([4], [44]); ([5], [55])] [55]
  /\ rollback (apply ic_db ic_eff) ic_eff = ic_db
  /\ no_intra_spend nv_b2 /\ ~ no_intra_spend ic_eff.
Proof.
  destruct ic_wf as [A B]. destruct intra_chain_facts as [C D].
  split; [exact A|]. split; [exact B|]. split; [exact C|]. split; [exact D|]. split.
  - intros k H. cbn in H. destruct H as [<-|[]]. cbn. intros [H|[]]. discriminate H.
  - intros H. apply (H [7]); cbn; tauto.
Qed.

Example addnewlock_nonvacuous :
  (* create, top up with the same delegate, top up with another one: undo record of the last
     update names the NEW delegate under the pinned source *)
  let a := lk_process false 4 [] [RAdd [1] 100 9 [7;7]; RAdd [1] 50 10 [7;7]; RAdd [1] 25 11 [8;8]] in
  a_created a = [[1]] /\
  a_deleted a = [([1], mkLk 100 8 1 [7;7]); ([1], mkLk 150 8 2 [8;8])] /\
  a_map a = [([1], mkLk 175 8 3 [8;8])] /\
  delegate_stable 4 [] [RAdd [1] 100 9 [7;7]; RAdd [1] 50 10 [7;7]] = true /\
  delegate_stable 4 [] [RAdd [1] 100 9 [7;7]; RAdd [1] 50 10 [7;7]; RAdd [1] 25 11 [8;8]] = false.
Proof. vm_compute. repeat split. Qed.

Example enc_dec_nonvacuous :
  enc_lk (mkLk 5000 8 1 []) = be 32 5000 ++ [0;0;0;8] ++ [0;1]
  /\ dec_lk (enc_lk (mkLk 5000 8 1 [58;214])) = mkLk 5000 8 1 []   (* a 2-byte "delegate" is not 58 bytes *)
  /\ dec_lk (enc_lk (mkLk 5000 8 1 (repeat 9 20))) = mkLk 5000 8 1 (repeat 9 20).
Proof. vm_compute. repeat split. Qed.

(* ================= Extension round: the stored undo records (Model/C10_Undo.v) ================= *)

(* The rollback reads the 'deleted coinbase lockups' record of a block only through the FIRST
   image per key: any record list with the same first images gives the same state (in ANY state). *)
Theorem lockup_undo_record_read_through_first_image : forall {L} (d : db L) (e : effect L) l',
  db_ok d -> (forall k, first_rec k l' = first_rec k (e_lk_deleted e)) ->
  rollback d (with_lk_deleted e l') = rollback d e.
Proof. intros L. exact (@rollback_lk_record_ext L). Qed.
Print Assumptions lockup_undo_record_read_through_first_image.

(* ... so a writer that keeps one entry per key, the one of the FIRST modification, is harmless *)
Theorem lockup_undo_record_dedup_keep_first_harmless : forall {L} (d : db L) (e : effect L),
  db_ok d -> rollback d (with_lk_deleted e (dedup_first (e_lk_deleted e))) = rollback d e.
Proof. intros L. exact (@rollback_dedup_first L). Qed.
Print Assumptions lockup_undo_record_dedup_keep_first_harmless.

(* ... and nothing less will do: a record whose first image of a (not created) key differs restores
   that other image. *)
Theorem lockup_undo_record_first_image_needed : forall {L} (d : db L) (e : effect L) l' k a b,
  db_ok d -> ~ In k (e_lk_created e) ->
  first_rec k l' = Some a -> first_rec k (e_lk_deleted e) = Some b -> a <> b ->
  get k (lockups (rollback d (with_lk_deleted e l'))) = Some a /\
  get k (lockups (rollback d e)) = Some b /\
  rollback d (with_lk_deleted e l') <> rollback d e.
Proof. intros L. exact (@rollback_lk_record_first_image_needed L). Qed.
Print Assumptions lockup_undo_record_first_image_needed.

(* 'One entry per key, value of the LAST modification' (a tranche topped up twice in one block):
   the block is well formed, the faithful rollback and the keep-first writer are exact, the
   keep-last writer leaves the intermediate balance. *)
Theorem lockup_undo_record_dedup_keep_last_refuted :
  exists (d : db val) (e : effect val),
    db_ok d /\ wf_effect d e /\ rollback (apply d e) e = d /\
    rollback (apply d e) (with_lk_deleted e (dedup_first (e_lk_deleted e))) = d /\
    rollback (apply d e) (with_lk_deleted e (dedup_last (e_lk_deleted e))) <> d.
Proof.
  exists dd_db, dd_eff.
  destruct dedup_last_refuted_lemma as (A & B & _ & C & D & _ & _ & E).
  exact (conj A (conj B (conj C (conj D E)))).
Qed.
Print Assumptions lockup_undo_record_dedup_keep_last_refuted.

(* The spent / trimmed record must carry the COMPLETE previous output: with an encoder f of the
   undo image, the rollback restores f v for every pre-block output the block spent or trimmed;
   if f changes one of them (drops the lock height, say) the rollback is not exact. *)
Theorem spent_undo_image_restored_as_stored : forall {L} (d : db L) (e : effect L) f k v,
  db_ok d -> wf_effect d e ->
  In (k, v) (e_spent e ++ e_trimmed e) -> ~ In k (created_keys e) ->
  get k (utxo (rollback (apply d e) (map_spent f e))) = Some (f v) /\ get k (utxo d) = Some v.
Proof. intros L. exact (@lossy_spent_image_restores_image L). Qed.
Print Assumptions spent_undo_image_restored_as_stored.

Theorem lossy_spent_undo_image_not_exact : forall {L} (d : db L) (e : effect L) f k v,
  db_ok d -> wf_effect d e ->
  In (k, v) (e_spent e ++ e_trimmed e) -> ~ In k (created_keys e) -> f v <> v ->
  rollback (apply d e) (map_spent f e) <> d.
Proof. intros L. exact (@lossy_spent_image_not_exact L). Qed.
Print Assumptions lossy_spent_undo_image_not_exact.

Example undo_records_nonvacuous :
  (* double top-up 150 -> 157 -> 166: keep-last leaves 157 *)
  lockups (rollback (apply dd_db dd_eff) (with_lk_deleted dd_eff (dedup_last (e_lk_deleted dd_eff))))
    = [(dd_key, [157;3])]
  (* an encoder dropping the last byte (lock height) of a spent output *)
  /\ db_ok lo_db /\ wf_effect lo_db lo_eff
  /\ In ([1], [12;7;2]) (e_spent lo_eff ++ e_trimmed lo_eff) /\ ~ In [1] (created_keys lo_eff)
  /\ drop_lock [12;7;2] <> [12;7;2]
  /\ utxo (rollback (apply lo_db lo_eff) (map_spent drop_lock lo_eff)) = [([1], [12;7]); ([2], [8;7])].
Proof.
  destruct dedup_last_refuted_lemma as (_ & _ & _ & _ & _ & _ & X & _).
  destruct lossy_nonvacuous_lemma as (A & B & C & D & E & _ & F).
  exact (conj X (conj A (conj B (conj C (conj D (conj E F)))))).
Qed.

(* C20 -- Quai<->Qi conversions never credit more than the rate allows; refusals refund.
   Property theorems only: each is closed by [exact <lemma>] and followed by [Print Assumptions].
   Model: Model/C20.v   Lemmas: Proofs/C20.v   Generated data: Generated/C20Params.v
   [reprice disc h knew etxs] is the inline conversion block of Slice.Append (PRIME), with
   [disc] = floor of misc.ApplyCubicDiscount (a big.Float computation) as an oracle; the only
   fact used about it is the recorded hypothesis 0 <= disc v m <= v (checked on every real call
   by the harness, and proved for the ideal rational formula, [cubic_discount_within_value]). *)
From Coq Require Import List ZArith NArith Bool Permutation.
From GQ Require Import Generated.C20Params Model.C20 Proofs.C20 Proofs.C20_Last Proofs.C20_Origin Proofs.C20_Redeem Proofs.C20_Ctl.
Import ListNotations.
Local Open Scope Z_scope.

(* ---- obligations on data regenerated from the repository on every run ---- *)

Theorem protocol_constants_ok : params_ok = true.
Proof. exact params_ok_true. Qed.
Print Assumptions protocol_constants_ok.

Theorem denominations_table_ok : dens_ok = true.
Proof. exact dens_ok_true. Qed.
Print Assumptions denominations_table_ok.

(* the inline block the model was written against: statement kinds/heads in pre-order
   (listed in Generated/C20Params.v).  A semantic edit of the block changes the digest. *)
Theorem conversion_block_is_the_reviewed_one :
  slice_shape_sha256 = reviewed_shape_sha256 /\ slice_shape_len = reviewed_shape_len.
Proof. exact slice_shape_reviewed. Qed.
Print Assumptions conversion_block_is_the_reviewed_one.

Theorem mint_branch_is_the_reviewed_one :
  mint_shape_sha256 = reviewed_mint_shape_sha256 /\ mint_shape_len = reviewed_mint_shape_len.
Proof. exact mint_shape_reviewed. Qed.
Print Assumptions mint_branch_is_the_reviewed_one.

Theorem revert_branches_are_the_reviewed_ones :
  revert_qi_shape_sha256 = ShapeDigest.reviewed_revert_qi_shape_sha256 /\ revert_qi_shape_len = 31 /\
  revert_quai_shape_sha256 = ShapeDigest.reviewed_revert_quai_shape_sha256 /\ revert_quai_shape_len = 11.
Proof. exact revert_shapes_reviewed. Qed.
Print Assumptions revert_branches_are_the_reviewed_ones.

Theorem trim_rule_table_ok : trim_split_ok = true.
Proof. exact trim_split_ok_true. Qed.
Print Assumptions trim_rule_table_ok.

(* ---- unit conversion at a fixed rate ---- *)

(* the two rewards that define the rate are positive for every non-negative header field *)
Theorem rate_parameters_positive : forall k logdiff diff kqi,
  0 <= k -> 0 <= logdiff -> 0 <= diff -> 0 < kqi ->
  1 <= quai_reward k logdiff /\ 1 <= qi_reward diff kqi.
Proof. exact rewards_positive. Qed.
Print Assumptions rate_parameters_positive.

Theorem roundtrip_no_gain_quai : forall a b x, 1 <= a -> 1 <= b -> 0 <= x ->
  qi_to_quai a b (quai_to_qi a b x) <= x.
Proof. exact roundtrip_quai. Qed.
Print Assumptions roundtrip_no_gain_quai.

Theorem roundtrip_no_gain_qi : forall a b x, 1 <= a -> 1 <= b -> 0 <= x ->
  quai_to_qi a b (qi_to_quai a b x) <= x.
Proof. exact roundtrip_qi. Qed.
Print Assumptions roundtrip_no_gain_qi.

(* and it loses less than one rounding unit of each step *)
Theorem roundtrip_loss_bounded : forall a b x, 1 <= a -> 1 <= b -> 0 <= x ->
  b * x - a - b < b * qi_to_quai a b (quai_to_qi a b x).
Proof. exact roundtrip_quai_loss. Qed.
Print Assumptions roundtrip_loss_bounded.

Theorem conversion_monotone : forall a b x y, 1 <= a -> 1 <= b -> 0 <= x -> x <= y ->
  qi_to_quai a b x <= qi_to_quai a b y /\ quai_to_qi a b x <= quai_to_qi a b y /\ 0 <= qi_to_quai a b x /\ 0 <= quai_to_qi a b x.
Proof. exact conversions_monotone. Qed.
Print Assumptions conversion_monotone.

(* the documented cubic discount never exceeds the value it discounts (the hypothesis on the oracle) *)
Theorem cubic_discount_within_value : forall v m, 0 <= v -> 0 <= disc_ideal v m <= v.
Proof. exact disc_ideal_bounds. Qed.
Print Assumptions cubic_discount_within_value.

(* ---- splitting into Qi denominations ---- *)

(* nothing is lost by the split as long as the count of the top denomination fits uint64 *)
Theorem denominations_sum : forall v,
  0 <= v -> v < two64 * top_den -> denoms_sum (find_min_denominations v) = v.
Proof. exact find_min_denominations_sum. Qed.
Print Assumptions denominations_sum.

(* full statement "for all 0 <= v <= MaxQi" is false of the code: count.Uint64() wraps *)
Theorem denominations_sum_beyond_guard_refuted :
  exists v, 0 <= v <= max_qi /\ denoms_sum (find_min_denominations v) <> v.
Proof. exact denominations_truncation_refuted. Qed.
Print Assumptions denominations_sum_beyond_guard_refuted.

(* destination side (Quai->Qi branch of StateProcessor.Process, sliced and run like the prime block):
   minting the split with [gas] left (ETX gas minus TxGas) creates at most the value, exactly the
   value iff it reports success (status Locked), which it does whenever gas and output index
   suffice; otherwise the loss is exactly the pieces gas/index did not pay for, largest first. *)
Theorem mint_loss_bounded : forall v gas,
  0 <= v -> v < two64 * top_den -> 0 <= gas ->
  let '(t, i, g, ok) := mint v gas in
  0 <= t <= v /\ 0 <= i <= max_output_index /\ 0 <= g /\ g = gas - i * call_value_transfer_gas /\
  (ok = true -> t = v /\ i = denoms_count (find_min_denominations v)) /\
  (denoms_count (find_min_denominations v) * call_value_transfer_gas <= gas ->
   denoms_count (find_min_denominations v) <= max_output_index -> ok = true).
Proof. exact mint_spec. Qed.
Print Assumptions mint_loss_bounded.

(* destination side of a REVERTED Qi->Quai conversion (ConversionRevert branch of Process refunding Qi,
   sliced and run): the refund is the split of the original without the pieces of denomination
   <= MaxTrimDenomination ([dust]) -- at most that, exactly that when the ETX gas pays
   CallValueTransferGas for every refunded piece. *)
Theorem refund_qi_loss_bounded : forall v gas,
  0 <= v -> v < two64 * top_den -> 0 <= gas ->
  let '(t, i, g, ok) := refund_qi v gas in
  0 <= dust v /\ 0 <= t <= v - dust v /\ 0 <= i <= max_output_index /\ 0 <= g /\
  g = gas - i * call_value_transfer_gas /\
  (ok = true -> t = v - dust v) /\
  (denoms_count (filter above_trim (find_min_denominations v)) * call_value_transfer_gas <= gas ->
   denoms_count (filter above_trim (find_min_denominations v)) <= max_output_index -> t = v - dust v).
Proof. exact refund_qi_spec. Qed.
Print Assumptions refund_qi_loss_bounded.

(* the protocol's dust rule: what the trim drops is less than the smallest refundable denomination *)
Theorem dust_rule_bounded : forall v,
  0 <= v -> v < two64 * top_den -> dust v < smallest_refundable.
Proof. exact dust_lt_smallest_refundable. Qed.
Print Assumptions dust_rule_bounded.

(* full statement "a reverted conversion returns exactly the original (less dust) on the origin
   ledger" is FALSE of the code on the Qi side: (1) with ETX gas 0 -- a conversion that paid exactly
   the required fee -- nothing comes back; (2) even with ample gas the dust is dropped. *)
Theorem revert_returns_original_on_qi_ledger_refuted :
  (exists v, 0 <= v < two64 * top_den /\ 0 < v - dust v /\ fst (fst (fst (refund_qi v 0))) = 0)
  /\ (exists v gas, 0 <= v < two64 * top_den /\
        denoms_count (filter above_trim (find_min_denominations v)) * call_value_transfer_gas <= gas /\
        fst (fst (fst (refund_qi v gas))) < v).
Proof. exact refund_qi_original_refuted. Qed.
Print Assumptions revert_returns_original_on_qi_ledger_refuted.

(* ---- the conversion block of Slice.Append ---- *)

(* the order in which conversions are repriced: a permutation, descending slip, stable *)
Theorem sort_is_stable_descending : forall l,
  Permutation (sort_desc l) l /\ desc_sorted (sort_desc l) /\
  forall k, filter (same_key k) (sort_desc l) = filter (same_key k) l.
Proof. exact sort_desc_spec. Qed.
Print Assumptions sort_is_stable_descending.

(* every inbound ETX leaves the block exactly once *)
Theorem reprice_no_etx_lost_or_duplicated : forall disc h knew etxs r,
  reprice disc h knew etxs = Some r ->
  map o_e (r_out r) = sort_desc etxs /\ Permutation (map o_e (r_out r)) etxs.
Proof. exact reprice_no_loss. Qed.
Print Assumptions reprice_no_etx_lost_or_duplicated.

(* each conversion has exactly one outcome: converted (at the new rate, from an amount that is at
   least the 10 % floor and passed the pass-one slip test) or reverted with the original value;
   anything that is not a conversion is untouched *)
Theorem reprice_outcome_exclusive : forall disc h knew etxs r o,
  inputs_ok h knew etxs -> reprice disc h knew etxs = Some r -> In o (r_out r) ->
  In (o_e o) etxs /\
  ((e_conv (o_e o) = false /\ o_kind o = KOther /\ o_value o = e_value (o_e o))
   \/ (e_conv (o_e o) = true /\ 0 < e_value (o_e o) /\ o_kind o = KReverted /\ o_value o = e_value (o_e o))
   \/ (e_conv (o_e o) = true /\ 0 < e_value (o_e o) /\ o_kind o = KConverted /\
       o_value o = rate_amount h knew (o_e o) (o_before o) /\
       e_value (o_e o) * 10 / 100 <= o_before o /\ after_slip (o_e o) <= o_p1 o)).
Proof. exact reprice_outcome. Qed.
Print Assumptions reprice_outcome_exclusive.

Theorem revert_returns_original : forall disc h knew etxs r o,
  inputs_ok h knew etxs -> reprice disc h knew etxs = Some r -> In o (r_out r) -> o_kind o = KReverted ->
  e_conv (o_e o) = true /\ o_value o = e_value (o_e o) /\ 0 < o_value o.
Proof. exact reprice_revert_original. Qed.
Print Assumptions revert_returns_original.

(* after ConversionSlipChangeBlock: discounts only reduce -- the credit is at most what the rate
   applied in this prime block gives for the original amount *)
Theorem reprice_credit_le_rate_amount : forall disc,
  (forall v m, 0 <= v -> 0 <= disc v m <= v) ->
  forall h knew etxs r o,
  inputs_ok h knew etxs -> postfork h = true -> 0 <= h_kqd h ->
  reprice disc h knew etxs = Some r -> In o (r_out r) -> o_kind o = KConverted ->
  o_value o <= rate_amount h knew (o_e o) (e_value (o_e o)).
Proof. exact reprice_credit_le_rate. Qed.
Print Assumptions reprice_credit_le_rate_amount.

(* the same statement on the other side of the fork is false of the code (historic blocks) *)
Theorem reprice_credit_le_rate_amount_prefork_refuted :
  exists disc h knew etxs r o,
    (forall v m, 0 <= v -> 0 <= disc v m <= v) /\ inputs_ok h knew etxs /\ postfork h = false /\
    0 <= h_kqd h <= kquai_mult /\
    reprice disc h knew etxs = Some r /\ In o (r_out r) /\ o_kind o = KConverted /\
    rate_amount h knew (o_e o) (e_value (o_e o)) < o_value o.
Proof. exact prefork_credit_refuted. Qed.
Print Assumptions reprice_credit_le_rate_amount_prefork_refuted.

(* never below the protocol floor, on both sides of the fork, whatever the discount oracle *)
Theorem reprice_floor : forall disc h knew etxs r o,
  inputs_ok h knew etxs -> reprice disc h knew etxs = Some r -> In o (r_out r) -> o_kind o = KConverted ->
  rate_amount h knew (o_e o) (e_value (o_e o) * 10 / 100) <= o_value o.
Proof. exact reprice_floor_holds. Qed.
Print Assumptions reprice_floor.

(* slip_respected_partial: the sender's bound holds for the PASS-ONE amount of every converted ETX,
   and an ETX whose pass-one amount is below the bound is refunded exactly.  The full statement
   (bound holds for the amount finally converted, o_before) is refuted below. *)
Theorem slip_respected_partial : forall disc h knew etxs r o,
  inputs_ok h knew etxs -> reprice disc h knew etxs = Some r -> In o (r_out r) ->
  e_conv (o_e o) = true -> 0 < e_value (o_e o) ->
  (o_kind o = KConverted -> after_slip (o_e o) <= o_p1 o) /\
  (o_p1 o < after_slip (o_e o) -> o_kind o = KReverted /\ o_value o = e_value (o_e o)).
Proof. exact reprice_slip_pass_one. Qed.
Print Assumptions slip_respected_partial.

Theorem slip_respected_refuted :
  exists disc h knew etxs r o,
    (forall v m, 0 <= v -> 0 <= disc v m <= v) /\ inputs_ok h knew etxs /\ postfork h = true /\
    0 <= h_kqd h <= kquai_mult /\
    reprice disc h knew etxs = Some r /\ In o (r_out r) /\ o_kind o = KConverted /\
    o_before o < after_slip (o_e o).
Proof. exact final_slip_refuted. Qed.
Print Assumptions slip_respected_refuted.

(* ... but it does hold for the LAST conversion accepted by pass one (every later conversion was
   rejected there): the amount it was tested against is the final total, so the amount finally
   converted is the pass-one amount.  In particular a block with a single conversion honours the
   bound.  (This is what separates the recorded finding from a regression in the harness monitor.) *)
Theorem slip_respected_for_last_accepted : forall disc h knew etxs r pre o post,
  inputs_ok h knew etxs -> reprice disc h knew etxs = Some r ->
  r_out r = pre ++ o :: post -> o_kind o = KConverted ->
  (forall o', In o' post -> e_conv (o_e o') = true -> 0 < e_value (o_e o') -> o_p1 o' < after_slip (o_e o')) ->
  o_before o = o_p1 o /\ after_slip (o_e o) <= o_before o.
Proof. exact last_accepted_keeps_slip. Qed.
Print Assumptions slip_respected_for_last_accepted.

Theorem reprice_values_never_negative : forall disc h knew etxs r o,
  inputs_ok h knew etxs -> reprice disc h knew etxs = Some r -> In o (r_out r) -> 0 <= o_value o.
Proof. exact reprice_values_nonneg. Qed.
Print Assumptions reprice_values_never_negative.

(* ---- non-vacuity ---- *)

(* a tolerant whale is converted (above the floor, below the rate amount), the min-slip conversion
   queued behind it is refunded, the coinbase ETX between them is untouched *)
Example reprice_nonvacuous :
  let h := mkHdr 300000 221077819000000000 737869762948382064640 5000000000000 8000000000 100 10000000000000000000000 true in
  let l := [mkEtx 1%N true true 10000000000000000000000 (Some 30); mkEtx 2%N false true 77 None;
            mkEtx 3%N true true 60000000000000000000000 (Some 9000)] in
  inputs_ok h 221077819000000000 l /\
  option_map (fun r => map (fun o => (e_id (o_e o), o_kind o, o_value o, o_before o)) (r_out r))
    (reprice disc_ideal h 221077819000000000 l)
  = Some [(3%N, KConverted, 3317060, 46933020000000000000000); (1%N, KReverted, 10000000000000000000000, 0); (2%N, KOther, 77, 0)].
Proof.
  split.
  - split; [|split]; [unfold rates_ok; simpl; repeat split; discriminate|discriminate|].
    repeat constructor; simpl; discriminate.
  - vm_compute. reflexivity.
Qed.

Example roundtrip_nonvacuous :
  let a := quai_reward 221077819000000000 737869762948382064640 in
  let b := qi_reward 5000000000000 8000000000 in
  (1 <=? a) && (1 <=? b) && (quai_to_qi a b 10000000000000000000 <? 10000000000000000000)
  && (0 <? quai_to_qi a b 10000000000000000000)
  && (qi_to_quai a b (quai_to_qi a b 10000000000000000000) <? 10000000000000000000) = true.
Proof. vm_compute. reflexivity. Qed.

Example denominations_nonvacuous :
  find_min_denominations 123456789 = [(13, 1); (12, 2); (11, 3); (10, 4); (9, 2); (8, 1); (7, 1); (6, 1); (5, 1); (4, 2); (3, 1); (2, 3); (1, 1); (0, 4)]
  /\ denoms_sum (find_min_denominations 123456789) = 123456789.
Proof. vm_compute. split; reflexivity. Qed.

Example refund_nonvacuous :
  refund_qi 123456789 1000000 = (123456000, 15, 865000, true) /\ dust 123456789 = 789
  /\ refund_qi 123456789 27000 = (120000000, 3, 0, false) /\ smallest_refundable = 1000.
Proof. vm_compute. repeat split; reflexivity. Qed.

(* ================= origin side: debited exactly once per emitted ETX =================
   (added after the blind changes: core/vm frames, evm.ETXCache and the Quai debit) *)

(* generated inventory of core/vm/evm.go: Call, CallCode, DelegateCall, StaticCall and create each
   take evm.snapshot() once and roll back only through evm.revertToSnapshot(); no method of *EVM
   touches the StateDB revision alone; snapshot()/revertToSnapshot() cover len(ETXCache) *)
Theorem evm_frames_take_the_full_snapshot : evm_sites_ok = true.
Proof. exact evm_sites_ok_true. Qed.
Print Assumptions evm_frames_take_the_full_snapshot.

(* for every nesting of frames of every call kind, every mix of failures, value transfers and
   emissions: what left the Quai accounts of the zone is exactly the value + fee of the ETXs left
   in the cache (so a conversion that reaches Prime has been paid for once, and nothing is paid
   for a conversion that does not) *)
Theorem origin_debited_exactly_the_emitted_etxs : forall ptn b tr,
  let s := orun true ptn b tr in
  bal_total b - bal_total (o_bal s) = cache_cost (o_cache s).
Proof. exact origin_debit_is_cache_cost. Qed.
Print Assumptions origin_debited_exactly_the_emitted_etxs.

Theorem origin_emission_at_most_once_in_cache : forall sc ptn b tr,
  NoDup (emit_ids tr) -> NoDup (cache_ids (orun sc ptn b tr)).
Proof. exact origin_emitted_at_most_once. Qed.
Print Assumptions origin_emission_at_most_once_in_cache.

(* the statement is false as soon as a failed frame only rolls the account state back: a
   conversion emitted under a reverted DELEGATECALL is then left in the cache unpaid *)
Theorem origin_state_only_snapshot_refuted :
  let s := orun false witness_ptn witness_bals witness_trace in
  bal_total witness_bals - bal_total (o_bal s) < cache_cost (o_cache s)
  /\ map x_id (o_cache s) = [7%N; 8%N].
Proof. exact state_only_snapshot_refuted. Qed.
Print Assumptions origin_state_only_snapshot_refuted.

Example origin_nonvacuous :
  let s := orun true witness_ptn witness_bals witness_trace in
  map x_id (o_cache s) = [8%N] /\ cache_cost (o_cache s) = 2 * min_quai_conversion_amount + 63000
  /\ o_stack s = [] /\ o_skip s = 0%nat.
Proof. exact full_snapshot_witness. Qed.

(* ================= Qi->Quai: the locked credit is redeemed exactly once ================= *)

(* generated: ConversionLockPeriod is one of the four depths RedeemLockedQuai scans, exactly once,
   all depths are positive *)
Theorem redeem_depths_ok : depths_ok = true.
Proof. exact depths_ok_true. Qed.
Print Assumptions redeem_depths_ok.

Theorem redeem_is_the_reviewed_one :
  redeem_shape_sha256 = RedeemDigest.reviewed_redeem_shape_sha256 /\ redeem_shape_len = 53.
Proof. exact redeem_shape_reviewed. Qed.
Print Assumptions redeem_is_the_reviewed_one.

(* whatever the step pays at height h is a conversion to the Quai ledger included at exactly
   h - ConversionLockPeriod *)
Theorem converted_quai_paid_only_at_lock_expiry : forall c h e,
  In e (eligible lockup_depths c h) ->
  conversion_lock_period < h /\ In e (block_at c (h - conversion_lock_period)) /\ q_conv e = true.
Proof. intros c h e. exact (eligible_timing lockup_depths c h e lockup_depths_period_once). Qed.
Print Assumptions converted_quai_paid_only_at_lock_expiry.

(* over the whole life of a chain (heights 1..H) the step pays the conversions of the blocks
   1..H-ConversionLockPeriod, each block once, in order, and nothing else: no second credit when
   the chain reaches inclusion + 3, 6 or 12 months *)
Theorem converted_quai_paid_exactly_once_over_the_chain : forall c (H : nat),
  concat (map (eligible lockup_depths c) (heights H)) =
  concat (map (convs c) (heights (H - Z.to_nat conversion_lock_period))).
Proof.
  intros c H. exact (scan_pays_each_block_once lockup_depths c H lockup_depths_period_once lock_period_pos).
Qed.
Print Assumptions converted_quai_paid_exactly_once_over_the_chain.

(* amounts: one run credits at most the value carried by the conversions expiring there (the
   account creation fee, or the whole credit when it is smaller than the fee, is withheld from a
   new account) ... *)
Theorem converted_quai_credit_le_value : forall fee c ex h, 0 <= fee ->
  (forall e, In e (convs c (h - conversion_lock_period)) -> 0 <= q_value e) ->
  credit_sum (snd (redeem_at lockup_depths fee c ex h)) <=
  (if h <=? conversion_lock_period then 0 else value_sum (convs c (h - conversion_lock_period))).
Proof. intros fee c ex h. exact (redeem_at_le lockup_depths fee c ex h lockup_depths_period_once). Qed.
Print Assumptions converted_quai_credit_le_value.

(* ... and exactly the repriced value, per ETX, for recipients that exist *)
Theorem converted_quai_credit_exact_for_existing_recipient : forall fee c ex h,
  (forall e, In e (convs c (h - conversion_lock_period)) -> n_mem (q_to e) ex = true) ->
  redeem_at lockup_depths fee c ex h =
  (ex, if h <=? conversion_lock_period then []
       else map (fun e => (q_id e, q_to e, q_value e)) (convs c (h - conversion_lock_period))).
Proof. intros fee c ex h. exact (redeem_at_exact lockup_depths fee c ex h lockup_depths_period_once). Qed.
Print Assumptions converted_quai_credit_exact_for_existing_recipient.

(* a guard "at least the lock period" instead of "equal" pays the same ETX at all four depths *)
Theorem redeem_at_least_guard_refuted :
  map (fun d => length (eligible_ge lockup_depths witness_chain (10 + d))) lockup_depths = [1; 1; 1; 1]%nat
  /\ map (fun d => length (eligible lockup_depths witness_chain (10 + d))) lockup_depths = [1; 0; 0; 0]%nat.
Proof. exact at_least_guard_pays_at_every_depth. Qed.
Print Assumptions redeem_at_least_guard_refuted.

Example redeem_nonvacuous :
  redeem_scan lockup_depths 420000000000000 nonvac_chain [1%N]
    [241929; 241930; 241931; 1555210; 3110410; 6307210]
  = [[]; [(1%N, 1%N, 123000000000000000000)]; [(4%N, 1%N, 7)]; []; []; []].
Proof. exact redeem_nonvacuous_l. Qed.

(* ================= extension round: the exchange-rate controller, the prime block with the
   controller's rate, and the pipeline after Prime as one function =================
   [calc_kquai] = misc.CalculateKQuai, [beta_rate] = core.CalculateBetaFromMiningChoiceAndConversions
   (exact integer arithmetic; common.LogBig is an input recorded from the real function),
   compared with the real functions on every run (case kinds CKQuai / CBeta). *)

(* generated: alpha and window size positive, reset rates and table percentages non-negative, the
   fork blocks in the order the branch structure assumes *)
Theorem controller_constants_ok : ctl_params_ok = true.
Proof. exact ctl_params_ok_true. Qed.
Print Assumptions controller_constants_ok.

Theorem controller_is_the_reviewed_one :
  kquai_shape_sha256 = CtlDigest.reviewed_kquai_shape_sha256 /\ kquai_shape_len = 16 /\
  beta_shape_sha256 = CtlDigest.reviewed_beta_shape_sha256 /\ beta_shape_len = 38.
Proof. exact ctl_shapes_reviewed. Qed.
Print Assumptions controller_is_the_reviewed_one.

(* one controller step, for ALL rates, difficulties, windows and block numbers: the new rate is
   never negative, loses at most 1/OneOverAlpha of the old one (plus one unit of rounding), rises
   only when xbStar*log(d) > 2^64*d, falls only when it is smaller, and is frozen when balanced *)
Theorem kquai_step_bounded_and_directed : forall k d d2 bn xb r,
  0 <= k -> 0 <= d -> 0 <= d2 -> 0 <= xb ->
  calc_kquai k d d2 bn xb = Some r ->
  1 <= d /\ 0 <= r /\ k * (one_over_alpha - 1) - one_over_alpha < r * one_over_alpha /\
  (0 < xb * d2 - two64 * d -> k <= r) /\ (xb * d2 - two64 * d <= 0 -> r <= k) /\
  (xb * d2 = two64 * d -> r = k).
Proof. exact calc_kquai_spec. Qed.
Print Assumptions kquai_step_bounded_and_directed.

(* "the rate stays positive" is false of the code: 1 falls to 0 and 0 is absorbing *)
Theorem controller_rate_positive_refuted :
  calc_kquai 1 5000000000000 778177102095775710118 2000000 0 = Some 0 /\
  (forall d d2 bn xb, 1 <= d -> 0 <= d2 -> 0 <= xb -> calc_kquai 0 d d2 bn xb = Some 0).
Proof. exact rate_positive_refuted. Qed.
Print Assumptions controller_rate_positive_refuted.

(* whatever branch of the fork schedule is taken, the rate handed to the conversion block is >= 0 *)
Theorem controller_rate_never_negative : forall parent c r,
  0 <= parent -> ctl_ok c -> beta_rate parent c = Some r -> 0 <= r.
Proof. exact beta_rate_nonneg. Qed.
Print Assumptions controller_rate_never_negative.

(* frozen trajectories: pinned to the protocol constants at the two fork resets, equal to the
   parent's rate during the hold intervals behind them, whatever window and difficulty say *)
Theorem controller_frozen_and_pinned_in_fork_regimes : forall parent c,
  controller_kick_in_block + token_choice_set_size <= c_bn c ->
  (c_bn c = kawpow_fork_block -> beta_rate parent c = Some exchange_rate_reset_after_kawpow) /\
  (kawpow_fork_block < c_bn c -> c_bn c < sha_equivalent_fork_block ->
   c_bn c < kawpow_fork_block + exchange_rate_hold_interval -> beta_rate parent c = Some parent) /\
  (c_bn c = sha_equivalent_fork_block -> beta_rate parent c = Some exchange_rate_after_sha_fork) /\
  (sha_equivalent_fork_block < c_bn c ->
   c_bn c < sha_equivalent_fork_block + exchange_rate_hold_interval_after_sha -> beta_rate parent c = Some parent).
Proof. exact beta_rate_fork_regimes. Qed.
Print Assumptions controller_frozen_and_pinned_in_fork_regimes.

(* rising / falling trajectories: outside the fork schedule the step is CalculateKQuai on the
   window average *)
Theorem controller_step_outside_fork_regimes : forall parent c r,
  0 <= parent -> ctl_ok c ->
  controller_kick_in_block + token_choice_set_size <= c_bn c ->
  fork_override (c_bn c) parent = None ->
  beta_rate parent c = Some r ->
  let xb := total_diff (c_runs c) / token_choice_set_size * two64 / c_logbest c in
  0 <= r /\ parent * (one_over_alpha - 1) - one_over_alpha < r * one_over_alpha /\
  (0 < xb * c_logmd c - two64 * c_md c -> parent <= r) /\
  (xb * c_logmd c - two64 * c_md c <= 0 -> r <= parent) /\
  (xb * c_logmd c = two64 * c_md c -> r = parent).
Proof. exact beta_rate_controller_step. Qed.
Print Assumptions controller_step_outside_fork_regimes.

(* every exchange-rate trajectory (any length, any mix of fork regimes, windows, difficulties)
   that starts non-negative stays non-negative: the hypotheses 0 <= header rate / 0 <= new rate of
   the conversion theorems hold along the whole chain *)
Theorem rate_trajectory_never_negative : forall cs k0 k,
  0 <= k0 -> Forall ctl_ok cs -> rate_trajectory k0 cs = Some k -> 0 <= k.
Proof. exact rate_trajectory_nonneg. Qed.
Print Assumptions rate_trajectory_never_negative.

(* the prime block as ONE function (rate from the store while the update is paused, else from the
   controller; then the three passes): the rate hypothesis of every reprice theorem is discharged *)
Theorem prime_block_rate_hypothesis_discharged : forall disc h stored c etxs knew r,
  rates_ok h -> ctl_ok c -> (forall k, stored = Some k -> 0 <= k) ->
  Forall (fun e => 0 <= e_value e) etxs ->
  prime_block disc h stored c etxs = Some (knew, r) ->
  inputs_ok h knew etxs /\ reprice disc h knew etxs = Some r.
Proof. exact prime_block_inputs_ok. Qed.
Print Assumptions prime_block_rate_hypothesis_discharged.

Theorem prime_block_credit_le_rate_amount : forall disc,
  (forall v m, 0 <= v -> 0 <= disc v m <= v) ->
  forall h stored c etxs knew r o,
  rates_ok h -> ctl_ok c -> (forall k, stored = Some k -> 0 <= k) ->
  Forall (fun e => 0 <= e_value e) etxs -> postfork h = true -> 0 <= h_kqd h ->
  prime_block disc h stored c etxs = Some (knew, r) -> In o (r_out r) -> o_kind o = KConverted ->
  0 <= knew /\ o_value o <= rate_amount h knew (o_e o) (e_value (o_e o)).
Proof. exact prime_block_credit_le_rate. Qed.
Print Assumptions prime_block_credit_le_rate_amount.

(* END TO END (repricing -> destination -> redemption step), per conversion of a prime block, for
   every mix, order, slip, ETX gas, recipient: [settle] yields exactly one outcome; a credit (Qi
   minted, or Quai paid by the redemption step) is at most the repriced value, which is at most
   the rate-implied amount of the ORIGINAL value; a refused Quai->Qi conversion returns exactly
   the original Quai; a refused Qi->Quai conversion returns at most original - dust (exactly that
   when the ETX gas pays every piece; see revert_returns_original_on_qi_ledger_refuted). *)
Theorem conversion_end_to_end : forall disc,
  (forall v m, 0 <= v -> 0 <= disc v m <= v) ->
  forall h knew etxs r o ptn gas fee ex,
  inputs_ok h knew etxs -> postfork h = true -> 0 <= h_kqd h ->
  reprice disc h knew etxs = Some r -> In o (r_out r) ->
  e_conv (o_e o) = true -> 0 < e_value (o_e o) ->
  qi_amounts_in_range h knew (o_e o) -> 0 <= gas -> 0 <= fee ->
  match settle ptn gas fee ex o with
  | ONone => False
  | OCreditQi a =>
      o_kind o = KConverted /\ e_toqi (o_e o) = true /\
      0 <= a <= o_value o /\ o_value o <= rate_amount h knew (o_e o) (e_value (o_e o))
  | OCreditQuai a =>
      o_kind o = KConverted /\ e_toqi (o_e o) = false /\
      0 <= a <= o_value o /\ (ex = true -> a = o_value o) /\
      o_value o <= rate_amount h knew (o_e o) (e_value (o_e o))
  | ORefundQuai a => o_kind o = KReverted /\ e_toqi (o_e o) = true /\ a = e_value (o_e o)
  | ORefundQi a =>
      o_kind o = KReverted /\ e_toqi (o_e o) = false /\
      0 <= a <= e_value (o_e o) - dust (e_value (o_e o)) /\
      dust (e_value (o_e o)) < smallest_refundable /\
      (denoms_count (filter above_trim (find_min_denominations (e_value (o_e o)))) * call_value_transfer_gas <= gas ->
       denoms_count (filter above_trim (find_min_denominations (e_value (o_e o)))) <= max_output_index ->
       a = e_value (o_e o) - dust (e_value (o_e o)))
  end.
Proof. exact pipeline_end_to_end. Qed.
Print Assumptions conversion_end_to_end.

(* the Qi credit is exactly the repriced value when the ETX gas pays TxGas plus every output *)
Theorem destination_mint_exact_with_gas : forall ptn gas v,
  0 <= v -> v < two64 * top_den -> controller_kick_in_block <= ptn ->
  tx_gas + denoms_count (find_min_denominations v) * call_value_transfer_gas <= gas ->
  denoms_count (find_min_denominations v) <= max_output_index ->
  settle_qi ptn gas v = v.
Proof. exact settle_qi_exact. Qed.
Print Assumptions destination_mint_exact_with_gas.

(* the Quai credit of [settle] is what the redemption step of RedeemLockedQuai pays for the ETX *)
Theorem quai_credit_is_the_redemption_step : forall fee exs out e,
  snd (pay_one fee (exs, out) e) =
  out ++ (if negb (n_mem (q_to e) exs) && (q_value e <? fee) then []
          else [(q_id e, q_to e, settle_quai fee (n_mem (q_to e) exs) (q_value e))]).
Proof. exact settle_quai_is_pay_one. Qed.
Print Assumptions quai_credit_is_the_redemption_step.

Example controller_nonvacuous :
  let d := 5000000000000 in let ld := 778177102095775710118 in let k := 221077819000000000 in
  let bal := two64 * d / ld in
  calc_kquai k d ld 2000000 (2 * bal) = Some 221298896818998026 /\
  calc_kquai k d ld 800000 (2 * bal) = Some 221151511606332675 /\
  calc_kquai k d ld 2000000 (bal / 2) = Some 220967280090499506 /\
  beta_rate k (mkCtl 1011200 [(3 * d, 4000)] 807414499713005568838 d ld) = Some (k * 75 / 100) /\
  beta_rate k (mkCtl 1171500 [(3 * d, 4000)] 807414499713005568838 d ld) = Some exchange_rate_reset_after_kawpow /\
  beta_rate k (mkCtl 1171501 [(3 * d, 4000)] 807414499713005568838 d ld) = Some k.
Proof. exact controller_witness. Qed.

(* the whale of [reprice_nonvacuous] is minted in full with ample gas and loses everything below
   TxGas; the conversion refused behind it gets its Quai back *)
Example pipeline_nonvacuous :
  let h := mkHdr 300000 221077819000000000 737869762948382064640 5000000000000 8000000000 100 10000000000000000000000 true in
  let l := [mkEtx 1%N true true 10000000000000000000000 (Some 30); mkEtx 2%N false true 77 None;
            mkEtx 3%N true true 60000000000000000000000 (Some 9000)] in
  option_map (fun r => map (settle 300000 1000000 0 true) (r_out r)) (reprice disc_ideal h 221077819000000000 l)
  = Some [OCreditQi 3317060; ORefundQuai 10000000000000000000000; ONone]
  /\ settle_qi 300000 20999 3317060 = 0 /\ settle_qi 262000 30000 3317060 = 1000000 /\ settle_qi 261999 1000000 3317060 = 0.
Proof. vm_compute. repeat split; reflexivity. Qed.

(* C02 — Quai ledger: executing a transaction never creates value.
   Property theorems only: each is closed by [exact <lemma>] and followed by [Print Assumptions].
   Model: Model/C02.v   Lemmas: Proofs/C02_Exec.v, Proofs/C02_Trans.v, Proofs/C02.v
   Reading guide: [init b] is the per-transaction state over balances [b]; [apply_tx] = core.ApplyMessage
   followed by StateDB.Finalize (an ordinary Quai transaction), [apply_etx] = the same wrapped in the
   staging of an inbound ETX's value on the zone's zero address; [top] is the balance-relevant effect tree
   of ARBITRARY bytecode (unbounded depth and width); [charge] is what the fee payer loses to gas;
   [etx_total] sums value+fee debited for the emitted ETXs; [burn] is value destroyed; [rent_credit] is
   (base fee x CallNewAccountGas) x number of rent refunds granted. *)
From Coq Require Import List ZArith NArith Bool.
From GQ Require Import Lib.C02_BMap Generated.C02Sites Model.C02 Proofs.C02_Exec Proofs.C02_Trans Proofs.C02_Out Proofs.C02 Proofs.C02_Fees.
Import ListNotations.
Local Open Scope Z_scope.

(* 1. Conservation, exact, for every message and every effect tree. *)
Theorem transition_conserves : forall e m o top b s' used failed,
  wf top = true -> wf_msg m ->
  apply_tx e m o top (init b) = (s', RDone used failed) ->
  bsum (bal s') = bsum b - charge m (RDone used failed) - etx_total (etx s') - burn s' + rent_credit e s'.
Proof. exact tx_conserves. Qed.
Print Assumptions transition_conserves.

(* 1b. The same between two arbitrary intermediate states of ApplyMessage (no fresh-state assumption). *)
Theorem transition_conserves_any_state : forall e m o top s s' used failed,
  wf top = true -> wf_msg m ->
  transition e m o top s = (s', RDone used failed) ->
  bsum (bal s') = bsum (bal s) - charge m (RDone used failed)
                  - (etx_total (etx s') - etx_total (etx s)) - (burn s' - burn s)
                  + (rent_credit e s' - rent_credit e s).
Proof. exact transition_conserves_gen. Qed.
Print Assumptions transition_conserves_any_state.

(* 2. Never creates: the only upward term is the rent refund; ETX debits and destroyed value are >= 0. *)
Theorem never_creates_value : forall e m o top b s' used failed,
  wf_tx e m o top -> wf_msg m -> nonneg b ->
  apply_tx e m o top (init b) = (s', RDone used failed) ->
  bsum (bal s') <= bsum b - charge m (RDone used failed) + rent_credit e s'
  /\ 0 <= etx_total (etx s') /\ 0 <= burn s'.
Proof. exact tx_never_creates. Qed.
Print Assumptions never_creates_value.

(* 3. The rent refund is granted at most once per account and transaction after the fork,
      and only to accounts that end the transaction self-destructed. *)
Theorem rent_refund_at_most_once : forall e m o top b s' r,
  e_prefork e = false -> wf top = true ->
  apply_tx e m o top (init b) = (s', r) ->
  NoDup (rent s') /\ (forall a, In a (rent s') -> mem a (sui s') = true)
  /\ Z.of_nat (length (rent s')) <= Z.of_nat (length (nodup N.eq_dec (sui s'))).
Proof. exact tx_rent_once. Qed.
Print Assumptions rent_refund_at_most_once.

(* 4. No balance ever becomes negative (ordinary transaction / inbound ETX; any outcome). *)
Theorem no_negative_balance : forall e m o top b s' r,
  wf_tx e m o top -> nonneg b -> apply_tx e m o top (init b) = (s', r) -> nonneg (bal s').
Proof. exact tx_no_negative_balance. Qed.
Print Assumptions no_negative_balance.

Theorem no_negative_balance_inbound_etx : forall e m o top b s' r,
  wf_tx e m o top -> nonneg b -> apply_etx e m o top (init b) = (s', r) -> nonneg (bal s').
Proof. exact etx_no_negative_balance. Qed.
Print Assumptions no_negative_balance_inbound_etx.

(* 4b. ... and inside the execution: every action keeps balances non-negative, only lets the ETX
       debits, the destroyed value, the refund list and the self-destructed set grow. *)
Theorem action_keeps_nonneg : forall e a, 0 <= e_rent e -> wf a = true -> forall s, grows s (exec e a s).
Proof. exact exec_grows. Qed.
Print Assumptions action_keeps_nonneg.

(* 5. Gas: 0 <= used <= limit, used x price <= charged <= limit x price, equality on the executed path;
      the payer could afford limit x price + value. *)
Theorem gas_charge_bounds : forall e m o top s s' used failed,
  m_isETX m = false -> 0 <= m_price m -> wf_opq m o -> wf_shape m ->
  transition e m o top s = (s', RDone used failed) ->
  0 <= used <= m_gas m
  /\ used * m_price m <= charge m (RDone used failed) <= m_gas m * m_price m
  /\ (m_kind m = KNormal -> charge m (RDone used failed) = used * m_price m)
  /\ bget (m_from m) (bal s) >= m_gas m * m_price m + m_value m.
Proof. exact gas_bounds. Qed.
Print Assumptions gas_charge_bounds.

(* 6. A failed transaction touches only the fee payer.
   FULL statement (as in the property): for every top-level action, failed = true implies that every
   balance except the payer's is unchanged.  It is FALSE for the faithful model and for the code:
   EVM.create does not revert on ErrCodeStoreOutOfGas (core/vm/evm.go: `if err != nil && err !=
   ErrCodeStoreOutOfGas { revertToSnapshot }`, the Homestead condition of go-ethereum is gone), so a
   top-level creation that cannot pay for storing its code fails with the endowment moved and every
   effect of the init code kept.  Refuted by the witness below (replayed on the real code by the
   harness corpus case "top-level creation: code storage out of gas"); proved for everything else. *)
Theorem failed_tx_touches_only_payer_refuted :
  exists e m o top s s' used a,
    is_top top = true /\ wf top = true /\
    transition e m o top s = (s', RDone used true) /\ a <> m_from m /\ bget a (bal s') <> bget a (bal s).
Proof. exact failed_only_payer_refuted. Qed.
Print Assumptions failed_tx_touches_only_payer_refuted.

Theorem failed_tx_touches_only_payer_partial : forall e m o top s s' used,
  is_top top = true -> store_oog top = false ->
  transition e m o top s = (s', RDone used true) ->
  (forall a, a <> m_from m -> bget a (bal s') = bget a (bal s))
  /\ sui s' = sui s /\ etx s' = etx s /\ burn s' = burn s /\ rent s' = rent s.
Proof. exact failed_only_payer. Qed.
Print Assumptions failed_tx_touches_only_payer_partial.

(* 6b. A message refused with a consensus error changed nothing, or only debited the payer's gas
       purchase (intrinsic-gas / clause-6 refusals come after buyGas; the caller discards the state). *)
Theorem invalid_tx_touches_only_payer : forall e m o top s s',
  transition e m o top s = (s', RInvalid) ->
  s' = s \/ (m_isETX m = false /\ s' = p_sub (m_from m) (m_gas m * m_price m) s).
Proof. exact transition_invalid. Qed.
Print Assumptions invalid_tx_touches_only_payer.

(* 7. A reverted frame is balance-neutral: balances, self-destruct marks, ETX cache and the ghosts
      are exactly those at frame entry, whatever ran inside. *)
Theorem reverted_frame_balance_neutral : forall e a s,
  reverted_frame a = true -> core (exec e a s) = core s.
Proof. exact reverted_frame_neutral. Qed.
Print Assumptions reverted_frame_balance_neutral.

(* 7b. The outbound set.  [live_sends a] lists, from the tree alone, the sends recorded by operations that
       are not inside a frame that failed and was rolled back (any frame kind: CALL, CALLCODE, DELEGATECALL,
       STATICCALL, CREATE/CREATE2, out-of-zone CALL).  Whatever runs, from whatever state, the ETX cache
       grows by a subsequence of that list, in order: an ETX recorded inside a frame that later fails - at
       any depth below it - never stays in the outbound set. *)
Theorem outbound_only_from_surviving_sends : forall e a s,
  exists d, etx (exec e a s) = etx s ++ d /\ sublist d (live_sends a).
Proof. exact exec_outbound. Qed.
Print Assumptions outbound_only_from_surviving_sends.

Theorem failed_frame_emits_no_etx : forall e a s,
  reverted_frame a = true -> etx (exec e a s) = etx s.
Proof. exact failed_frame_emits_nothing. Qed.
Print Assumptions failed_frame_emits_no_etx.

(* 7c. ... and for the whole transaction (any message kind, any outcome, Finalize included): the ETXs of
       the result are a subsequence of the surviving sends of the top-level action.  With theorem 1 (the
       balances dropped by the debits of exactly the ETXs of the result) no ETX leaves that nobody paid. *)
Theorem result_etxs_only_from_surviving_sends : forall e m o top b s' r,
  apply_tx e m o top (init b) = (s', r) ->
  sublist (etx s') (live_sends top)
  /\ (forall x, In x (etx s') -> In x (live_sends top))
  /\ (length (etx s') <= length (live_sends top))%nat.
Proof. exact tx_outbound. Qed.
Print Assumptions result_etxs_only_from_surviving_sends.

(* 8. Every action conserves the ledger (balances + ETX debits + destroyed - minted refunds). *)
Theorem action_conserves : forall e a, wf a = true -> forall s, ledger e (exec e a s) = ledger e s.
Proof. exact exec_ledger. Qed.
Print Assumptions action_conserves.

(* 9. Inbound ETX: the only credit is the transfer's own value; the zero address is restored. *)
Theorem inbound_etx_conserves : forall e m o top b s' used failed,
  wf top = true -> m_isETX m = true -> m_price m = 0 ->
  apply_etx e m o top (init b) = (s', RDone used failed) ->
  bsum (bal s') = bsum b + m_value m - etx_total (etx s') - burn s' + rent_credit e s'.
Proof. exact etx_conserves. Qed.
Print Assumptions inbound_etx_conserves.

Theorem inbound_etx_never_creates : forall e m o top b s' used failed,
  wf_tx e m o top -> m_isETX m = true -> m_price m = 0 -> nonneg b ->
  apply_etx e m o top (init b) = (s', RDone used failed) ->
  bsum (bal s') <= bsum b + m_value m + rent_credit e s'.
Proof. exact etx_never_creates. Qed.
Print Assumptions inbound_etx_never_creates.

Theorem etx_zero_address_restored : forall e m o top s s' r,
  apply_etx e m o top s = (s', r) -> bget (e_zero e) (bal s') = bget (e_zero e) (bal s).
Proof. exact apply_etx_zero_restored. Qed.
Print Assumptions etx_zero_address_restored.

(* 10. Finalize only deletes: self-destructed accounts end at 0, nobody else moves, the sum cannot grow. *)
Theorem finalize_only_burns : forall s, nonneg (bal s) ->
  nonneg (bal (finalise s)) /\ burn s <= burn (finalise s) /\ bsum (bal (finalise s)) <= bsum (bal s).
Proof. exact finalise_only_burns. Qed.
Print Assumptions finalize_only_burns.

Theorem finalize_deletes_exactly_selfdestructed : forall s a,
  (mem a (sui s) = true -> bget a (bal (finalise s)) = 0)
  /\ (mem a (sui s) = false -> bget a (bal (finalise s)) = bget a (bal s)).
Proof. intros s a. split; [exact (finalise_deletes s a)|exact (finalise_keeps s a)]. Qed.
Print Assumptions finalize_deletes_exactly_selfdestructed.

(* 11. "Sum of all balances" is the sum over the distinct accounts: the key set stays duplicate-free. *)
Theorem balance_map_keys_distinct : forall e a, wf a = true ->
  forall s, NoDup (bkeys (bal s)) -> NoDup (bkeys (bal (exec e a s))).
Proof. exact exec_keys_nodup. Qed.
Print Assumptions balance_map_keys_distinct.

(* 12. Obligations on data generated from the source tree (re-established on every run):
   every syntactic balance-touching call site outside core/state is in the reviewed table of
   Model/C02.v, every balance writer inside core/state likewise, the vm.StateDB interface is exactly
   the reviewed method set (its balance-mutating methods are the ones the harness wrapper logs),
   and the protocol constants have the shape the model assumes. *)
Theorem callsites_covered_ok : callsites_covered = true.
Proof. exact callsites_covered_true. Qed.
Print Assumptions callsites_covered_ok.

Theorem state_writers_covered_ok : state_writers_covered = true.
Proof. exact state_writers_covered_true. Qed.
Print Assumptions state_writers_covered_ok.

Theorem statedb_interface_covered_ok : iface_covered = true.
Proof. exact iface_covered_true. Qed.
Print Assumptions statedb_interface_covered_ok.

Theorem params_ok_holds : params_ok = true.
Proof. exact params_ok_true. Qed.
Print Assumptions params_ok_holds.

(* 12b. Any sequence of transactions and inbound ETXs (the Quai part of a block; messages refused with a
   consensus error are not included): balances stay non-negative and the sum moves by exactly the totals of
   gas charges, ETX debits, destroyed value, rent refunds and inbound values; all totals only grow. *)
Theorem block_never_creates_value : forall l b acc b' acc',
  Forall wf_txn l -> nonneg b -> run_block l b acc = (b', acc') ->
  nonneg b'
  /\ bsum b' = bsum b - (tot_charge acc' - tot_charge acc) - (tot_etx acc' - tot_etx acc) - (tot_burn acc' - tot_burn acc)
               + (tot_rent acc' - tot_rent acc) + (tot_inbound acc' - tot_inbound acc)
  /\ tot_charge acc <= tot_charge acc' /\ tot_etx acc <= tot_etx acc' /\ tot_burn acc <= tot_burn acc'
  /\ tot_inbound acc <= tot_inbound acc'.
Proof. exact block_conserves. Qed.
Print Assumptions block_never_creates_value.

(* 12c. Block-shaped cases of the correspondence check (several messages on one StateDB, only Finalize in
   between): the boolean evaluated on every observed case implies the hypotheses of 12b for the messages that
   were applied before it in the same block ... *)
Theorem block_case_hypotheses_checked : forall c, blk_hyps_ok c = true ->
  Forall wf_txn (c_blk c) /\ nonneg (c_blkpre c).
Proof. exact blk_hyps_ok_sound. Qed.
Print Assumptions block_case_hypotheses_checked.

(* ... so for every observed block the model's run (which [blk_ok] compares with the balances the real
   StateDB shows in front of the next message) moves the sum by exactly the totals and never up except by
   rent refunds and inbound values. *)
Theorem observed_block_never_creates_value : forall c b' acc',
  blk_hyps_ok c = true -> run_block (c_blk c) (c_blkpre c) tot0 = (b', acc') ->
  nonneg b'
  /\ bsum b' = bsum (c_blkpre c) - tot_charge acc' - tot_etx acc' - tot_burn acc' + tot_rent acc' + tot_inbound acc'
  /\ bsum b' <= bsum (c_blkpre c) - tot_charge acc' - tot_etx acc' + tot_rent acc' + tot_inbound acc'
  /\ 0 <= tot_charge acc' /\ 0 <= tot_etx acc' /\ 0 <= tot_burn acc' /\ 0 <= tot_inbound acc'.
Proof. exact checked_block_conserves. Qed.
Print Assumptions observed_block_never_creates_value.

(* 12d. What Finalize destroyed stays destroyed: an account a transaction leaves marked self-destructed holds 0
   afterwards, whatever it received after its SELFDESTRUCT; the next message of the block starts from exactly
   these balances with nobody marked ([run_tx]), so re-creating the address (transfer, CALL with value, CREATE2
   redeploy, inbound ETX, beneficiary) starts it from 0. *)
Theorem destroyed_account_restarts_empty : forall e m o top s s' used failed a,
  apply_tx e m o top s = (s', RDone used failed) -> mem a (sui s') = true -> bget a (bal s') = 0.
Proof. exact destroyed_account_restarts_empty. Qed.
Print Assumptions destroyed_account_restarts_empty.

(* 13. The correspondence check evaluates, on every observed case, a boolean that implies the hypotheses
   used above (non-negative value/gas/price/pre-balances, 0 <= gas left <= limit, inbound ETX price 0). *)
Theorem case_hypotheses_checked : forall c, hyps_ok c = true ->
  wf_tx (c_env c) (c_msg c) (c_opq c) (c_top c) /\ wf_msg (c_msg c) /\ wf_shape (c_msg c)
  /\ (forall a v, In (a, v) (c_pre c) -> 0 <= v).
Proof. exact hyps_ok_sound. Qed.
Print Assumptions case_hypotheses_checked.

(* ---------- non-vacuity ---------- *)
Definition nv_env : env := mkEnv 2 25000 false 6000000 30000000 0%N.
(* contract 2 is called with 100, pays 30 to account 3 inside a frame that reverts, emits an ETX of
   40+6, self-destructs to account 4 (refund 50000) -- then Finalize *)
Definition nv_top : action :=
  ACall 1%N 2%N 100 2%N false
    [ACall 2%N 3%N 30 2%N false [] true; AEtx 2%N 40 6 true true; ASelfDestruct 2%N 4%N] false.
Definition nv_msg : msg := mkMsg 1%N 100 100000 3 false KNormal false 0 0 0 0.
Definition nv_opq : opaque := mkOpq true 20000 0 false.
Definition nv_pre : bmap := [(1%N, 1000000); (2%N, 7); (3%N, 0); (4%N, 1)].

Example transition_nonvacuous :
  exists s', apply_tx nv_env nv_msg nv_opq nv_top (init nv_pre) = (s', RDone 80000 false)
    /\ wf nv_top = true /\ wf_tx nv_env nv_msg nv_opq nv_top /\ nonneg nv_pre
    /\ bal s' = [(1%N, 759900); (2%N, 0); (3%N, 0); (4%N, 50062)]
    /\ etx s' = [(40, 6)] /\ rent s' = [2%N] /\ burn s' = 0
    /\ charge nv_msg (RDone 80000 false) = 240000.
Proof.
  eexists. split; [vm_compute; reflexivity|].
  split; [reflexivity|]. split.
  - unfold wf_tx, wf_opq. cbn. repeat split; try discriminate; reflexivity.
  - split; [|repeat split; reflexivity].
    intros a. unfold nv_pre. cbn. repeat (destruct (N.eqb a _); [discriminate|]). discriminate.
Qed.

(* the failed-transaction clause is not vacuous either: a reverted top frame *)
Example failed_tx_nonvacuous :
  let top := ACall 1%N 2%N 100 2%N false [ACall 2%N 3%N 30 2%N false [] false] true in
  exists s', transition nv_env nv_msg nv_opq top (init nv_pre) = (s', RDone 80000 true)
    /\ is_top top = true /\ store_oog top = false
    /\ bal s' = [(1%N, 760000); (2%N, 7); (3%N, 0); (4%N, 1)].
Proof. eexists. split; [vm_compute; reflexivity|]. repeat split; reflexivity. Qed.

Example block_nonvacuous :
  let t1 := mkTxn false nv_env nv_msg nv_opq nv_top in
  let t2 := mkTxn true nv_env (mkMsg 0%N 900 500000 0 true KNormal false 0 0 0 0) (mkOpq true 400000 0 false)
                  (ACall 0%N 3%N 900 2%N false [] false) in
  exists b' acc', run_block [t1; t2] nv_pre tot0 = (b', acc')
    /\ bsum b' = bsum nv_pre - 240000 - 46 - 0 + 50000 + 900 /\ tot_inbound acc' = 900 /\ tot_rent acc' = 50000.
Proof. eexists. eexists. split; [vm_compute; reflexivity|]. repeat split; reflexivity. Qed.

(* the third blind-change class: message 1 has contract 3 self-destruct (to account 4) and then pays it 5000,
   which Finalize burns; message 2 of the same block transfers 7 to the address: it holds 7, not 5007, and the
   5000 are in the block's burn total *)
Example block_resurrection_nonvacuous :
  let e := mkEnv 2 25000 false 6000000 30000000 0%N in
  let t1 := mkTxn false e (mkMsg 1%N 0 100000 3 false KNormal false 0 0 0 0) (mkOpq true 20000 0 false)
              (ACall 1%N 2%N 0 2%N false
                 [ACall 2%N 3%N 0 2%N false [ASelfDestruct 3%N 4%N] false; ACall 2%N 3%N 5000 2%N false [] false] false) in
  let t2 := mkTxn false e (mkMsg 1%N 7 100000 3 false KNormal false 0 0 0 0) (mkOpq true 50000 0 false)
              (ACall 1%N 3%N 7 2%N true [] false) in
  let pre := [(1%N, 1000000); (2%N, 90000); (3%N, 300); (4%N, 1)] in
  exists b' acc', run_block [t1; t2] pre tot0 = (b', acc')
    /\ bget 3%N b' = 7 /\ tot_burn acc' = 5000 /\ tot_rent acc' = 50000
    /\ bsum b' = bsum pre - tot_charge acc' - 5000 + 50000.
Proof. eexists. eexists. split; [vm_compute; reflexivity|]. repeat split; reflexivity. Qed.

(* the blind-change class: code entered by DELEGATECALL (same for CALLCODE: [checked] = true) debits the
   caller for an ETX of 500 + 42000 fee and then fails while the caller carries on and emits its own ETX
   of 7: only the 7 leaves, account 2 pays gas-free exactly 7, the 500 are neither debited nor emitted *)
Example outbound_nonvacuous :
  let top := ACall 1%N 2%N 0 2%N false
               [AFrame 2%N 0 false 2%N [AEtx 2%N 500 42000 true true; ACall 2%N 3%N 1 2%N false [] false] true;
                AFrame 2%N 3 true 2%N [AEtx 2%N 600 0 true true] true;
                AEtx 2%N 7 0 true true] false in
  let pre := [(1%N, 1000000); (2%N, 100000); (3%N, 0)] in
  exists s', apply_tx nv_env nv_msg nv_opq top (init pre) = (s', RDone 80000 false)
    /\ live_sends top = [(7, 0)] /\ etx s' = [(7, 0)]
    /\ bal s' = [(1%N, 760000); (2%N, 99993); (3%N, 0)]
    /\ (* the same tree with the inner frames NOT marked failed would have emitted all three *)
       live_sends (ACall 1%N 2%N 0 2%N false
               [AFrame 2%N 0 false 2%N [AEtx 2%N 500 42000 true true] false;
                AFrame 2%N 3 true 2%N [AEtx 2%N 600 0 true true] false;
                AEtx 2%N 7 0 true true] false) = [(500, 42000); (600, 0); (7, 0)].
Proof. eexists. split; [vm_compute; reflexivity|]. repeat split; reflexivity. Qed.

(* an inbound ETX whose target reverts: the staged value is lost, nothing is created *)
Example inbound_etx_nonvacuous :
  let m := mkMsg 0%N 900 500000 0 true KNormal false 0 0 0 0 in
  let top := ACall 0%N 2%N 900 2%N false [ACall 2%N 3%N 5 2%N false [] false] true in
  exists s', apply_etx nv_env m (mkOpq true 0 0 false) top (init nv_pre) = (s', RDone 500000 true)
    /\ bal s' = [(1%N, 1000000); (2%N, 7); (3%N, 0); (4%N, 1); (0%N, 0)] /\ burn s' = 900.
Proof. eexists. split; [vm_compute; reflexivity|]. split; reflexivity. Qed.

(* ---------- extension round: ExecutionResult.QuaiFees (what the block later pays to the miner) ---------- *)

(* 32. For every message, state and outcome (refused, inbound ETX, kQuai, transaction-level Suicide, executed
   with any effect tree) the fees handed to the block are non-negative and covered by what the payer lost
   to gas; on the executed path they are exactly that. *)
Theorem fees_covered_by_charge : forall e m o top s s' r,
  0 <= m_price m -> wf_opq m o -> wf_shape m ->
  transition e m o top s = (s', r) ->
  0 <= fees_of m r <= charge m r
  /\ (m_kind m = KNormal -> fees_of m r = charge m r).
Proof. exact fees_covered. Qed.
Print Assumptions fees_covered_by_charge.

(* 33. Over a block of any length (induction over the transaction list): the fees of all its results are
   covered by the gas charges accumulated along the same run. *)
Theorem block_fees_covered_by_charges : forall l b acc b' acc',
  Forall wf_txn_shape l -> nonneg b -> run_block l b acc = (b', acc') ->
  0 <= block_fees l b <= tot_charge acc' - tot_charge acc.
Proof. exact block_fees_covered. Qed.
Print Assumptions block_fees_covered_by_charges.

(* 34. Hence paying every QuaiFees of the block out to the miners still creates nothing: balances at the
   end plus all fees <= balances at the start - ETX debits - burn + rent refunds + inbound values. *)
Theorem block_with_fees_paid_out_never_creates_value : forall l b b' acc',
  Forall wf_txn_shape l -> nonneg b -> run_block l b tot0 = (b', acc') ->
  bsum b' + block_fees l b <= bsum b - tot_etx acc' - tot_burn acc' + tot_rent acc' + tot_inbound acc'
  /\ 0 <= block_fees l b /\ 0 <= tot_etx acc' /\ 0 <= tot_burn acc'.
Proof. exact block_with_fees_paid_never_creates. Qed.
Print Assumptions block_with_fees_paid_out_never_creates_value.

(* 35. The hypotheses of 33/34 are the booleans evaluated on every observed block (blk_ok). *)
Theorem observed_block_fees_covered_by_charges : forall c b' acc',
  blk_hyps_ok c = true -> blk_shape_ok c = true -> run_block (c_blk c) (c_blkpre c) tot0 = (b', acc') ->
  0 <= block_fees (c_blk c) (c_blkpre c) <= tot_charge acc'
  /\ bsum b' + block_fees (c_blk c) (c_blkpre c)
     <= bsum (c_blkpre c) - tot_etx acc' - tot_burn acc' + tot_rent acc' + tot_inbound acc'.
Proof. exact observed_block_fees_covered. Qed.
Print Assumptions observed_block_fees_covered_by_charges.

(* an executed transaction (80000 gas used at price 3) followed by a transaction-level Suicide (charged the
   whole gas limit 100000 x 3, fees only for the 21000 intrinsic gas): fees 303000 <= charges 540000 *)
Example fees_nonvacuous :
  let e := mkEnv 2 25000 false 6000000 30000000 0%N in
  let t1 := mkTxn false e (mkMsg 1%N 7 100000 3 false KNormal false 0 0 0 0) (mkOpq true 20000 0 false)
              (ACall 1%N 3%N 7 2%N true [] false) in
  let t2 := mkTxn false e (mkMsg 2%N 0 100000 3 false (KSuicide (Some 3%N)) false 27 0 0 0) (mkOpq true 0 0 false) AOther in
  let pre := [(1%N, 1000000); (2%N, 900000); (3%N, 0)] in
  exists b' acc', run_block [t1; t2] pre tot0 = (b', acc')
    /\ block_fees [t1; t2] pre = 80000 * 3 + (C02Sites.tx_gas + 27 * C02Sites.tx_data_non_zero_gas) * 3
    /\ tot_charge acc' = 80000 * 3 + 100000 * 3
    /\ block_fees [t1; t2] pre < tot_charge acc'.
Proof. eexists. eexists. split; [vm_compute; reflexivity|]. repeat split; vm_compute; reflexivity. Qed.

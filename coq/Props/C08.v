(* C08 -- A block is sealed only by work on exactly its contents.
   Property theorems only: each is closed by [exact <lemma>] and followed by [Print Assumptions].
   Model: Model/C08.v   Lemmas: Proofs/C08.v, Proofs/C08_engine.v, Proofs/C08_template.v   Generated data: Generated/C08Fields.v *)
From Coq Require Import String.
From Coq Require Import List ZArith Bool.
From GQ Require Import Generated.C08Fields Model.C08 Proofs.C08 Proofs.C08_engine Proofs.C08_template.
Import ListNotations.
Local Open Scope Z_scope.

(* ---- acceptance of a seal: hash <= 2^256 / difficulty, for ALL difficulties and hashes ---- *)

Theorem seal_accept_iff_le_target : forall e h, e_fake e = false ->
  (verify_seal e h = SealOk <->
   eng_err e h = false /\ 0 < h_diff h /\ of_be (eng_hash e h) <= two256 / h_diff h).
Proof. exact seal_accept_iff_le_target_lemma. Qed.
Print Assumptions seal_accept_iff_le_target.

(* the same without division: hash * difficulty <= 2^256 *)
Theorem seal_accept_iff_product : forall e h, e_fake e = false ->
  (verify_seal e h = SealOk <->
   eng_err e h = false /\ 0 < h_diff h /\ of_be (eng_hash e h) * h_diff h <= two256).
Proof. exact seal_accept_iff_product_lemma. Qed.
Print Assumptions seal_accept_iff_product.

(* difficulty 0 (and below): rejected whatever the hash *)
Theorem seal_difficulty_zero_rejected : forall e h, e_fake e = false -> h_diff h <= 0 -> verify_seal e h = SealBadDiff.
Proof. exact verify_seal_nonpositive. Qed.
Print Assumptions seal_difficulty_zero_rejected.

(* difficulty 1: target = 2^256, every 256-bit hash is accepted *)
Theorem seal_difficulty_one_accepts_every_hash : forall e h, e_fake e = false -> eng_err e h = false -> h_diff h = 1 ->
  bytes_ok (eng_hash e h) -> length (eng_hash e h) = 32%nat -> verify_seal e h = SealOk.
Proof. exact seal_difficulty_one_lemma. Qed.
Print Assumptions seal_difficulty_one_accepts_every_hash.

(* difficulty = 2^256: target 1; difficulty > 2^256: target 0 (only the all-zero hash) *)
Theorem seal_difficulty_2e256_boundary : forall e h, e_fake e = false -> eng_err e h = false -> bytes_ok (eng_hash e h) ->
  (h_diff h = two256 -> (verify_seal e h = SealOk <-> of_be (eng_hash e h) <= 1)) /\
  (two256 < h_diff h -> (verify_seal e h = SealOk <-> of_be (eng_hash e h) = 0)).
Proof. exact seal_difficulty_huge_lemma. Qed.
Print Assumptions seal_difficulty_2e256_boundary.

(* a larger difficulty has a smaller-or-equal target and accepts a subset *)
Theorem target_antitone : forall d1 d2, 0 < d1 <= d2 ->
  target d2 <= target d1 /\
  forall e h, verify_seal e (with_diff h d2) = SealOk -> verify_seal e (with_diff h d1) = SealOk.
Proof. exact target_antitone_full. Qed.
Print Assumptions target_antitone.

(* an accepted hash stays accepted when it gets smaller *)
Theorem seal_monotone : forall e h a b a' b',
  of_be a' <= of_be a -> of_be b' <= of_be b ->
  verify_seal (with_hashes e a b) h = SealOk -> verify_seal (with_hashes e a' b') h = SealOk.
Proof. exact seal_monotone_lemma. Qed.
Print Assumptions seal_monotone.

(* ---- workshares ---- *)

Theorem workshare_threshold_value : forall d k t,
  calc_ws_threshold d k = ThrOk t <-> 0 < k /\ d <> 0 /\ t = go_div two256 d * 2 ^ k.
Proof. exact calc_ws_threshold_spec. Qed.
Print Assumptions workshare_threshold_value.

Theorem workshare_threshold_monotone : forall d d' k k', 0 < d <= d' -> 0 <= k <= k' ->
  ws_threshold d' k <= ws_threshold d k' /\
  (forall t t', calc_ws_threshold d' k = ThrOk t -> calc_ws_threshold d k' = ThrOk t' -> t <= t').
Proof. exact workshare_threshold_monotone_lemma. Qed.
Print Assumptions workshare_threshold_monotone.

Theorem sealed_block_meets_every_workshare_threshold : forall e h k, 0 < k ->
  verify_seal e h = SealOk -> check_work_threshold e h k = WBool true.
Proof. exact seal_implies_threshold. Qed.
Print Assumptions sealed_block_meets_every_workshare_threshold.

(* Full statement (CheckWorkThreshold is total: forall e h k, check_work_threshold e h k <> WPanic) is FALSE of the
   code: big.Int.Div(2^256, 0).  Exact characterisation and witness; the witness is corpus case thr/d0-k3. *)
Theorem workshare_threshold_panics_iff : forall e h k,
  check_work_threshold e h k = WPanic <-> 0 < k /\ h_diff h = 0.
Proof. exact check_work_threshold_panic_iff. Qed.
Print Assumptions workshare_threshold_panics_iff.

Theorem workshare_threshold_total_refuted : exists e h k, check_work_threshold e h k = WPanic.
Proof. exact Proofs.C08.workshare_threshold_total_refuted. Qed.
Print Assumptions workshare_threshold_total_refuted.

Theorem valid_workshare_panics_iff : forall e h,
  check_valid_ws e h = WsPanic <->
  (u64 (h_ptn h) < kawpow_fork_block /\ h_diff h = 0) \/ (kawpow_fork_block <= u64 (h_ptn h) /\ kawpow_share_diff h = 0).
Proof. exact check_valid_ws_panic_iff. Qed.
Print Assumptions valid_workshare_panics_iff.

(* ... and after the fork a POSITIVE difficulty below ExpectedWorksharesPerBlock+1 can do it too (corpus ws/post-sharediff-rounds-to-0) *)
Theorem valid_workshare_total_refuted :
  exists e h, 0 < h_diff h /\ kawpow_fork_block <= h_ptn h /\ check_valid_ws e h = WsPanic.
Proof. exact Proofs.C08.valid_workshare_total_refuted. Qed.
Print Assumptions valid_workshare_total_refuted.

(* the kawpow share difficulty lies between a (n+1)-th of the block difficulty and the block difficulty *)
Theorem kawpow_share_difficulty_bounds : forall h,
  kawpow_fork_block <= u64 (h_ptn h) -> 0 <= h_diff h -> shares_nonneg h ->
  h_diff h / (expected_workshares_per_block + 1) <= kawpow_share_diff h <= h_diff h.
Proof. exact kawpow_share_diff_bounds. Qed.
Print Assumptions kawpow_share_difficulty_bounds.

(* a Valid workshare did at least the work of its threshold *)
Theorem valid_share_needs_work : forall e h,
  check_valid_ws e h = WsValid -> 0 < h_diff h -> shares_nonneg h ->
  eng_err e h = false /\
  (u64 (h_ptn h) < kawpow_fork_block ->
     of_be (eng_hash e h) <= two256 / h_diff h * 2 ^ workshares_threshold_diff) /\
  (kawpow_fork_block <= u64 (h_ptn h) ->
     exists sd, sd = kawpow_share_diff h /\ 0 < sd /\ h_diff h / (expected_workshares_per_block + 1) <= sd <= h_diff h /\
                of_be (eng_hash e h) <= two256 / sd).
Proof. exact valid_share_needs_work_lemma. Qed.
Print Assumptions valid_share_needs_work.

(* Full statement: every sealed block is a Valid workshare.  Partial: needs difficulty >= n+1 after the fork
   (below that CheckIfValidWorkShare panics, see valid_workshare_total_refuted). *)
Theorem sealed_block_is_valid_workshare_partial : forall e h,
  verify_seal e h = SealOk -> shares_nonneg h ->
  (u64 (h_ptn h) < kawpow_fork_block \/ expected_workshares_per_block + 1 <= h_diff h) ->
  check_valid_ws e h = WsValid.
Proof. exact sealed_is_valid_ws. Qed.
Print Assumptions sealed_block_is_valid_workshare_partial.

(* share classification: "Block" only with a verified seal; a donor-chain share only below its declared target *)
Theorem block_class_needs_seal : forall e h, classify e h = WsBlock -> seal_err (verify_seal e h) = false.
Proof. exact classify_block_needs_seal. Qed.
Print Assumptions block_class_needs_seal.

Theorem donor_share_needs_target : forall e h id,
  activated h = true -> transition_progpow h = false -> h_aux h = Some id ->
  id = powid_sha_btc \/ id = powid_sha_bch \/ id = powid_scrypt ->
  classify e h = WsValid ->
  exists sd, (if id =? powid_scrypt then h_scrD h else h_shaD h) = Some sd /\ sd <> 0 /\
             of_be (h_donor_pow h) < go_div two256 sd.
Proof. exact donor_share_class_lemma. Qed.
Print Assumptions donor_share_needs_target.

(* ---- the donor coinbase commits to the seal hash: byte level ---- *)

Theorem coinbase_seal_hash_position : forall ss h, extract_seal_hash ss = Some h ->
  exists op1 hd sz rest, ss = op1 :: hd ++ 44 :: magic ++ h ++ sz ++ rest /\
    (length hd <= 5)%nat /\ length hd = Z.to_nat op1 /\ length h = 32%nat /\ length sz = 8%nat.
Proof. exact extract_seal_hash_sound. Qed.
Print Assumptions coinbase_seal_hash_position.

Theorem coinbase_script_sig_is_segment : forall tx ss, extract_script_sig tx = Some ss ->
  exists pre post, tx = pre ++ ss ++ post /\ (ss <> [] -> (42 <= length pre)%nat).
Proof. exact extract_script_sig_sound. Qed.
Print Assumptions coinbase_script_sig_is_segment.

Theorem coinbase_commitment_in_transaction : forall tx ss h,
  extract_script_sig tx = Some ss -> extract_seal_hash ss = Some h ->
  exists pre post, tx = pre ++ magic ++ h ++ post /\ (44 <= length pre)%nat /\ length h = 32%nat.
Proof. exact coinbase_commitment_is_in_tx. Qed.
Print Assumptions coinbase_commitment_in_transaction.

(* ---- merkle binding (double-SHA256 abstract; conclusion "... or a collision") ---- *)

Theorem merkle_branch_binding : forall (H : bytes -> bytes) id tx1 tx2 br,
  powid_kawpow <= id <= powid_scrypt ->
  merkle_root H id tx1 br = merkle_root H id tx2 br -> tx1 <> tx2 -> collision H.
Proof. exact merkle_branch_binding_lemma. Qed.
Print Assumptions merkle_branch_binding.

Theorem merkle_root_binds_leaf_and_branch : forall (H : bytes -> bytes) id tx1 tx2 br1 br2,
  powid_kawpow <= id <= powid_scrypt -> length br1 = length br2 ->
  merkle_root H id tx1 br1 = merkle_root H id tx2 br2 ->
  (tx1 = tx2 /\ map norm32 br1 = map norm32 br2) \/ collision H.
Proof. exact merkle_root_binding_same_len. Qed.
Print Assumptions merkle_root_binds_leaf_and_branch.

Theorem merkle_root_binds_leaf_any_depth : forall (H : bytes -> bytes) id tx1 tx2 br1 br2,
  powid_kawpow <= id <= powid_scrypt ->
  merkle_root H id tx1 br1 = merkle_root H id tx2 br2 ->
  tx1 = tx2 \/ collision H \/
  (exists y s, tx1 = H y ++ norm32 s) \/ (exists y s, tx2 = H y ++ norm32 s).
Proof. exact merkle_root_binding. Qed.
Print Assumptions merkle_root_binds_leaf_any_depth.

(* ---- acceptance of a merge-mined header binds everything the property names ---- *)

Theorem auxpow_accept_binds : forall (H : bytes -> bytes) i, verify_header_c08 H i = Accept ->
  v_hh i = v_bh i /\ pow_id_valid (v_ptn i) (option_map a_powid (v_aux i)) = true /\
  forall a, v_aux i = Some a -> kawpow_fork_block <= u64 (v_ptn i) ->
    a_powid a = powid_kawpow /\
    extract_seal_hash (script_of a) = Some (v_seal i) /\
    merkle_root H (a_powid a) (a_tx a) (a_branch a) = a_donor_root a /\
    validate_prevout (a_tx a) = true /\ a_sig_ok a = true /\
    (exists st, extract_sig_time (script_of a) = Some st /\ st <= a_donor_time a /\ st <= v_time i).
Proof. exact verify_header_accept. Qed.
Print Assumptions auxpow_accept_binds.

(* Full statement for shares (accept => ... /\ a_sig_ok a = true) is FALSE of the code: VerifyUncles (and the gossip
   validator) waive the template signature for SHA/Scrypt shares whose primary coinbase is out of scope. *)
Theorem uncle_accept_binds_partial : forall (H : bytes -> bytes) e h sb ia time seal aux,
  verify_uncle_c08 H e h sb ia time seal aux = Accept ->
  (classify e h = WsValid \/ (classify e h = WsBlock /\ sb = false)) /\
  forall a, aux = Some a -> activated h = true ->
    commits_to H a seal /\
    merkle_root H (a_powid a) (a_tx a) (a_branch a) = a_donor_root a /\
    validate_prevout (a_tx a) = true /\
    (a_sig_ok a = true \/ (is_sha_or_scrypt (a_powid a) = true /\ ia = true)).
Proof. exact verify_uncle_accept. Qed.
Print Assumptions uncle_accept_binds_partial.

Theorem uncle_signature_required_refuted :
  exists H e h time seal a,
    a_sig_ok a = false /\ verify_uncle_c08 H e h true true time seal (Some a) = Accept.
Proof. exact Proofs.C08.uncle_signature_required_refuted. Qed.
Print Assumptions uncle_signature_required_refuted.

(* no accepted seal can be reused for different content: two seal hashes accepted under the same donor merkle root
   are equal, or double-SHA256 (32-byte output) collides *)
Theorem auxpow_seal_not_reusable : forall (H : bytes -> bytes) se1 se2 ia1 ia2 t1 t2 seal1 seal2 a1 a2,
  (forall x, length (H x) = 32%nat) ->
  a_powid a1 = a_powid a2 ->
  (a_powid a1 = powid_kawpow \/ a_powid a1 = powid_sha_btc \/ a_powid a1 = powid_sha_bch) ->
  a_donor_root a1 = a_donor_root a2 ->
  auxpow_section H se1 ia1 t1 seal1 a1 = Accept ->
  auxpow_section H se2 ia2 t2 seal2 a2 = Accept ->
  seal1 = seal2 \/ collision H.
Proof. exact seal_not_reusable. Qed.
Print Assumptions auxpow_seal_not_reusable.

(* The AuxPoW section is total: for every input it accepts or rejects, it never panics.  (Before fix commit
   f0c87e08 this was FALSE of the code: common.Hash(AuxPow2()) panicked on a Scrypt share with fewer than 32
   bytes of auxpow2; the corpus cases uncle/scrypt-auxpow2-short and -empty now assert the rejection.) *)
Theorem auxpow_section_total : forall (H : bytes -> bytes) se ia time seal a,
  auxpow_section H se ia time seal a <> Panic.
Proof. exact auxpow_section_total_lemma. Qed.
Print Assumptions auxpow_section_total.

(* ---- identity hash of a header without AuxPoW: blake3(mix | seal | nonce) ---- *)

Theorem wo_hash_binds_mix_seal_nonce : forall (B3 : bytes -> bytes) m1 s1 n1 m2 s2 n2,
  length m1 = 32%nat -> length m2 = 32%nat -> length s1 = 32%nat -> length s2 = 32%nat ->
  wo_progpow_hash B3 m1 s1 n1 = wo_progpow_hash B3 m2 s2 n2 ->
  (m1 = m2 /\ s1 = s2 /\ n1 = n2) \/ collision B3.
Proof. exact wo_progpow_hash_binds. Qed.
Print Assumptions wo_hash_binds_mix_seal_nonce.

(* ---- obligations on data regenerated from the source on every run ---- *)

Theorem seal_covers_every_field_but_nonce_mix_auxpow : seal_covers_all_but_nonce_mix_auxpow = true.
Proof. exact seal_covers_holds. Qed.
Print Assumptions seal_covers_every_field_but_nonce_mix_auxpow.

Theorem seal_hash_rebinds_coinbase : seal_hash_coinbase_rebound = true.
Proof. exact seal_hash_coinbase_holds. Qed.
Print Assumptions seal_hash_rebinds_coinbase.

Theorem body_header_hash_covers_every_field : body_header_hash_covers_all_fields = true.
Proof. exact body_header_holds. Qed.
Print Assumptions body_header_hash_covers_every_field.

Theorem protocol_constants_as_assumed : params_ok = true.
Proof. exact params_ok_holds. Qed.
Print Assumptions protocol_constants_as_assumed.

(* ---- the template signature covers everything that is hashed into the identity of a merge-mined object ---- *)

(* generated: ProtoAuxPow schema, AuxPow.ProtoEncode, every control-flow path of AuxPow.ConvertToTemplate, AuxTemplate.Hash:
   every identity field reaches the signed template on every path (or the path is the field's own nil-normalisation) *)
Theorem convert_to_template_covers_identity : template_covers_identity = true.
Proof. exact template_covers_identity_holds. Qed.
Print Assumptions convert_to_template_covers_identity.

(* equal signed messages (the template without its signature) => every signed part of the two AuxPoWs is equal: chain id,
   donor prevHash / version / bits, auxPow2 (up to nil = empty) FOR EVERY CHAIN ID, merkle branch, payout (outputs + locktime),
   signature time, and the Ravencoin height *)
Theorem template_covers_every_signed_field : forall a b,
  template_msg (template_of a) = template_msg (template_of b) ->
  af_powid a = af_powid b /\ af_prev a = af_prev b /\ af_version a = af_version b /\ af_bits a = af_bits b
  /\ aux2_norm (af_aux2 a) = aux2_norm (af_aux2 b) /\ af_branch a = af_branch b
  /\ extract_coinbase_out (af_tx a) = extract_coinbase_out (af_tx b)
  /\ t_sigtime (template_of a) = t_sigtime (template_of b)
  /\ (af_powid a = powid_kawpow -> af_height a = af_height b).
Proof. exact template_covers_signed_fields_lemma. Qed.
Print Assumptions template_covers_every_signed_field.

(* one signed message, one piece of work (donor header), one signature, one coinbase => one object: everything
   AuxPow.ProtoEncode writes (what the post-fork Hash() hashes) is equal, up to the nil/empty form of auxPow2.
   (That the coinbase is fixed by the donor header is merkle_root_binds_leaf_*; that a signature fits one message is the
   unforgeability of MuSig2, a trusted primitive.) *)
Theorem auxpow_identity_bound_by_template_work_coinbase_partial : forall a b,
  template_msg (template_of a) = template_msg (template_of b) ->
  af_donor a = af_donor b -> af_sig a = af_sig b -> af_tx a = af_tx b ->
  identity_norm a = identity_norm b.
Proof. exact auxpow_identity_bound_lemma. Qed.
Print Assumptions auxpow_identity_bound_by_template_work_coinbase_partial.

(* the full statement (identity a = identity b) is FALSE: auxPow2 absent and auxPow2 present-and-empty are two wire
   encodings, two identity hashes, one template (finding auxpow-field-unbound:*:aux.auxPow2.presence) *)
Theorem auxpow_identity_presence_refuted :
  exists a b, template_of a = template_of b /\ af_donor a = af_donor b /\ af_sig a = af_sig b /\ af_tx a = af_tx b
              /\ identity a <> identity b.
Proof. exact auxpow_identity_presence_refuted_lemma. Qed.
Print Assumptions auxpow_identity_presence_refuted.

(* a conversion that copies auxPow2 for the scrypt chain only does not have the property, even up to normalisation *)
Theorem template_copying_aux2_for_scrypt_only_refuted :
  exists a b, template_of_scrypt_only a = template_of_scrypt_only b /\ af_donor a = af_donor b /\ af_sig a = af_sig b
              /\ af_tx a = af_tx b /\ identity_norm a <> identity_norm b.
Proof. exact template_copying_aux2_for_scrypt_only_refuted_lemma. Qed.
Print Assumptions template_copying_aux2_for_scrypt_only_refuted.

(* ---- no proof-of-work hash, no seal: when the engine answers an error nothing is accepted on its account ---- *)

Theorem engine_error_never_accepted : forall e h, e_fake e = false -> eng_err e h = true ->
  verify_seal e h <> SealOk
  /\ (forall k, check_work_threshold e h k <> WBool true)
  /\ (check_valid_ws e h = WsInvalid \/ check_valid_ws e h = WsPanic)
  /\ classify e h <> WsBlock /\ classify e h <> WsSub
  /\ (classify e h = WsValid ->
      exists id d, h_aux h = Some id /\ (id =? powid_kawpow) = false /\ donor_share h d = WsValid).
Proof. exact engine_error_never_accepted_lemma. Qed.
Print Assumptions engine_error_never_accepted.

(* ---- the engines' result caches (kawpow / progpow hashCache) cannot move a seal to other content ---- *)

(* For EVERY history of verifications on one engine instance, starting cold, with arbitrary evictions in between,
   the memoised ComputePowHash answers exactly like a node that has never verified anything -- unless the key hash
   (Keccak256 resp. blake3) collides, or two queries have one q_hash (which hashes the number in) and two numbers. *)
Theorem engine_cache_transparent : forall (KH : bytes -> bytes) (K : bytes -> Z -> Z -> bytes * bytes) k evqs,
  (forall q, In q (map snd evqs) -> wf_query q) ->
  engine_run_ev KH K (key_material k) [] evqs = map (pow_hash_pure K) (map snd evqs)
  \/ (exists x y, x <> y /\ KH x = KH y)
  \/ (exists q q', In q (map snd evqs) /\ In q' (map snd evqs) /\ q_hash q = q_hash q' /\ q_num q <> q_num q').
Proof. exact engine_cache_transparent_lemma. Qed.
Print Assumptions engine_cache_transparent.

(* hence an answer "pow hash p" is the kernel's result for this very (hash, nonce, number), and the header's mix is the
   kernel's mix: the work of one nonce is never served for another nonce, whatever was verified before *)
Theorem engine_answer_is_own_work : forall (KH : bytes -> bytes) (K : bytes -> Z -> Z -> bytes * bytes) k evqs,
  (forall q, In q (map snd evqs) -> wf_query q) ->
  Forall2 (fun q o => forall p, o = Some p -> q_mix q = fst (kernel_of K q) /\ p = snd (kernel_of K q))
          (map snd evqs) (engine_run_ev KH K (key_material k) [] evqs)
  \/ (exists x y, x <> y /\ KH x = KH y)
  \/ (exists q q', In q (map snd evqs) /\ In q' (map snd evqs) /\ q_hash q = q_hash q' /\ q_num q <> q_num q').
Proof. exact engine_answer_is_own_work_lemma. Qed.
Print Assumptions engine_answer_is_own_work.

(* the statement depends on what the key covers: with a key that leaves the nonce out it is false *)
Theorem engine_key_without_nonce_refuted :
  exists (K : bytes -> Z -> Z -> bytes * bytes) qs,
    Forall wf_query qs /\
    engine_run (fun x => x) K (fun q => q_hash q) qs <> map (pow_hash_pure K) qs.
Proof. exact engine_key_without_nonce_refuted_lemma. Qed.
Print Assumptions engine_key_without_nonce_refuted.

Example engine_cache_nonvacuous :
  (forall q, In q (map snd ex_history) -> wf_query q) /\
  engine_run_ev (fun x => x) ex_kernel (key_material EKawpow) [] ex_history
  = [Some (repeat 101 32); None; Some (repeat 101 32); Some (repeat 102 32)].
Proof. split; [exact ex_history_wf | exact ex_history_run]. Qed.

(* ---- non-vacuity ---- *)

Definition ex_env : env := mkEnv false 4 (zeros 31 ++ [9]) false (zeros 31 ++ [7]) false.
Definition ex_hdr : hdr := mkHdr 100 1000 None (Some 1) 0 0 (Some 1) 0 0 (Some 1) [].

Example seal_accept_nonvacuous :
  verify_seal ex_env ex_hdr = SealOk /\ check_valid_ws ex_env ex_hdr = WsValid /\ classify ex_env ex_hdr = WsBlock /\
  verify_seal (with_hashes ex_env (1 :: zeros 31) []) ex_hdr = SealBadPow.
Proof. vm_compute. repeat split; reflexivity. Qed.

(* a complete accepted merge-mined header (H := constant 32 zero bytes, so the donor root is 32 zero bytes) *)
Definition ex_tx : bytes :=
  [2;0;0;0] ++ [1] ++ zeros 32 ++ [255;255;255;255] ++ [53] ++
  ([1;7] ++ [44] ++ magic ++ repeat 171 32 ++ [1;0;0;0;0;0;0;0] ++ [0] ++ [4;9;0;0;0]) ++ [255;255;255;255] ++ [0;0;0;0;0].
Definition ex_aux : auxpow := mkAux powid_kawpow ex_tx 9 (zeros 32) [] [[1;2;3]] true.
Definition ex_vh : vh_in := mkVh [1;2] [1;2] (kawpow_fork_block + 3) 9 (repeat 171 32) (Some ex_aux).

Example auxpow_accept_nonvacuous :
  verify_header_c08 (fun _ => zeros 32) ex_vh = Accept /\
  extract_seal_hash (script_of ex_aux) = Some (repeat 171 32) /\
  extract_sig_time (script_of ex_aux) = Some 9 /\
  verify_header_c08 (fun _ => zeros 32) (mkVh [1;2] [1;2] (kawpow_fork_block + 3) 9 (repeat 170 32) (Some ex_aux)) = Reject /\
  verify_header_c08 (fun _ => zeros 32) (mkVh [1;2] [1;3] (kawpow_fork_block + 3) 9 (repeat 171 32) (Some ex_aux)) = Reject /\
  verify_header_c08 (fun _ => zeros 32) (mkVh [1;2] [1;2] (kawpow_fork_block + 3) 8 (repeat 171 32) (Some ex_aux)) = Reject.
Proof. vm_compute. repeat split; reflexivity. Qed.

Example merkle_nonvacuous :
  merkle_root (fun x => firstn 32 (x ++ zeros 32)) 2 [5;6] [[1]; [2]] =
  merkle_root (fun x => firstn 32 (x ++ zeros 32)) 2 [5;6] [[1]; [2] ++ zeros 31].
Proof. vm_compute. reflexivity. Qed.

(* a well-formed BCH coinbase: signature time, height and payout are read off the transaction *)
Definition ex_tmpl_tx : bytes :=
  [1;0;0;0] ++ [1] ++ repeat 0 32 ++ [255;255;255;255] ++ [54]
  ++ ([1;5] ++ [44] ++ [250;190;109;109] ++ repeat 7 40 ++ [1;0] ++ [4;1;2;3;4]) ++ [255;255;255;255] ++ [9;9].
Example template_nonvacuous :
  template_of (mkAuxFull 3 [7] [8] 536870912 486604799 0 None ex_tmpl_tx [[3]] [9])
  = mkTmpl 3 [8] 536870912 486604799 (Some []) 67305985 5 (Some [9;9]) [[3]] [9].
Proof. vm_compute. reflexivity. Qed.

Example engine_error_nonvacuous :
  let e := mkEnv false 4 [] true [] true in
  let h := mkHdr (kawpow_fork_block + 5) 1000 None (Some 1) 0 0 (Some 1) 0 0 (Some 1000000) [] in
  e_fake e = false /\ eng_err e h = true /\ check_valid_ws e h = WsInvalid /\ classify e h = WsInvalid.
Proof. vm_compute. repeat split; reflexivity. Qed.

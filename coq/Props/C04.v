(* C04 -- Cross-chain transactions are delivered and executed exactly once, in order.
   Property theorems only.  Model: Model/C04.v.  Lemmas: Proofs/C04_Queue.v (queue),
   Proofs/C04_Accept.v (block acceptance), Proofs/C04_Route.v (destination filters),
   Proofs/C04_Hier.v (hand-down across region blocks), Proofs/C04_Fetch.v (recovery of a missed bundle).
   Generated data of the implementation: Generated/C04Sites.v. *)
From Coq Require Import List NArith Bool Permutation.
From GQ Require Import Lib.Key Lib.SMap Lib.C04_BigEndian Lib.C04_Expr Model.C04
  Proofs.C04_Queue Proofs.C04_Accept Proofs.C04_Route Proofs.C04_Hier Proofs.C04_Fetch Generated.C04Sites.
Import ListNotations.
Local Open Scope N_scope.

(* ======================= (a) the destination queue ======================= *)

(* index.Bytes() / SetBytes round trip: the index cells and the oldest/newest cells decode
   to what was written *)
Theorem index_encoding_roundtrip : forall n, of_be (be_min n) = n.
Proof. exact of_be_be_min. Qed.
Print Assumptions index_encoding_roundtrip.

(* two indices never share a cell *)
Theorem index_key_injective : forall a b, be_min a = be_min b -> a = b.
Proof. exact be_min_inj. Qed.
Print Assumptions index_key_injective.

(* no index cell is one of the control cells (nor any other key that starts with a zero byte) *)
Theorem index_key_never_control : forall i,
  be_min i <> newest_key /\ be_min i <> oldest_key /\ be_min i <> kquai_key /\ be_min i <> update_bit_key /\
  forall k, be_min i <> 0 :: k.
Proof.
  intros i. repeat split; try apply index_key_ne_ctl. intros k. apply be_min_not_zero_led.
Qed.
Print Assumptions index_key_never_control.

(* the keys of the model are the keys written in core/state/statedb.go today *)
Theorem control_keys_as_in_source :
  src_newestEtxKey = newest_key /\ src_oldestEtxKey = oldest_key /\
  src_kQuaiKey = kquai_key /\ src_updateBitKey = update_bit_key.
Proof. vm_compute. repeat split. Qed.
Print Assumptions control_keys_as_in_source.

(* every state reached from a fresh queue (positioned at any index) by any history of
   pushes, pops, reads, commits and K-Quai updates satisfies the representation invariant *)
Theorem queue_reachable_inv : forall o0 ops, wf_ops ops -> Inv (qrun_state (init_at o0) ops).
Proof. intros o0 ops W. apply qrun_state_inv; [apply init_at_inv|exact W]. Qed.
Print Assumptions queue_reachable_inv.

(* PushETXs appends, in order, and touches nothing but the new cells and the newest cell *)
Theorem queue_push_refines_fifo : forall t l, Inv t -> wf_etxs l ->
  let t' := push_etxs t l in
  Inv t' /\ get_oldest t' = get_oldest t /\ get_newest t' = get_newest t + N.of_nat (length l) /\
  abs t' = abs t ++ l /\
  (forall k, k <> newest_key -> (forall i, k <> be_min i) -> tget k t' = tget k t).
Proof. exact push_etxs_spec. Qed.
Print Assumptions queue_push_refines_fifo.

(* PopETX returns the head, removes exactly it (the cell is deleted, oldest advances by one),
   and on an empty queue returns nothing and writes nothing *)
Theorem queue_pop_refines_fifo : forall t, Inv t ->
  match abs t with
  | [] => pop_etx t = (None, t)
  | e :: rest =>
      exists t', pop_etx t = (Some e, t') /\ Inv t' /\ abs t' = rest /\
        get_oldest t' = get_oldest t + 1 /\ get_newest t' = get_newest t /\
        cell t' (get_oldest t) = [] /\
        (forall k, k <> oldest_key -> k <> be_min (get_oldest t) -> tget k t' = tget k t)
  end.
Proof. exact pop_etx_spec. Qed.
Print Assumptions queue_pop_refines_fifo.

Theorem queue_pop_on_empty_is_none : forall t, Inv t -> abs t = [] -> pop_etx t = (None, t).
Proof. exact pop_empty. Qed.
Print Assumptions queue_pop_on_empty_is_none.

(* ReadETX i is the (i - oldest)-th pending item, nothing outside [oldest, newest) *)
Theorem queue_read_refines : forall t i, Inv t ->
  read_etx t i =
  if (get_oldest t <=? i) && (i <? get_newest t)
  then nth_error (abs t) (N.to_nat (i - get_oldest t)) else None.
Proof. exact read_etx_spec. Qed.
Print Assumptions queue_read_refines.

(* exactly once, in order, for every history: what was queued or pushed = what the pops
   handed out (in that order) followed by what is still queued *)
Theorem queue_exactly_once_in_order : forall t ops, Inv t -> wf_ops ops ->
  abs t ++ pushed ops = popped t ops ++ abs (qrun_state t ops).
Proof. intros t ops. exact (history_conservation ops t). Qed.
Print Assumptions queue_exactly_once_in_order.

Theorem queue_popped_is_prefix_of_pushed : forall o0 ops, wf_ops ops ->
  exists rest, pushed ops = popped (init_at o0) ops ++ rest /\ rest = abs (qrun_state (init_at o0) ops).
Proof.
  intros o0 ops W. eexists. split; [|reflexivity].
  rewrite <- (history_conservation ops (init_at o0) (init_at_inv o0) W), init_at_abs. reflexivity.
Qed.
Print Assumptions queue_popped_is_prefix_of_pushed.

(* the trie (hence its root) is a function of (oldest index, pending items, other tenants):
   two different histories with the same final content give the same trie *)
Theorem queue_content_determines_trie : forall t1 t2, Inv t1 -> Inv t2 ->
  get_oldest t1 = get_oldest t2 -> abs t1 = abs t2 ->
  (forall k, k <> oldest_key -> k <> newest_key -> (forall i, k <> be_min i) -> tget k t1 = tget k t2) ->
  t1 = t2.
Proof. exact queue_canonical. Qed.
Print Assumptions queue_content_determines_trie.

(* the K-Quai cell living in the same trie neither disturbs the queue nor is disturbed *)
Theorem queue_other_tenant_frame : forall t v, Inv t ->
  let t' := set_kquai t v in
  Inv t' /\ abs t' = abs t /\ get_oldest t' = get_oldest t /\ get_newest t' = get_newest t /\
  get_kquai t' = v.
Proof. exact set_kquai_spec. Qed.
Print Assumptions queue_other_tenant_frame.

(* ======================= (b) block acceptance ======================= *)

(* generated obligation: Process pushes the parent's inbound set before the loop, pops,
   nil-checks and hash-compares every external transaction, then applies both guards *)
Theorem process_etx_discipline_in_source : process_etx_discipline_ok = true.
Proof. vm_compute. reflexivity. Qed.
Print Assumptions process_etx_discipline_in_source.

(* generated obligation: the two guards and the protocol constants in the source are the
   ones of the model, so for every valuation they evaluate to the model's rule functions *)
Theorem process_rules_as_modelled :
  src_count_rule = count_rule_expr /\ src_gas_rule = gas_rule_expr /\
  src_MinimumEtxGasDivisor = P_MIN_GAS_DIVISOR /\ src_MaximumEtxGasMultiplier = P_MAX_GAS_MULT /\
  src_MinEtxCount = P_MIN_COUNT /\ src_MaxEtxCount = P_MAX_COUNT /\ src_TimeToStartTx = P_TIME_TO_START_TX.
Proof. vm_compute. repeat split. Qed.
Print Assumptions process_rules_as_modelled.

Theorem process_rules_semantics : forall num avail count gas gl,
  beval (rule_env num count gas gl) (rule_benv avail) src_count_rule = count_rule_viol num avail count /\
  beval (rule_env num count gas gl) (rule_benv avail) src_gas_rule = gas_rule_viol num avail gas gl.
Proof.
  intros. destruct process_rules_as_modelled as (-> & -> & _).
  split; [apply count_rule_expr_sem|apply gas_rule_expr_sem].
Qed.
Print Assumptions process_rules_semantics.

(* an accepted block contains precisely the next items of (queue ++ parent's inbound set),
   unless two different ETXs have the same hash; they are consumed, the rest stays queued *)
Theorem accepted_block_takes_next_items :
  forall (H : Type) (hash : etx -> H) (heqb : H -> H -> bool),
  (forall a b, heqb a b = true <-> a = b) ->
  forall t inbound blk num gl t', Inv t -> wf_etxs inbound ->
  accept_block H hash heqb t inbound blk num gl = (VAccept, t') ->
  let Q := abs t ++ inbound in
  (length blk <= length Q)%nat /\
  (map fst blk = firstn (length blk) Q \/ collision H hash) /\
  abs t' = skipn (length blk) Q /\ Inv t'.
Proof. exact accept_next_items. Qed.
Print Assumptions accepted_block_takes_next_items.

(* anything else (out of order, duplicated, unknown, altered, more than queued) is refused *)
Theorem block_rejected_unless_next_items :
  forall (H : Type) (hash : etx -> H) (heqb : H -> H -> bool),
  (forall a b, heqb a b = true <-> a = b) ->
  forall t inbound blk num gl, Inv t -> wf_etxs inbound ->
  let Q := abs t ++ inbound in
  ~ ((length blk <= length Q)%nat /\ map hash (map fst blk) = map hash (firstn (length blk) Q)) ->
  fst (accept_block H hash heqb t inbound blk num gl) <> VAccept.
Proof. exact reject_not_next_items. Qed.
Print Assumptions block_rejected_unless_next_items.

(* complete characterisation of acceptance *)
Theorem block_acceptance_characterised :
  forall (H : Type) (hash : etx -> H) (heqb : H -> H -> bool),
  (forall a b, heqb a b = true <-> a = b) ->
  forall t inbound blk num gl, Inv t -> wf_etxs inbound ->
  let Q := abs t ++ inbound in
  let avail := Nat.ltb (length blk) (length Q) in
  fst (accept_block H hash heqb t inbound blk num gl) = VAccept <->
  ((length blk <= length Q)%nat /\ map hash (map fst blk) = map hash (firstn (length blk) Q) /\
   count_rule_viol num avail (N.of_nat (length blk)) = false /\
   gas_rule_viol num avail (gas_sum blk) gl = false).
Proof. exact accept_iff. Qed.
Print Assumptions block_acceptance_characterised.

(* a block may not ignore a non-empty queue beyond the minimum-inclusion rule (nor exceed
   the maximum) *)
Theorem min_inclusion_enforced :
  forall (H : Type) (hash : etx -> H) (heqb : H -> H -> bool),
  (forall a b, heqb a b = true <-> a = b) ->
  forall t inbound blk num gl, Inv t -> wf_etxs inbound ->
  fst (accept_block H hash heqb t inbound blk num gl) = VAccept ->
  let Q := abs t ++ inbound in
  let n := N.of_nat (length blk) in
  (num <= P_TIME_TO_START_TX -> n <= P_MAX_COUNT /\ ((length blk < length Q)%nat -> P_MIN_COUNT <= n)) /\
  (P_TIME_TO_START_TX < num -> gas_sum blk <= max_etx_gas gl /\
                                ((length blk < length Q)%nat -> min_etx_gas gl <= gas_sum blk)).
Proof. exact min_inclusion. Qed.
Print Assumptions min_inclusion_enforced.

Theorem accepted_block_has_no_duplicate :
  forall (H : Type) (hash : etx -> H) (heqb : H -> H -> bool),
  (forall a b, heqb a b = true <-> a = b) ->
  forall t inbound blk num gl, Inv t -> wf_etxs inbound ->
  NoDup (map hash (abs t ++ inbound)) ->
  fst (accept_block H hash heqb t inbound blk num gl) = VAccept ->
  NoDup (map hash (map fst blk)).
Proof. exact accept_no_duplicates. Qed.
Print Assumptions accepted_block_has_no_duplicate.

(* over any sequence of candidate blocks on a zone chain (each accepted block becomes the head
   and carries the inbound set the dominant chain fixed for it; refused candidates leave the
   head unchanged): what was pending or delivered = what accepted blocks executed, in order,
   followed by what is still pending -- nothing lost, duplicated or reordered *)
Theorem chain_exactly_once_in_order :
  forall (H : Type) (hash : etx -> H) (heqb : H -> H -> bool),
  (forall a b, heqb a b = true <-> a = b) ->
  forall cs t inb, Inv t -> wf_etxs inb -> wf_cands cs ->
  let r := run_chain H hash heqb t inb cs in
  Inv (snd (fst r)) /\ wf_etxs (snd r) /\
  map hash (abs t ++ inb) ++ map hash (chain_delivered H hash heqb t inb cs) =
  map hash (chain_executed H hash heqb t inb cs) ++ map hash (abs (snd (fst r)) ++ snd r).
Proof. exact chain_conservation. Qed.
Print Assumptions chain_exactly_once_in_order.

Theorem chain_executes_nothing_twice :
  forall (H : Type) (hash : etx -> H) (heqb : H -> H -> bool),
  (forall a b, heqb a b = true <-> a = b) ->
  forall cs t inb, Inv t -> wf_etxs inb -> wf_cands cs ->
  NoDup (map hash (abs t ++ inb) ++ map hash (chain_delivered H hash heqb t inb cs)) ->
  NoDup (map hash (chain_executed H hash heqb t inb cs)).
Proof. exact chain_no_double_execution. Qed.
Print Assumptions chain_executes_nothing_twice.

(* generated obligation: ValidateState refuses a block whose header ETX-set root is not the
   root of the queue trie after processing (the queue content is committed by the header) *)
Theorem etx_root_committed_in_source : etx_root_committed_ok = true.
Proof. vm_compute. reflexivity. Qed.
Print Assumptions etx_root_committed_in_source.

(* ======================= (c) destination filters ======================= *)

Theorem routing_codes_as_in_source :
  src_CoinbaseType = ETX_COINBASE /\ src_ConversionType = ETX_CONVERSION /\
  src_PRIME_CTX = PRIME_CTX /\ src_REGION_CTX = REGION_CTX /\ src_ZONE_CTX = ZONE_CTX.
Proof. vm_compute. repeat split. Qed.
Print Assumptions routing_codes_as_in_source.

(* prime: of the W regions exactly the destination's region takes the ETX (none if the
   address names a region outside the hierarchy), whatever the ETX type and block order *)
Theorem route_prime_partition : forall W order p ty z,
  count (fun r => filter_to_sub [r; z] PRIME_CTX order (p, ty)) (nseq 0 W) =
  if p / 16 <? N.of_nat W then 1%nat else 0%nat.
Proof. exact prime_partition. Qed.
Print Assumptions route_prime_partition.

(* region r: of its Z zones exactly the destination zone takes the ETX; coinbase and
   conversion ETXs only when the block is coincident with prime *)
Theorem route_region_partition : forall r Z order p ty,
  count (fun z => filter_to_sub [r; z] REGION_CTX order (p, ty)) (nseq 0 Z) =
  if (p / 16 =? r) && (p mod 16 <? N.of_nat Z) && ((order =? PRIME_CTX) || standard_ty ty)
  then 1%nat else 0%nat.
Proof. exact region_partition. Qed.
Print Assumptions route_region_partition.

(* through prime and region an ETX reaches its destination zone and no other *)
Theorem route_to_destination_zone_only : forall p ty r z,
  filter_to_sub [r; z] PRIME_CTX PRIME_CTX (p, ty) && filter_to_sub [r; z] REGION_CTX PRIME_CTX (p, ty) = true
  <-> (r = p / 16 /\ z = p mod 16).
Proof. exact route_to_destination_only. Qed.
Print Assumptions route_to_destination_zone_only.

Theorem route_selected_is_destination : forall slice order p ty,
  (filter_to_sub slice REGION_CTX order (p, ty) = true -> slice = loc_of_prefix p) /\
  (filter_to_sub slice PRIME_CTX order (p, ty) = true -> nth_error slice 0 = Some (p / 16)) /\
  (forall ctx, ctx <> PRIME_CTX -> ctx <> REGION_CTX -> filter_to_sub slice ctx order (p, ty) = false).
Proof.
  intros. split; [apply filter_region_sound|split; [apply filter_prime_sound|]].
  intros ctx H0 H1. apply filter_zone_nothing; assumption.
Qed.
Print Assumptions route_selected_is_destination.

Theorem filter_to_location_exact : forall l p ty,
  filter_to_location l (p, ty) = true <-> l = loc_of_prefix p.
Proof. exact filter_to_location_spec. Qed.
Print Assumptions filter_to_location_exact.

Theorem destination_of_address_byte : forall p q,
  (p < 256 -> p / 16 < 16 /\ p mod 16 < 16) /\ (loc_of_prefix p = loc_of_prefix q -> p = q).
Proof. intros p q. split; [apply loc_of_prefix_bounds|apply loc_of_prefix_inj]. Qed.
Print Assumptions destination_of_address_byte.

(* ======================= (d) hand-down across region blocks ======================= *)

(* CollectSubRollup (region): the concatenation, in manifest order, of what the zone blocks of the
   manifest emitted; an error as soon as the region lacks the pending ETXs of one of them *)
Theorem sub_rollup_is_manifest_concat : forall w m,
  (forall ls, Forall2 (fun h l => lookup_pending w h = Some l) m ls -> sub_rollup w m = Some (concat ls)) /\
  (forall h, In h m -> lookup_pending w h = None -> sub_rollup w m = None).
Proof. intros w m. split; [apply sub_rollup_concat | apply sub_rollup_missing]. Qed.
Print Assumptions sub_rollup_is_manifest_concat.

(* CollectNewlyConfirmedEtxs on a tree-shaped store that holds every pending-ETX bundle the chain
   refers to: the backward walk over the store (on fuel = number of stored blocks) never runs out of
   fuel, never fails, and returns the block's own rollup followed by the contributions of its
   ancestors, nearest first, up to the stopping block -- for every queried order, in a region node
   (ctx = REGION_CTX) and in the prime node (ctx = PRIME_CTX) *)
Theorem collect_newly_confirmed_computes_chain : forall w ctx b anc border,
  anc_chain w b anc -> complete w (b :: anc) -> NoDup anc ->
  newly_confirmed w ctx b border
  = ROk (sel ctx (rb_loc b) border (roll_of w b) ++ collect_list w ctx (rb_loc b) border anc).
Proof. exact newly_confirmed_refines. Qed.
Print Assumptions collect_newly_confirmed_computes_chain.

(* missing pending ETXs of the block itself are reported as an error, never skipped *)
Theorem collect_reports_incomplete_store : forall w ctx b border,
  sub_rollup w (rb_manifest b) = None -> newly_confirmed w ctx b border = RErrPending.
Proof. exact newly_confirmed_incomplete. Qed.
Print Assumptions collect_reports_incomplete_store.

(* nothing is handed to another zone: whatever block b hands down (at prime or at region order)
   is addressed to the zone that produced b *)
Theorem handed_down_only_to_destination : forall w b anc e,
  In e (handed_list w REGION_CTX b anc) -> loc_of_prefix (fst (retx_tx e)) = rb_loc b.
Proof. exact handed_list_dest. Qed.
Print Assumptions handed_down_only_to_destination.

(* DELIVERED EXACTLY ONCE.  For every chain c (newest first) of region R stored in a tree-shaped,
   complete store, in which zone Z is active: (1) for every block of the chain the real entry point
   computes the list-level hand-down; (2) it goes to the producing zone only; (3)+(4) counted with
   multiplicity, what has been handed to zone Z along the chain plus what is still pending for Z is
   exactly what the chain owes Z -- the standard ETXs for Z in the sub rollups of its blocks and every
   ETX for Z that prime handed down with its prime-order blocks: nothing lost, nothing twice, nothing
   invented; (5) if the owed ETXs are distinct, so are the delivered ones.
   (Coinbase and conversion ETXs of sub rollups, and ETXs leaving the region, are owed to nobody here:
   they go up to prime, see region_or_prime_exclusive.) *)
Theorem delivered_exactly_once : forall w R Z c,
  in_region R Z -> Forall (wf_block R Z) c -> chain_in_store w c -> complete w c -> NoDup c ->
  (forall pre b anc, c = pre ++ b :: anc -> handed_down w REGION_CTX b = ROk (handed_list w REGION_CTX b anc))
  /\ (forall b anc e, In e (handed_list w REGION_CTX b anc) -> loc_of_prefix (fst (retx_tx e)) = rb_loc b)
  /\ Permutation (delivered w Z c ++ pending_for w Z c) (owed w Z c)
  /\ (forall e, (cnt e (delivered w Z c) + cnt e (pending_for w Z c) = cnt e (owed w Z c))%nat)
  /\ (NoDup (owed w Z c) -> NoDup (delivered w Z c ++ pending_for w Z c)).
Proof. exact delivered_exactly_once_lem. Qed.
Print Assumptions delivered_exactly_once.

(* a region-order block of zone Z leaves nothing pending for Z ... *)
Theorem region_block_of_destination_clears_pending : forall w R Z b anc,
  in_region R Z -> wf_block R Z b -> rb_loc b = Z -> rb_order b = REGION_CTX ->
  pending_for w Z (b :: anc) = [].
Proof. exact region_block_clears_pending. Qed.
Print Assumptions region_block_of_destination_clears_pending.

(* ... because it is the delivery point: whatever an earlier block p of the chain contributes for
   the zone of b (the roll-down of p's prime inbound set unless p handed it down itself, and the
   standard ETXs of p's sub rollup) is handed down by b when no block between them (p included) is a
   region-order block of that zone -- in particular a PRIME-order block of the same zone in between
   does not end the walk *)
Theorem first_region_block_of_destination_delivers : forall w R b mid p rest,
  in_region R (rb_loc b) -> rb_order b = REGION_CTX ->
  Forall (wf_block R (rb_loc b)) (mid ++ [p]) -> Forall (not_region_block_of (rb_loc b)) (mid ++ [p]) ->
  incl (contrib w REGION_CTX (rb_loc b) REGION_CTX p) (handed_list w REGION_CTX b (mid ++ p :: rest)).
Proof. exact first_region_block_delivers. Qed.
Print Assumptions first_region_block_of_destination_delivers.

(* DELIVERED EXACTLY ONCE, prime node.  For every chain c (newest first) of prime blocks stored in a
   tree-shaped, complete store in which the region named by Z and the slices of the blocks are active:
   the real entry point computes the list-level hand-down for every block; counted with multiplicity,
   what prime blocks of that region have handed to it plus what is still pending for it is exactly what
   the rollups referred to by the chain hold for that region (ETXs of every type) *)
Theorem prime_delivered_exactly_once : forall w Z c,
  wf_chain_p Z c -> chain_in_store w c -> complete w c -> NoDup c ->
  (forall pre b anc, c = pre ++ b :: anc -> handed_down w PRIME_CTX b = ROk (handed_list w PRIME_CTX b anc))
  /\ Permutation (delivered_p w Z c ++ pending_for_p w Z c) (owed_p w Z c)
  /\ (forall e, (cnt e (delivered_p w Z c) + cnt e (pending_for_p w Z c) = cnt e (owed_p w Z c))%nat)
  /\ (NoDup (owed_p w Z c) -> NoDup (delivered_p w Z c ++ pending_for_p w Z c)).
Proof. exact prime_delivered_exactly_once_lem. Qed.
Print Assumptions prime_delivered_exactly_once.

(* the delivery point in prime: a prime block of the region leaves nothing pending for the region *)
Theorem prime_block_of_region_clears_pending : forall w Z b anc,
  rb_order b = PRIME_CTX -> not_active (rb_exp b) Z = false -> same_sub PRIME_CTX (rb_loc b) Z = true ->
  pending_for_p w Z (b :: anc) = [].
Proof. exact prime_block_clears_pending. Qed.
Print Assumptions prime_block_of_region_clears_pending.

(* one route only: an ETX of a sub rollup addressed to a zone of this region is selected by that
   zone's region-order filter exactly when it is not sent up to prime; an ETX leaving the region
   is sent up and selected by no zone of the region at any order *)
Theorem region_or_prime_exclusive : forall R e,
  (fst (retx_tx e) / 16 = R ->
   filter_to_sub (loc_of_prefix (fst (retx_tx e))) REGION_CTX REGION_CTX (retx_tx e) = negb (goes_to_prime R e)) /\
  (fst (retx_tx e) / 16 <> R ->
   goes_to_prime R e = true /\ forall z order, filter_to_sub [R; z] REGION_CTX order (retx_tx e) = false).
Proof.
  intros R e. split.
  - apply Proofs.C04_Hier.region_or_prime_exclusive.
  - intro H. split; [apply (leaves_region_only_up R 0 0 e H)|]. intros z order. apply (leaves_region_only_up R z order e H).
Qed.
Print Assumptions region_or_prime_exclusive.

(* FINDING (known, monitor route-region:rollup-for-dom:unfiltered): the clause "what the region gives prime
   for a block is the rollup its header commits to" is REFUTED for the retry path
   GetPendingEtxsRollupFromSub: the answer is the unfiltered sub rollup.  Full statement:
     forall w R b, rollup_for_dom w b = committed_rollup w R b.
   Witness: block r2 of the example chain (its zone block emitted two intra-region ETXs and one leaving). *)
Theorem rollup_for_dom_refuted : exists w R b, rollup_for_dom w b <> committed_rollup w R b.
Proof. exists ex_world, 0, (ex_b 12). vm_compute. discriminate. Qed.
Print Assumptions rollup_for_dom_refuted.
(* strongest true statement: the answer is accepted exactly when nothing of the rollup stays inside the region *)
Theorem rollup_for_dom_partial : forall w R b roll,
  sub_rollup w (rb_manifest b) = Some roll -> forallb (goes_to_prime R) roll = true ->
  rollup_for_dom w b = committed_rollup w R b.
Proof.
  intros w R b roll H Hall. unfold rollup_for_dom, committed_rollup. rewrite H. cbn [option_map]. f_equal. clear H.
  induction roll as [|x l IH]; [reflexivity|]. cbn [forallb] in Hall. apply andb_true_iff in Hall. destruct Hall as [Hx Hl].
  cbn [filter]. rewrite Hx. f_equal. apply IH. exact Hl.
Qed.
Print Assumptions rollup_for_dom_partial.

(* generated obligation: the statements of Slice.Append (outside its prime-only branches) that touch
   the ETX set handed to the subordinate chain, or the rollup sent up to prime, are exactly the ones
   handed_down / goes_to_prime were written against (guards and order included) *)
Theorem append_glue_as_modelled : src_append_glue = append_glue_model.
Proof. vm_compute. reflexivity. Qed.
Print Assumptions append_glue_as_modelled.


(* ======================= (e) recovery of a missed bundle ======================= *)

(* HYPOTHESIS of everything in (d): sub_rollup reads the node's store and nothing else.  Here it is a
   theorem about the code as modelled with its recovery path (retry gate, question to the subordinate,
   validated add): for EVERY answer of the subordinate, the result of a collection -- in the very call in
   which the subordinate is asked too -- is the result of the pure walk over the store the node had when
   the call began; a call that does not fail with "pending ETXs not found" changes nothing; one that does
   changes the state by one gate step for a bundle the store does not hold.  (The statement the seeded
   change C04_4 breaks: there the fetched bundle is used at once.) *)
Theorem collect_reads_only_the_store : forall cm T answers st ctx b border,
  snd (newly_confirmed_f cm T answers st ctx b border) = newly_confirmed (fs_world st) ctx b border
  /\ (newly_confirmed (fs_world st) ctx b border <> RErrPending ->
      fst (newly_confirmed_f cm T answers st ctx b border) = st)
  /\ (newly_confirmed (fs_world st) ctx b border = RErrPending ->
      exists key h, lookup_pending (fs_world st) h = None
                    /\ fst (newly_confirmed_f cm T answers st ctx b border) = fetch cm T answers st key h).
Proof. exact collect_f_answer. Qed.
Print Assumptions collect_reads_only_the_store.

Theorem collect_answer_independent_of_subordinate : forall cm T answers1 answers2 st ctx b border,
  snd (newly_confirmed_f cm T answers1 st ctx b border) = snd (newly_confirmed_f cm T answers2 st ctx b border).
Proof. exact collect_answer_independent. Qed.
Print Assumptions collect_answer_independent_of_subordinate.

(* the same for the bare CollectSubRollup: Some answer = concatenation of stored bundles, state untouched *)
Theorem sub_rollup_with_fetch_reads_only_the_store : forall cm T answers st key m acc r,
  sub_rollup (fs_world st) m = Some r -> sub_rollup_f cm T answers st key m acc = (st, Some (acc ++ r)).
Proof. exact sub_rollup_f_some. Qed.
Print Assumptions sub_rollup_with_fetch_reads_only_the_store.

Theorem sub_rollup_with_fetch_failure : forall cm T answers st key m acc,
  sub_rollup (fs_world st) m = None ->
  exists h, In h m /\ lookup_pending (fs_world st) h = None
            /\ sub_rollup_f cm T answers st key m acc = (fetch cm T answers st key h, None).
Proof. exact sub_rollup_f_none. Qed.
Print Assumptions sub_rollup_with_fetch_failure.

(* for any history of calls, the subordinate answering anything and differently each time: the store
   holds only bundles that pass the commitment check of their header, and no known entry ever changes
   (so what was delivered on the strength of an entry stays delivered exactly once) *)
Theorem recovery_keeps_store_validated : forall cm T ctx rs st,
  store_validated cm (fs_world st) ->
  store_validated cm (fs_world (fst (run_rounds cm T ctx st rs)))
  /\ store_extends (fs_world st) (fs_world (fst (run_rounds cm T ctx st rs))).
Proof. exact run_rounds_invariant. Qed.
Print Assumptions recovery_keeps_store_validated.

(* content committed by the header: on a validated store a sub rollup is, name by name, what the headers
   of the manifest commit to; two nodes agree on it whatever each of them was sent *)
Theorem validated_sub_rollup_is_committed_content : forall cm w, store_validated cm w -> forall m l,
  sub_rollup w m = Some l -> (forall h, In h m -> is_genesis w h = false) ->
  map retx_id l = concat (map (committed_of cm) m).
Proof. exact validated_rollup_is_committed. Qed.
Print Assumptions validated_sub_rollup_is_committed_content.

Theorem validated_nodes_agree : forall cm w1 w2 m l1 l2, store_validated cm w1 -> store_validated cm w2 ->
  sub_rollup w1 m = Some l1 -> sub_rollup w2 m = Some l2 ->
  (forall h, In h m -> is_genesis w1 h = false /\ is_genesis w2 h = false) ->
  map retx_id l1 = map retx_id l2.
Proof. exact validated_stores_agree. Qed.
Print Assumptions validated_nodes_agree.

(* recovery works: once the retry counter of the block reached the threshold, a valid answer for a
   missing entry is stored (and the next collection finds it) *)
Theorem valid_answer_is_stored : forall cm T (answers : list (N * bundle)) st key h l r,
  assoc (fs_retries st) key = Some r -> T <= r -> assoc answers h = Some (h, l) ->
  bundle_valid cm (fs_world st) (h, l) = true -> lookup_pending (fs_world st) h = None ->
  lookup_pending (fs_world (fetch cm T answers st key h)) h = Some l.
Proof. exact fetch_valid_answer_stores. Qed.
Print Assumptions valid_answer_is_stored.

(* ======================= non-vacuity ======================= *)

(* a history crossing the 255/256 key-length boundary, with a pop on empty in it *)
Example queue_nonvacuous :
  qrun (init_at 254)
    [QPop; QPush [[1]; [2]; [3]]; QNewest; QRead 256; QPop; QPop; QSetK 7; QPush1 [4]; QPop; QPop; QPop; QOldest; QGetK]
  = [OEtx None; OUnit; ONum 257; OEtx (Some [3]); OEtx (Some [1]); OEtx (Some [2]); OUnit; OUnit;
     OEtx (Some [3]); OEtx (Some [4]); OEtx None; ONum 258; ONum 7].
Proof. vm_compute. reflexivity. Qed.

Example queue_inv_nonvacuous : Inv ex_t /\ abs ex_t = [[1]; [2]; [3]] /\ get_oldest ex_t = 254 /\ get_newest ex_t = 257.
Proof. split; [exact ex_t_inv|]. vm_compute. repeat split. Qed.

(* acceptance: next items accepted; permuted, duplicated, unknown, too many refused;
   below the minimum count with a non-empty remainder refused, with an empty one accepted *)
Example accept_nonvacuous :
  fst (accept_block_id (init_at 0) (map (fun i => be_min (i + 1)) (nseq 0 60))
         (map (fun i => (be_min (i + 1), 21000)) (nseq 0 50)) 10 5000000) = VAccept /\
  fst (accept_block_id ex_t [[4]] [([1], 21000); ([2], 21000); ([3], 21000); ([4], 21000)] 10 5000000) = VAccept /\
  fst (accept_block_id ex_t [[4]] [([2], 21000); ([1], 21000)] 10 5000000) = VHashMismatch /\
  fst (accept_block_id ex_t [[4]] [([1], 21000); ([1], 21000)] 10 5000000) = VHashMismatch /\
  fst (accept_block_id ex_t [] [([1], 21000); ([2], 21000); ([3], 21000); ([9], 21000)] 10 5000000) = VPopNil /\
  fst (accept_block_id ex_t [[4]] [([1], 21000)] 10 5000000) = VCountRule /\
  fst (accept_block_id ex_t [[4]] [([1], 21000)] 300000 5000000) = VGasRule /\
  fst (accept_block_id ex_t [[4]] [([1], 1000000)] 300000 5000000) = VAccept /\
  fst (accept_block_id ex_t [[4]] [([1], 2000001)] 300000 5000000) = VGasRule.
Proof. vm_compute. repeat split. Qed.

Example chain_nonvacuous :
  let cs := [([([1], 1000000)], 300000, 5000000, [[4]; [5]]);          (* takes [1] of [1;2;3]: accepted *)
             ([([3], 1000000)], 300001, 5000000, [[9]]);                 (* out of order: refused *)
             ([([2], 500000); ([3], 500000)], 300001, 5000000, [[6]]);   (* accepted *)
             ([([4], 1000000); ([5], 1000000)], 300002, 5000000, [])] in (* accepted, [6] stays pending *)
  let '(vs, tf, inbf) := run_chain_id (init_at 255) [[1]; [2]; [3]] cs in
  map verdict_code vs = [0; 2; 0; 0] /\ abs tf = [[6]] /\ inbf = [] /\ get_oldest tf = 260 /\
  chain_executed (list N) (fun e => e) keqb (init_at 255) [[1]; [2]; [3]] cs = [[1]; [2]; [3]; [4]; [5]].
Proof. vm_compute. repeat split. Qed.

Example route_nonvacuous :
  map (filter_to_sub [1; 2] PRIME_CTX REGION_CTX) [(18, 0); (2, 0); (33, 1)] = [true; false; false] /\
  map (filter_to_sub [1; 2] REGION_CTX PRIME_CTX) [(18, 0); (18, 1); (18, 2); (17, 0)] = [true; true; true; false] /\
  map (filter_to_sub [1; 2] REGION_CTX REGION_CTX) [(18, 0); (18, 1); (18, 2); (18, 3)] = [true; false; false; true] /\
  map (filter_to_sub [1; 2] ZONE_CTX PRIME_CTX) [(18, 0)] = [false].
Proof. vm_compute. repeat split. Qed.

(* the shape of the seeded change C04_2: zone 1's region block r1, zone 0's r2 (its zone block emitted
   ETX 1 -> zone 1), zone 1's PRIME-order r3 (prime hands down 7 -> zone 1 and the conversion 8 -> zone 2),
   zone 2's r4, zone 1's r5.  r3 hands down only what prime sent for zone 1; r5 walks back through r3
   and delivers ETX 1; the conversion 8 is rolled down to zone 2 by r4; x = ETX 3 (to region 1) and
   nothing else is handed down; the hypotheses of delivered_exactly_once hold for this chain *)
Example hier_nonvacuous :
  map (fun h => rres_code (handed_down ex_world REGION_CTX (ex_b h))) [11; 12; 13; 14; 15]
  = [(0, []); (0, []); (0, [7]); (0, [8; 2]); (0, [5; 1])] /\
  map retx_id (owed ex_world [0;1] ex_chain) = [1; 7; 5] /\
  map retx_id (delivered ex_world [0;1] ex_chain) = [7; 5; 1] /\
  pending_for ex_world [0;1] ex_chain = [] /\
  map retx_id (pending_for ex_world [0;2] ex_chain) = [6] /\
  (in_region 0 [0;1] /\ Forall (wf_block 0 [0;1]) ex_chain /\ chain_in_store ex_world ex_chain
   /\ complete ex_world ex_chain /\ NoDup ex_chain).
Proof. repeat split; try (vm_compute; reflexivity); apply ex_chain_ok. Qed.

(* prime node: p1 (slice [0;0]) refers to region block 201 whose rollup holds 1 -> region 1, 2 -> region 0
   (a coinbase); p2 (slice [1;0]); p3 (slice [0;1]): p1 hands [2] to region 0, p2 hands [1;3] to region 1,
   p3 hands [4] to region 0; ETX 5 -> region 2 stays pending *)
Example prime_nonvacuous :
  let w := mkRW [1] [mkRB 1 0 [] 0 0 [] []; mkRB 11 1 [0;0] 0 4 [201] []; mkRB 12 11 [1;0] 0 4 [202] [];
                     mkRB 13 12 [0;1] 0 4 [203] []]
                [(201, [(1,16,0); (2,1,1)]); (202, [(3,17,2); (4,2,0)]); (203, [(5,32,0)])] in
  let b h := match lookup_block w h with Some x => x | None => mkRB 0 0 [] 0 0 [] [] end in
  let c := map b [13; 12; 11] in
  map (fun h => rres_code (handed_down w PRIME_CTX (b h))) [11; 12; 13] = [(0, [2]); (0, [3; 1]); (0, [4])] /\
  map retx_id (delivered_p w [0;0] c) = [2; 4] /\ map retx_id (owed_p w [0;0] c) = [2; 4] /\
  map retx_id (pending_for_p w [2;0] c) = [5] /\
  wf_chain_p [0;0] c /\ chain_in_store w c /\ complete w c /\ NoDup c.
Proof.
  cbv zeta. repeat split; try (vm_compute; reflexivity).
  - repeat constructor; vm_compute; reflexivity.
  - intros x y Hx Hy. cbn in Hx, Hy. intuition (subst; vm_compute; reflexivity).
  - eexists; vm_compute; reflexivity.
  - repeat constructor; vm_compute; discriminate.
  - repeat constructor; cbn; intuition discriminate.
Qed.

(* the scenario of the seeded change C04_4 in the prime node: prime block 11 (slice [0;1]) refers to region
   block 201, whose header commits to ETX 2 (to region 1) only; prime never received that rollup.  The
   region answers with its whole sub rollup [1 (zone [0;0] -> zone [0;1], intra-region); 2]: refused, the
   collection of block 11 fails in all 30 rounds and nothing is stored.  With the valid answer [2] the
   first eleven rounds count, the twelfth asks and stores, the thirteenth succeeds -- and hands NOTHING to
   region 0 (ETX 2 is for region 1; ETX 1 never reaches prime). *)
Example recovery_nonvacuous :
  let cm := [(201, [2])] in
  let st0 := mkFS (mkRW [1] [mkRB 1 0 [] 0 0 [] []; mkRB 11 1 [0;1] 0 4 [201] []] [(1, [])]) [] in
  let unfiltered := [(201, (201, [(1,1,0); (2,16,0)]))] in
  let valid := [(201, (201, [(2,16,0)]))] in
  let run a n := run_rounds cm 10 PRIME_CTX st0 (repeat (a, (11, 0)) n) in
  store_validated cm (fs_world st0) /\
  snd (run unfiltered 30%nat) = repeat (2, []) 30 /\ lookup_pending (fs_world (fst (run unfiltered 30%nat))) 201 = None /\
  snd (run valid 13%nat) = repeat (2, []) 12 ++ [(0, [])] /\
  lookup_pending (fs_world (fst (run valid 12%nat))) 201 = Some [(2,16,0)] /\
  lookup_pending (fs_world (fst (run valid 11%nat))) 201 = None.
Proof.
  cbv zeta. split; [|vm_compute; repeat split].
  intros h l H. unfold lookup_pending in H. cbn [rw_pending fs_world find fst] in H.
  destruct (1 =? h) eqn:E; cbn in H; [|discriminate].
  apply N.eqb_eq in E. subst h. injection H as <-. vm_compute. reflexivity.
Qed.

(* C04 -- Cross-chain transactions are delivered and executed exactly once, in order.
   Property theorems only.  Model: Model/C04.v.  Lemmas: Proofs/C04_Queue.v (queue),
   Proofs/C04_Accept.v (block acceptance), Proofs/C04_Route.v (destination filters).
   Generated data of the implementation: Generated/C04Sites.v. *)
From Coq Require Import List NArith Bool.
From GQ Require Import Lib.Key Lib.SMap Lib.C04_BigEndian Lib.C04_Expr Model.C04
  Proofs.C04_Queue Proofs.C04_Accept Proofs.C04_Route Generated.C04Sites.
Import ListNotations.
Local Open Scope N_scope.

(* ======================= (a) the destination queue ======================= *)

(* index.Bytes() / SetBytes round trip: the index cells and the oldest/newest cells decode
   to what was written *)
Theorem index_encoding_roundtrip : forall n, of_be (be_min n) = n.
Proof. exact of_be_be_min. Qed.
Print Assumptions index_encoding_roundtrip.

(* two indices never share a cell *)
Theorem index_key_injective : forall a b, be_min a = be_min b -> a = b.
Proof. exact be_min_inj. Qed.
Print Assumptions index_key_injective.

(* no index cell is one of the control cells (nor any other key that starts with a zero byte) *)
Theorem index_key_never_control : forall i,
  be_min i <> newest_key /\ be_min i <> oldest_key /\ be_min i <> kquai_key /\ be_min i <> update_bit_key /\
  forall k, be_min i <> 0 :: k.
Proof.
  intros i. repeat split; try apply index_key_ne_ctl. intros k. apply be_min_not_zero_led.
Qed.
Print Assumptions index_key_never_control.

(* the keys of the model are the keys written in core/state/statedb.go today *)
Theorem control_keys_as_in_source :
  src_newestEtxKey = newest_key /\ src_oldestEtxKey = oldest_key /\
  src_kQuaiKey = kquai_key /\ src_updateBitKey = update_bit_key.
Proof. vm_compute. repeat split. Qed.
Print Assumptions control_keys_as_in_source.

(* every state reached from a fresh queue (positioned at any index) by any history of
   pushes, pops, reads, commits and K-Quai updates satisfies the representation invariant *)
Theorem queue_reachable_inv : forall o0 ops, wf_ops ops -> Inv (qrun_state (init_at o0) ops).
Proof. intros o0 ops W. apply qrun_state_inv; [apply init_at_inv|exact W]. Qed.
Print Assumptions queue_reachable_inv.

(* PushETXs appends, in order, and touches nothing but the new cells and the newest cell *)
Theorem queue_push_refines_fifo : forall t l, Inv t -> wf_etxs l ->
  let t' := push_etxs t l in
  Inv t' /\ get_oldest t' = get_oldest t /\ get_newest t' = get_newest t + N.of_nat (length l) /\
  abs t' = abs t ++ l /\
  (forall k, k <> newest_key -> (forall i, k <> be_min i) -> tget k t' = tget k t).
Proof. exact push_etxs_spec. Qed.
Print Assumptions queue_push_refines_fifo.

(* PopETX returns the head, removes exactly it (the cell is deleted, oldest advances by one),
   and on an empty queue returns nothing and writes nothing *)
Theorem queue_pop_refines_fifo : forall t, Inv t ->
  match abs t with
  | [] => pop_etx t = (None, t)
  | e :: rest =>
      exists t', pop_etx t = (Some e, t') /\ Inv t' /\ abs t' = rest /\
        get_oldest t' = get_oldest t + 1 /\ get_newest t' = get_newest t /\
        cell t' (get_oldest t) = [] /\
        (forall k, k <> oldest_key -> k <> be_min (get_oldest t) -> tget k t' = tget k t)
  end.
Proof. exact pop_etx_spec. Qed.
Print Assumptions queue_pop_refines_fifo.

Theorem queue_pop_on_empty_is_none : forall t, Inv t -> abs t = [] -> pop_etx t = (None, t).
Proof. exact pop_empty. Qed.
Print Assumptions queue_pop_on_empty_is_none.

(* ReadETX i is the (i - oldest)-th pending item, nothing outside [oldest, newest) *)
Theorem queue_read_refines : forall t i, Inv t ->
  read_etx t i =
  if (get_oldest t <=? i) && (i <? get_newest t)
  then nth_error (abs t) (N.to_nat (i - get_oldest t)) else None.
Proof. exact read_etx_spec. Qed.
Print Assumptions queue_read_refines.

(* exactly once, in order, for every history: what was queued or pushed = what the pops
   handed out (in that order) followed by what is still queued *)
Theorem queue_exactly_once_in_order : forall t ops, Inv t -> wf_ops ops ->
  abs t ++ pushed ops = popped t ops ++ abs (qrun_state t ops).
Proof. intros t ops. exact (history_conservation ops t). Qed.
Print Assumptions queue_exactly_once_in_order.

Theorem queue_popped_is_prefix_of_pushed : forall o0 ops, wf_ops ops ->
  exists rest, pushed ops = popped (init_at o0) ops ++ rest /\ rest = abs (qrun_state (init_at o0) ops).
Proof.
  intros o0 ops W. eexists. split; [|reflexivity].
  rewrite <- (history_conservation ops (init_at o0) (init_at_inv o0) W), init_at_abs. reflexivity.
Qed.
Print Assumptions queue_popped_is_prefix_of_pushed.

(* the trie (hence its root) is a function of (oldest index, pending items, other tenants):
   two different histories with the same final content give the same trie *)
Theorem queue_content_determines_trie : forall t1 t2, Inv t1 -> Inv t2 ->
  get_oldest t1 = get_oldest t2 -> abs t1 = abs t2 ->
  (forall k, k <> oldest_key -> k <> newest_key -> (forall i, k <> be_min i) -> tget k t1 = tget k t2) ->
  t1 = t2.
Proof. exact queue_canonical. Qed.
Print Assumptions queue_content_determines_trie.

(* the K-Quai cell living in the same trie neither disturbs the queue nor is disturbed *)
Theorem queue_other_tenant_frame : forall t v, Inv t ->
  let t' := set_kquai t v in
  Inv t' /\ abs t' = abs t /\ get_oldest t' = get_oldest t /\ get_newest t' = get_newest t /\
  get_kquai t' = v.
Proof. exact set_kquai_spec. Qed.
Print Assumptions queue_other_tenant_frame.

(* ======================= (b) block acceptance ======================= *)

(* generated obligation: Process pushes the parent's inbound set before the loop, pops,
   nil-checks and hash-compares every external transaction, then applies both guards *)
Theorem process_etx_discipline_in_source : process_etx_discipline_ok = true.
Proof. vm_compute. reflexivity. Qed.
Print Assumptions process_etx_discipline_in_source.

(* generated obligation: the two guards and the protocol constants in the source are the
   ones of the model, so for every valuation they evaluate to the model's rule functions *)
Theorem process_rules_as_modelled :
  src_count_rule = count_rule_expr /\ src_gas_rule = gas_rule_expr /\
  src_MinimumEtxGasDivisor = P_MIN_GAS_DIVISOR /\ src_MaximumEtxGasMultiplier = P_MAX_GAS_MULT /\
  src_MinEtxCount = P_MIN_COUNT /\ src_MaxEtxCount = P_MAX_COUNT /\ src_TimeToStartTx = P_TIME_TO_START_TX.
Proof. vm_compute. repeat split. Qed.
Print Assumptions process_rules_as_modelled.

Theorem process_rules_semantics : forall num avail count gas gl,
  beval (rule_env num count gas gl) (rule_benv avail) src_count_rule = count_rule_viol num avail count /\
  beval (rule_env num count gas gl) (rule_benv avail) src_gas_rule = gas_rule_viol num avail gas gl.
Proof.
  intros. destruct process_rules_as_modelled as (-> & -> & _).
  split; [apply count_rule_expr_sem|apply gas_rule_expr_sem].
Qed.
Print Assumptions process_rules_semantics.

(* an accepted block contains precisely the next items of (queue ++ parent's inbound set),
   unless two different ETXs have the same hash; they are consumed, the rest stays queued *)
Theorem accepted_block_takes_next_items :
  forall (H : Type) (hash : etx -> H) (heqb : H -> H -> bool),
  (forall a b, heqb a b = true <-> a = b) ->
  forall t inbound blk num gl t', Inv t -> wf_etxs inbound ->
  accept_block H hash heqb t inbound blk num gl = (VAccept, t') ->
  let Q := abs t ++ inbound in
  (length blk <= length Q)%nat /\
  (map fst blk = firstn (length blk) Q \/ collision H hash) /\
  abs t' = skipn (length blk) Q /\ Inv t'.
Proof. exact accept_next_items. Qed.
Print Assumptions accepted_block_takes_next_items.

(* anything else (out of order, duplicated, unknown, altered, more than queued) is refused *)
Theorem block_rejected_unless_next_items :
  forall (H : Type) (hash : etx -> H) (heqb : H -> H -> bool),
  (forall a b, heqb a b = true <-> a = b) ->
  forall t inbound blk num gl, Inv t -> wf_etxs inbound ->
  let Q := abs t ++ inbound in
  ~ ((length blk <= length Q)%nat /\ map hash (map fst blk) = map hash (firstn (length blk) Q)) ->
  fst (accept_block H hash heqb t inbound blk num gl) <> VAccept.
Proof. exact reject_not_next_items. Qed.
Print Assumptions block_rejected_unless_next_items.

(* complete characterisation of acceptance *)
Theorem block_acceptance_characterised :
  forall (H : Type) (hash : etx -> H) (heqb : H -> H -> bool),
  (forall a b, heqb a b = true <-> a = b) ->
  forall t inbound blk num gl, Inv t -> wf_etxs inbound ->
  let Q := abs t ++ inbound in
  let avail := Nat.ltb (length blk) (length Q) in
  fst (accept_block H hash heqb t inbound blk num gl) = VAccept <->
  ((length blk <= length Q)%nat /\ map hash (map fst blk) = map hash (firstn (length blk) Q) /\
   count_rule_viol num avail (N.of_nat (length blk)) = false /\
   gas_rule_viol num avail (gas_sum blk) gl = false).
Proof. exact accept_iff. Qed.
Print Assumptions block_acceptance_characterised.

(* a block may not ignore a non-empty queue beyond the minimum-inclusion rule (nor exceed
   the maximum) *)
Theorem min_inclusion_enforced :
  forall (H : Type) (hash : etx -> H) (heqb : H -> H -> bool),
  (forall a b, heqb a b = true <-> a = b) ->
  forall t inbound blk num gl, Inv t -> wf_etxs inbound ->
  fst (accept_block H hash heqb t inbound blk num gl) = VAccept ->
  let Q := abs t ++ inbound in
  let n := N.of_nat (length blk) in
  (num <= P_TIME_TO_START_TX -> n <= P_MAX_COUNT /\ ((length blk < length Q)%nat -> P_MIN_COUNT <= n)) /\
  (P_TIME_TO_START_TX < num -> gas_sum blk <= max_etx_gas gl /\
                                ((length blk < length Q)%nat -> min_etx_gas gl <= gas_sum blk)).
Proof. exact min_inclusion. Qed.
Print Assumptions min_inclusion_enforced.

Theorem accepted_block_has_no_duplicate :
  forall (H : Type) (hash : etx -> H) (heqb : H -> H -> bool),
  (forall a b, heqb a b = true <-> a = b) ->
  forall t inbound blk num gl, Inv t -> wf_etxs inbound ->
  NoDup (map hash (abs t ++ inbound)) ->
  fst (accept_block H hash heqb t inbound blk num gl) = VAccept ->
  NoDup (map hash (map fst blk)).
Proof. exact accept_no_duplicates. Qed.
Print Assumptions accepted_block_has_no_duplicate.

(* over any sequence of candidate blocks on a zone chain (each accepted block becomes the head
   and carries the inbound set the dominant chain fixed for it; refused candidates leave the
   head unchanged): what was pending or delivered = what accepted blocks executed, in order,
   followed by what is still pending -- nothing lost, duplicated or reordered *)
Theorem chain_exactly_once_in_order :
  forall (H : Type) (hash : etx -> H) (heqb : H -> H -> bool),
  (forall a b, heqb a b = true <-> a = b) ->
  forall cs t inb, Inv t -> wf_etxs inb -> wf_cands cs ->
  let r := run_chain H hash heqb t inb cs in
  Inv (snd (fst r)) /\ wf_etxs (snd r) /\
  map hash (abs t ++ inb) ++ map hash (chain_delivered H hash heqb t inb cs) =
  map hash (chain_executed H hash heqb t inb cs) ++ map hash (abs (snd (fst r)) ++ snd r).
Proof. exact chain_conservation. Qed.
Print Assumptions chain_exactly_once_in_order.

Theorem chain_executes_nothing_twice :
  forall (H : Type) (hash : etx -> H) (heqb : H -> H -> bool),
  (forall a b, heqb a b = true <-> a = b) ->
  forall cs t inb, Inv t -> wf_etxs inb -> wf_cands cs ->
  NoDup (map hash (abs t ++ inb) ++ map hash (chain_delivered H hash heqb t inb cs)) ->
  NoDup (map hash (chain_executed H hash heqb t inb cs)).
Proof. exact chain_no_double_execution. Qed.
Print Assumptions chain_executes_nothing_twice.

(* generated obligation: ValidateState refuses a block whose header ETX-set root is not the
   root of the queue trie after processing (the queue content is committed by the header) *)
Theorem etx_root_committed_in_source : etx_root_committed_ok = true.
Proof. vm_compute. reflexivity. Qed.
Print Assumptions etx_root_committed_in_source.

(* ======================= (c) destination filters ======================= *)

Theorem routing_codes_as_in_source :
  src_CoinbaseType = ETX_COINBASE /\ src_ConversionType = ETX_CONVERSION /\
  src_PRIME_CTX = PRIME_CTX /\ src_REGION_CTX = REGION_CTX /\ src_ZONE_CTX = ZONE_CTX.
Proof. vm_compute. repeat split. Qed.
Print Assumptions routing_codes_as_in_source.

(* prime: of the W regions exactly the destination's region takes the ETX (none if the
   address names a region outside the hierarchy), whatever the ETX type and block order *)
Theorem route_prime_partition : forall W order p ty z,
  count (fun r => filter_to_sub [r; z] PRIME_CTX order (p, ty)) (nseq 0 W) =
  if p / 16 <? N.of_nat W then 1%nat else 0%nat.
Proof. exact prime_partition. Qed.
Print Assumptions route_prime_partition.

(* region r: of its Z zones exactly the destination zone takes the ETX; coinbase and
   conversion ETXs only when the block is coincident with prime *)
Theorem route_region_partition : forall r Z order p ty,
  count (fun z => filter_to_sub [r; z] REGION_CTX order (p, ty)) (nseq 0 Z) =
  if (p / 16 =? r) && (p mod 16 <? N.of_nat Z) && ((order =? PRIME_CTX) || standard_ty ty)
  then 1%nat else 0%nat.
Proof. exact region_partition. Qed.
Print Assumptions route_region_partition.

(* through prime and region an ETX reaches its destination zone and no other *)
Theorem route_to_destination_zone_only : forall p ty r z,
  filter_to_sub [r; z] PRIME_CTX PRIME_CTX (p, ty) && filter_to_sub [r; z] REGION_CTX PRIME_CTX (p, ty) = true
  <-> (r = p / 16 /\ z = p mod 16).
Proof. exact route_to_destination_only. Qed.
Print Assumptions route_to_destination_zone_only.

Theorem route_selected_is_destination : forall slice order p ty,
  (filter_to_sub slice REGION_CTX order (p, ty) = true -> slice = loc_of_prefix p) /\
  (filter_to_sub slice PRIME_CTX order (p, ty) = true -> nth_error slice 0 = Some (p / 16)) /\
  (forall ctx, ctx <> PRIME_CTX -> ctx <> REGION_CTX -> filter_to_sub slice ctx order (p, ty) = false).
Proof.
  intros. split; [apply filter_region_sound|split; [apply filter_prime_sound|]].
  intros ctx H0 H1. apply filter_zone_nothing; assumption.
Qed.
Print Assumptions route_selected_is_destination.

Theorem filter_to_location_exact : forall l p ty,
  filter_to_location l (p, ty) = true <-> l = loc_of_prefix p.
Proof. exact filter_to_location_spec. Qed.
Print Assumptions filter_to_location_exact.

Theorem destination_of_address_byte : forall p q,
  (p < 256 -> p / 16 < 16 /\ p mod 16 < 16) /\ (loc_of_prefix p = loc_of_prefix q -> p = q).
Proof. intros p q. split; [apply loc_of_prefix_bounds|apply loc_of_prefix_inj]. Qed.
Print Assumptions destination_of_address_byte.

(* ======================= non-vacuity ======================= *)

(* a history crossing the 255/256 key-length boundary, with a pop on empty in it *)
Example queue_nonvacuous :
  qrun (init_at 254)
    [QPop; QPush [[1]; [2]; [3]]; QNewest; QRead 256; QPop; QPop; QSetK 7; QPush1 [4]; QPop; QPop; QPop; QOldest; QGetK]
  = [OEtx None; OUnit; ONum 257; OEtx (Some [3]); OEtx (Some [1]); OEtx (Some [2]); OUnit; OUnit;
     OEtx (Some [3]); OEtx (Some [4]); OEtx None; ONum 258; ONum 7].
Proof. vm_compute. reflexivity. Qed.

Example queue_inv_nonvacuous : Inv ex_t /\ abs ex_t = [[1]; [2]; [3]] /\ get_oldest ex_t = 254 /\ get_newest ex_t = 257.
Proof. split; [exact ex_t_inv|]. vm_compute. repeat split. Qed.

(* acceptance: next items accepted; permuted, duplicated, unknown, too many refused;
   below the minimum count with a non-empty remainder refused, with an empty one accepted *)
Example accept_nonvacuous :
  fst (accept_block_id (init_at 0) (map (fun i => be_min (i + 1)) (nseq 0 60))
         (map (fun i => (be_min (i + 1), 21000)) (nseq 0 50)) 10 5000000) = VAccept /\
  fst (accept_block_id ex_t [[4]] [([1], 21000); ([2], 21000); ([3], 21000); ([4], 21000)] 10 5000000) = VAccept /\
  fst (accept_block_id ex_t [[4]] [([2], 21000); ([1], 21000)] 10 5000000) = VHashMismatch /\
  fst (accept_block_id ex_t [[4]] [([1], 21000); ([1], 21000)] 10 5000000) = VHashMismatch /\
  fst (accept_block_id ex_t [] [([1], 21000); ([2], 21000); ([3], 21000); ([9], 21000)] 10 5000000) = VPopNil /\
  fst (accept_block_id ex_t [[4]] [([1], 21000)] 10 5000000) = VCountRule /\
  fst (accept_block_id ex_t [[4]] [([1], 21000)] 300000 5000000) = VGasRule /\
  fst (accept_block_id ex_t [[4]] [([1], 1000000)] 300000 5000000) = VAccept /\
  fst (accept_block_id ex_t [[4]] [([1], 2000001)] 300000 5000000) = VGasRule.
Proof. vm_compute. repeat split. Qed.

Example chain_nonvacuous :
  let cs := [([([1], 1000000)], 300000, 5000000, [[4]; [5]]);          (* takes [1] of [1;2;3]: accepted *)
             ([([3], 1000000)], 300001, 5000000, [[9]]);                 (* out of order: refused *)
             ([([2], 500000); ([3], 500000)], 300001, 5000000, [[6]]);   (* accepted *)
             ([([4], 1000000); ([5], 1000000)], 300002, 5000000, [])] in (* accepted, [6] stays pending *)
  let '(vs, tf, inbf) := run_chain_id (init_at 255) [[1]; [2]; [3]] cs in
  map verdict_code vs = [0; 2; 0; 0] /\ abs tf = [[6]] /\ inbf = [] /\ get_oldest tf = 260 /\
  chain_executed (list N) (fun e => e) keqb (init_at 255) [[1]; [2]; [3]] cs = [[1]; [2]; [3]; [4]; [5]].
Proof. vm_compute. repeat split. Qed.

Example route_nonvacuous :
  map (filter_to_sub [1; 2] PRIME_CTX REGION_CTX) [(18, 0); (2, 0); (33, 1)] = [true; false; false] /\
  map (filter_to_sub [1; 2] REGION_CTX PRIME_CTX) [(18, 0); (18, 1); (18, 2); (17, 0)] = [true; true; true; false] /\
  map (filter_to_sub [1; 2] REGION_CTX REGION_CTX) [(18, 0); (18, 1); (18, 2); (18, 3)] = [true; false; false; true] /\
  map (filter_to_sub [1; 2] ZONE_CTX PRIME_CTX) [(18, 0)] = [false].
Proof. vm_compute. repeat split. Qed.

(* C03 — Only the key holder can authorise a transaction; no replay across chains.
   Property theorems only: each is closed by [exact <lemma>] and followed by
   [Print Assumptions].  Model: Model/C03.v  Lemmas: Proofs/C03.v, Proofs/C03_Payload.v, Proofs/C03_Pool.v,
   Lib/C03_TLVFacts.v.  keccak, ECDSA recovery, pubkey->address, Schnorr verification and
   MuSig2 aggregation are universally quantified functions: unforgeability is NOT a theorem;
   the binding theorems conclude "equal signed fields or here is a collision of the
   primitives". *)
From Coq Require Import List NArith ZArith Bool.
From GQ Require Import Lib.C03_TLV Lib.C03_TLVFacts Generated.C03Params Model.C03 Proofs.C03_Payload Proofs.C03 Proofs.C03_Pool.
Import ListNotations.
Local Open Scope Z_scope.

(* ---------- generated data (re-derived from /repo on every run) ---------- *)

(* secp256k1halfN = secp256k1N / 2, N is a 256-bit number *)
Theorem curve_half_n_is_half : half_n_is_half = true.
Proof. exact params_half. Qed.
Print Assumptions curve_half_n_is_half.

(* the wire schema (field numbers, wire types, presence) the payload model encodes with is the
   compiled one *)
Theorem wire_schema_matches : schema_matches = true.
Proof. exact params_schema. Qed.
Print Assumptions wire_schema_matches.

(* ProtoEncodeTxSigningData sets exactly the reviewed signed fields per type, and every field
   ProtoEncode puts on the wire is signed or is a signature value / work field *)
Theorem signing_covers_all_payload_fields : signing_covers_all_fields = true.
Proof. exact params_signing. Qed.
Print Assumptions signing_covers_all_payload_fields.

(* ---------- (a) signature values, for all integers ---------- *)

Theorem sig_values_accepted_iff : forall v r s,
  validate_sig_values v r s = true <->
  (1 <= r < secp_n /\ 1 <= s <= secp_half_n /\ (v = 0%N \/ v = 1%N)).
Proof. exact validate_iff. Qed.
Print Assumptions sig_values_accepted_iff.

Theorem bad_sig_values_rejected : forall v r s,
  r <= 0 \/ s <= 0 \/ r >= secp_n \/ s >= secp_n \/ s > secp_n / 2 \/ (v <> 0%N /\ v <> 1%N) ->
  validate_sig_values v r s = false.
Proof. exact bad_values_rejected. Qed.
Print Assumptions bad_sig_values_rejected.

Theorem malleable_twin_is_rejected : forall v v' r s,
  validate_sig_values v r s = true -> validate_sig_values v' r (secp_n - s) = false.
Proof. exact malleable_twin_rejected. Qed.
Print Assumptions malleable_twin_is_rejected.

(* recoverPlain, whatever the primitives: bad r / s, or Vb = V+27 outside {27,28,-27,-28} *)
Theorem recover_rejects_bad_values : forall (hash pub addr : Type) ecrecover addr_of_pub h r s vb,
  (r <= 0 \/ s <= 0 \/ r >= secp_n \/ s >= secp_n \/ s > secp_n / 2
   \/ (vb <> 27 /\ vb <> 28 /\ vb <> -27 /\ vb <> -28)) ->
  recover_plain hash pub addr ecrecover addr_of_pub h r s vb = RErrSig.
Proof. exact recover_plain_bad. Qed.
Print Assumptions recover_rejects_bad_values.

(* FULL statement "V not in {0,1} => error" is refuted by the faithful model for negative
   in-memory big.Int values: V = -54 / -55 alias 0 / 1 (BitLen and Uint64 read |V+27|).
   Not decodable from the wire (SetBytes is non-negative).  Replayed on the real code by the
   harness corpus (cases "negV"). *)
Theorem negative_v_aliases_refuted : forall (hash pub addr : Type) H ecrecover addr_of_pub sg f r s p m w,
  signer_sender hash pub addr H ecrecover addr_of_pub sg (mkQ f (-54) r s p m w)
  = signer_sender hash pub addr H ecrecover addr_of_pub sg (mkQ f 0 r s p m w)
  /\ signer_sender hash pub addr H ecrecover addr_of_pub sg (mkQ f (-55) r s p m w)
  = signer_sender hash pub addr H ecrecover addr_of_pub sg (mkQ f 1 r s p m w).
Proof. exact negative_v_alias. Qed.
Print Assumptions negative_v_aliases_refuted.

(* strongest true statement: every non-negative V other than 0, 1 and every bad r / s errors *)
Theorem out_of_range_rejected_partial : forall (hash pub addr : Type) H ecrecover addr_of_pub sg t,
  (q_r t <= 0 \/ q_s t <= 0 \/ q_r t >= secp_n \/ q_s t >= secp_n \/ q_s t > secp_n / 2
   \/ (0 <= q_v t /\ q_v t <> 0 /\ q_v t <> 1)) ->
  signer_sender hash pub addr H ecrecover addr_of_pub sg t = RErrChain
  \/ signer_sender hash pub addr H ecrecover addr_of_pub sg t = RErrSig.
Proof. exact sender_bad_sig. Qed.
Print Assumptions out_of_range_rejected_partial.

(* converse: an attributed sender implies the right chain, in-range low-S values and that the
   address is the one of the key recovered from exactly this transaction's signing bytes *)
Theorem sender_is_recovered_from_signing_bytes : forall (hash pub addr : Type) H ecrecover addr_of_pub sg t a,
  signer_sender hash pub addr H ecrecover addr_of_pub sg t = ROk a ->
  q_chain t = sg
  /\ (q_v t = 0 \/ q_v t = 1 \/ q_v t = -54 \/ q_v t = -55)
  /\ 1 <= q_r t < secp_n /\ 1 <= q_s t <= secp_half_n
  /\ exists p, ecrecover (H (signing_bytes (q_f t))) (q_r t) (q_s t) (v_byte (q_v t + 27)) = Some p
               /\ a = addr_of_pub p.
Proof. exact sender_ok. Qed.
Print Assumptions sender_is_recovered_from_signing_bytes.

(* ---------- (b) chain ID and the sender cache ---------- *)

Theorem wrong_chain_rejected : forall (hash pub addr : Type) H ecrecover addr_of_pub sg t,
  q_chain t <> sg -> signer_sender hash pub addr H ecrecover addr_of_pub sg t = RErrChain.
Proof. exact wrong_chain. Qed.
Print Assumptions wrong_chain_rejected.

(* for every history of Sender(signer_i, tx) and tx.Hash() calls on one fresh object, every
   answer equals the answer computed without any cache *)
Theorem cache_transparent : forall (hash pub addr : Type) H ecrecover addr_of_pub t ops,
  crun hash pub addr H ecrecover addr_of_pub t (None, false) ops
  = map (uncached hash pub addr H ecrecover addr_of_pub t) ops.
Proof. exact history_transparent. Qed.
Print Assumptions cache_transparent.

(* ... in particular a signer of another chain gets ErrInvalidChainId wherever it occurs in the
   history, whatever was cached before *)
Theorem wrong_chain_rejected_in_every_history : forall (hash pub addr : Type) H ecrecover addr_of_pub t ops pre chain loc post,
  ops = pre ++ OSender chain loc :: post -> q_chain t <> chain ->
  nth (length pre) (crun hash pub addr H ecrecover addr_of_pub t (None, false) ops) CNone = CRes RErrChain.
Proof. exact history_wrong_chain. Qed.
Print Assumptions wrong_chain_rejected_in_every_history.

(* whatever the history, a cached entry was computed by a signer of the transaction's own chain
   and is that signer's uncached answer *)
Theorem cache_never_crosses_chain : forall (hash pub addr : Type) H ecrecover addr_of_pub t ops cc a,
  fst (crun_state hash pub addr H ecrecover addr_of_pub t (None, false) ops) = Some (cc, a) ->
  cc = q_chain t /\ signer_sender hash pub addr H ecrecover addr_of_pub cc t = ROk a.
Proof. exact history_cache_owner. Qed.
Print Assumptions cache_never_crosses_chain.

(* the invariant is necessary: an entry written from outside (Transaction.SetFrom, used by the
   RPC client) is returned for its chain without any check *)
Theorem cache_entry_from_outside_is_trusted : forall (hash pub addr : Type) H ecrecover addr_of_pub t a sg,
  sender_cached hash pub addr H ecrecover addr_of_pub (Some (sg, a)) sg t = (Some (sg, a), ROk a).
Proof. exact poisoned_cache_answers. Qed.
Print Assumptions cache_entry_from_outside_is_trusted.

(* ---------- (c) the signature binds the payload ---------- *)

Theorem signing_bytes_injective : forall f1 f2, signing_bytes f1 = signing_bytes f2 -> f1 = f2.
Proof. exact signing_bytes_inj. Qed.
Print Assumptions signing_bytes_injective.

Theorem qi_signing_bytes_injective : forall f1 f2, qi_signing_bytes f1 = qi_signing_bytes f2 -> f1 = f2.
Proof. exact qi_signing_bytes_inj. Qed.
Print Assumptions qi_signing_bytes_injective.

(* the pool's sender-cache key tx.Hash() is computed from bytes that determine the signed
   fields, |V|, |R|, |S| and the work fields *)
Theorem pool_cache_key_binds_signature : forall t1 t2, full_bytes t1 = full_bytes t2 ->
  q_f t1 = q_f t2 /\ Z.abs (q_v t1) = Z.abs (q_v t2) /\ Z.abs (q_r t1) = Z.abs (q_r t2)
  /\ Z.abs (q_s t1) = Z.abs (q_s t2)
  /\ q_parent t1 = q_parent t2 /\ q_mix t1 = q_mix t2 /\ q_wnonce t1 = q_wnonce t2.
Proof. exact full_bytes_inj. Qed.
Print Assumptions pool_cache_key_binds_signature.

(* two transactions carrying the same signature values and attributed to the same sender (by
   signers of any chains) have the same signed fields: type, chain ID, nonce, gas price, gas,
   to, value, data, access list — or the primitives collide *)
Theorem sender_binds_payload : forall (hash pub addr : Type) H ecrecover addr_of_pub sg1 sg2 t1 t2 a,
  signer_sender hash pub addr H ecrecover addr_of_pub sg1 t1 = ROk a ->
  signer_sender hash pub addr H ecrecover addr_of_pub sg2 t2 = ROk a ->
  q_r t1 = q_r t2 -> q_s t1 = q_s t2 -> v_byte (q_v t1 + 27) = v_byte (q_v t2 + 27) ->
  q_f t1 = q_f t2 \/ sig_reuse_collision hash pub addr H ecrecover addr_of_pub.
Proof. exact binds_payload. Qed.
Print Assumptions sender_binds_payload.

Theorem no_replay_across_chains : forall (hash pub addr : Type) H ecrecover addr_of_pub sg1 sg2 t1 t2 a,
  sg1 <> sg2 ->
  signer_sender hash pub addr H ecrecover addr_of_pub sg1 t1 = ROk a ->
  signer_sender hash pub addr H ecrecover addr_of_pub sg2 t2 = ROk a ->
  q_r t1 = q_r t2 -> q_s t1 = q_s t2 -> v_byte (q_v t1 + 27) = v_byte (q_v t2 + 27) ->
  sig_reuse_collision hash pub addr H ecrecover addr_of_pub.
Proof. exact no_cross_chain_replay. Qed.
Print Assumptions no_replay_across_chains.

(* what the collision means for the primitives *)
Theorem collision_is_hash_or_recover_collision : forall (hash pub addr : Type) H ecrecover addr_of_pub,
  (forall x y : hash, {x = y} + {x <> y}) ->
  sig_reuse_collision hash pub addr H ecrecover addr_of_pub ->
  hash_collision hash H \/ recover_collision hash pub addr ecrecover addr_of_pub.
Proof. exact collision_split. Qed.
Print Assumptions collision_is_hash_or_recover_collision.

(* ---------- (d) Qi ---------- *)

(* accepted => right chain, at least one input, every input is spent with a key whose address
   is the consumed entry's owner (pointwise, in input order) and lies in the Qi ledger; with
   checkSig the (aggregated) key of exactly these keys verifies the signature over exactly this
   transaction's signing bytes *)
Theorem qi_needs_owner_keys : forall (hash pub addr sig : Type) H addr_of_pub addr_eqb in_qi_scope parse_ok agg verify
    chain cs f ins sg,
  qi_authorised hash pub addr sig H addr_of_pub addr_eqb in_qi_scope parse_ok agg verify chain cs f ins sg = QOk ->
  ins <> [] /\ qi_chain f = chain
  /\ Forall (owned pub addr addr_of_pub addr_eqb in_qi_scope parse_ok cs) ins
  /\ (cs = true -> exists k, final_key pub agg (map fst ins) = Some k
                            /\ verify k (H (qi_signing_bytes f)) sg = true).
Proof. exact authorised_ok. Qed.
Print Assumptions qi_needs_owner_keys.

(* the same at full strength, with the set lookup explicit (qi_process: input i = (outpoint, key),
   compared with the entry found under ITS OWN outpoint): accepted IF AND ONLY IF there is an input,
   the chain matches, EVERY input - each occurrence, at its own position, not each distinct key -
   carries a Qi-ledger key whose address equals the owner recorded under that input's outpoint, and
   (checkSig) the key aggregated over the carried keys, one per input with repetitions, verifies *)
Theorem qi_accept_iff_every_input_owned : forall (hash pub addr sig : Type) H addr_of_pub addr_eqb in_qi_scope parse_ok agg verify
    (outpoint : Type) utxo chain cs f oins sg,
  qi_process hash pub addr sig H addr_of_pub addr_eqb in_qi_scope parse_ok agg verify outpoint utxo chain cs f oins sg = QOk <->
  (oins <> [] /\ qi_chain f = chain
   /\ Forall (spent_by_owner pub addr addr_of_pub addr_eqb in_qi_scope parse_ok outpoint utxo cs) oins
   /\ (cs = true -> exists k, final_key pub agg (map snd oins) = Some k
                             /\ verify k (H (qi_signing_bytes f)) sg = true)).
Proof. exact process_iff. Qed.
Print Assumptions qi_accept_iff_every_input_owned.

Theorem qi_every_input_needs_its_owner_key : forall (hash pub addr sig : Type) H addr_of_pub addr_eqb in_qi_scope parse_ok agg verify
    (outpoint : Type) utxo chain cs f oins sg,
  qi_process hash pub addr sig H addr_of_pub addr_eqb in_qi_scope parse_ok agg verify outpoint utxo chain cs f oins sg = QOk ->
  forall n op pk, nth_error oins n = Some (op, pk) ->
    spent_by_owner pub addr addr_of_pub addr_eqb in_qi_scope parse_ok outpoint utxo cs (op, pk).
Proof. exact process_every_input. Qed.
Print Assumptions qi_every_input_needs_its_owner_key.

(* one input anywhere whose entry is missing or owned by another address: refused, whatever the
   other inputs are and whether or not the signature is checked *)
Theorem qi_foreign_input_refused_anywhere : forall (hash pub addr sig : Type) H addr_of_pub addr_eqb in_qi_scope parse_ok agg verify
    chain cs f pre pk e post sg,
  (forall ea, e = Some ea -> addr_eqb (addr_of_pub pk) ea = false) ->
  qi_authorised hash pub addr sig H addr_of_pub addr_eqb in_qi_scope parse_ok agg verify chain cs f (pre ++ (pk, e) :: post) sg <> QOk.
Proof. exact foreign_input_refused. Qed.
Print Assumptions qi_foreign_input_refused_anywhere.

(* a key that legitimately spends one entry does not thereby cover another input carrying the same
   key: if that input's entry is not owned by it the spend is refused, in either order *)
Theorem qi_repeated_key_covers_only_its_own_entries : forall (hash pub addr sig : Type) H addr_of_pub addr_eqb in_qi_scope parse_ok agg verify
    (outpoint : Type) utxo chain cs f pre op0 mid op pk post sg,
  spent_by_owner pub addr addr_of_pub addr_eqb in_qi_scope parse_ok outpoint utxo cs (op0, pk) ->
  (forall ea, utxo op = Some ea -> addr_eqb (addr_of_pub pk) ea = false) ->
  qi_process hash pub addr sig H addr_of_pub addr_eqb in_qi_scope parse_ok agg verify outpoint utxo chain cs f
             (pre ++ (op0, pk) :: mid ++ (op, pk) :: post) sg <> QOk
  /\ qi_process hash pub addr sig H addr_of_pub addr_eqb in_qi_scope parse_ok agg verify outpoint utxo chain cs f
             (pre ++ (op, pk) :: mid ++ (op0, pk) :: post) sg <> QOk.
Proof. exact process_key_reuse_refused. Qed.
Print Assumptions qi_repeated_key_covers_only_its_own_entries.

(* the per-distinct-key variant of the loop (NOT the code; Proofs/C03.v own_loop_per_key) is not
   equivalent: it accepts [key 1 on an entry of 1; key 1 on an entry of 2], the code's loop answers
   QOwner, with and without checkSig *)
Theorem qi_per_distinct_key_check_refuted :
  exists ins : list (N * option N),
    own_loop_per_key N N (fun p => p) N.eqb (fun _ => true) (fun _ => true) N.eqb true [] ins = QOk
    /\ own_loop N N (fun p => p) N.eqb (fun _ => true) (fun _ => true) true ins = QOwner
    /\ own_loop_per_key N N (fun p => p) N.eqb (fun _ => true) (fun _ => true) N.eqb false [] ins = QOk
    /\ own_loop N N (fun p => p) N.eqb (fun _ => true) (fun _ => true) false ins = QOwner.
Proof. exact per_key_loop_differs. Qed.
Print Assumptions qi_per_distinct_key_check_refuted.

Theorem qi_sig_binds_payload : forall (hash pub addr sig : Type) H addr_of_pub addr_eqb in_qi_scope parse_ok agg verify
    chain1 chain2 f1 f2 ins1 ins2 sg,
  qi_authorised hash pub addr sig H addr_of_pub addr_eqb in_qi_scope parse_ok agg verify chain1 true f1 ins1 sg = QOk ->
  qi_authorised hash pub addr sig H addr_of_pub addr_eqb in_qi_scope parse_ok agg verify chain2 true f2 ins2 sg = QOk ->
  map fst ins1 = map fst ins2 ->
  f1 = f2 \/ schnorr_reuse hash pub sig H verify.
Proof. exact qi_binds_payload. Qed.
Print Assumptions qi_sig_binds_payload.

(* PARTIAL: with checkSig = false (tx hash found in the pool's sender cache) the verdict does
   not depend on the signature at all; authorisation then rests on the pool having verified a
   transaction with the same tx.Hash(), which covers the signature field (obligation
   signing_covers_all_payload_fields: field 17 is encoded) *)
Theorem qi_unchecked_ignores_signature_partial : forall (hash pub addr sig : Type) H addr_of_pub addr_eqb in_qi_scope parse_ok agg verify
    chain f ins sg sg',
  qi_authorised hash pub addr sig H addr_of_pub addr_eqb in_qi_scope parse_ok agg verify chain false f ins sg
  = qi_authorised hash pub addr sig H addr_of_pub addr_eqb in_qi_scope parse_ok agg verify chain false f ins sg'.
Proof. exact unchecked_ignores_signature. Qed.
Print Assumptions qi_unchecked_ignores_signature_partial.

(* ---------- the pool's senders cache and the cache-derived checkSig of block processing ---------- *)

(* the checked verdict is exactly: the unchecked verdict (chain, every input owned, against the UTXO
   set at hand) AND a part that depends on the transaction alone - every carried key parses and the
   final key of exactly the carried keys verifies the signature over this payload.  The second part is
   what checkSig = false skips and what an entry of the senders cache has to stand for. *)
Theorem qi_checked_is_unchecked_and_signature : forall (hash pub addr sig : Type) H addr_of_pub addr_eqb in_qi_scope parse_ok agg verify
    (outpoint : Type) utxo chain f oins sg,
  qi_process hash pub addr sig H addr_of_pub addr_eqb in_qi_scope parse_ok agg verify outpoint utxo chain true f oins sg = QOk <->
  (qi_process hash pub addr sig H addr_of_pub addr_eqb in_qi_scope parse_ok agg verify outpoint utxo chain false f oins sg = QOk
   /\ qi_sig_ok hash pub sig H parse_ok agg verify f (map snd oins) sg = true).
Proof. exact process_split. Qed.
Print Assumptions qi_checked_is_unchecked_and_signature.

(* for EVERY history of pool operations (adds of valid / refused / known transactions, single or in a
   batch, removals, reorg re-injections with or without a cached fee) from any state satisfying it:
   every hash in the senders cache and every hash with a cached fee belongs to a transaction whose
   signature part holds - provided pool validation implies the signature part *)
Theorem pool_cache_holds_only_verified_signatures : forall (pool_valid reinject_valid : N -> bool) proc_ok (sigok : N -> bool),
  (forall i, pool_valid i = true -> sigok i = true) ->
  (forall i, reinject_valid i = true -> sigok i = true) ->
  forall ops st, pinv sigok st -> pinv sigok (pfinal pool_valid reinject_valid proc_ok st ops).
Proof. exact pfinal_inv. Qed.
Print Assumptions pool_cache_holds_only_verified_signatures.

(* a refused add records nothing: every table is as before (no "seen" entry in the senders cache) *)
Theorem refused_add_leaves_no_trace : forall (pool_valid reinject_valid : N -> bool) proc_ok st i,
  pool_valid i = false -> pmem i (p_qp st) = false ->
  pstep pool_valid reinject_valid proc_ok st (PAdd [i]) = (st, [2%N]).
Proof. exact refused_add_changes_nothing. Qed.
Print Assumptions refused_add_leaves_no_trace.

(* block processing with checkSig := hash not in the senders cache, after ANY pool history starting from
   the empty pool, at ANY later UTXO set: accepted => the fully checked verdict accepts (hence
   qi_accept_iff_every_input_owned applies: every input owned, signature of exactly the carried keys).
   The pool may have validated each transaction against any UTXO view of its own. *)
Theorem block_check_with_pool_cache_accepts_only_authorised : forall (hash pub addr sig outpoint : Type) H addr_of_pub addr_eqb in_qi_scope parse_ok agg verify
    chain (tf : N -> qfields) (tins : N -> list (outpoint * pub)) (tsg : N -> sig) (pool_valid reinject_valid : N -> bool) (proc0 : N -> bool -> bool),
  (forall i, pool_valid i = true ->
     exists utxo, qi_process hash pub addr sig H addr_of_pub addr_eqb in_qi_scope parse_ok agg verify outpoint utxo chain true (tf i) (tins i) (tsg i) = QOk) ->
  (forall i, reinject_valid i = true ->
     exists utxo, qi_process hash pub addr sig H addr_of_pub addr_eqb in_qi_scope parse_ok agg verify outpoint utxo chain true (tf i) (tins i) (tsg i) = QOk) ->
  forall ops utxo' i,
    qi_process hash pub addr sig H addr_of_pub addr_eqb in_qi_scope parse_ok agg verify outpoint utxo' chain
      (negb (pmem i (p_cache (pfinal pool_valid reinject_valid proc0 p_empty ops)))) (tf i) (tins i) (tsg i) = QOk ->
    qi_process hash pub addr sig H addr_of_pub addr_eqb in_qi_scope parse_ok agg verify outpoint utxo' chain true (tf i) (tins i) (tsg i) = QOk.
Proof. exact qi_cached_checksig_sound. Qed.
Print Assumptions block_check_with_pool_cache_accepts_only_authorised.

(* the same on the observation the harness compares: a PProc step that reports "accepted" *)
Theorem accepted_block_step_is_authorised : forall (pool_valid reinject_valid : N -> bool) proc_ok (sigok : N -> bool),
  (forall i, pool_valid i = true -> sigok i = true) ->
  (forall i, reinject_valid i = true -> sigok i = true) ->
  (forall i, proc_ok i false = true -> sigok i = true -> proc_ok i true = true) ->
  forall ops i c,
    snd (pstep pool_valid reinject_valid proc_ok (pfinal pool_valid reinject_valid proc_ok p_empty ops) (PProc [i])) = [c; 1%N] -> proc_ok i true = true.
Proof. exact proc_step_sound. Qed.
Print Assumptions accepted_block_step_is_authorised.

(* the "negative cache" variant of addQiTxs (NOT the code; Proofs/C03_Pool.v padd_one_neg: the hash of a
   refused transaction is remembered in the senders cache) breaks it: a transaction whose signature is
   invalid is refused by a block when never seen, refused by the pool, and then accepted by a block *)
Theorem negative_sender_cache_refuted :
  let pool_valid := fun _ : N => false in
  let proc_ok := fun (_ : N) (cs : bool) => negb cs in
  let st1 := fst (pstep_neg pool_valid proc_ok p_empty (PAdd [0%N])) in
  proc_ok 0%N true = false
  /\ snd (pstep pool_valid pool_valid proc_ok p_empty (PProc [0%N])) = [0%N; 0%N]
  /\ snd (pstep_neg pool_valid proc_ok p_empty (PAdd [0%N])) = [2%N]
  /\ snd (pstep_neg pool_valid proc_ok st1 (PProc [0%N])) = [1%N; 1%N]
  /\ snd (pstep pool_valid pool_valid proc_ok (fst (pstep pool_valid pool_valid proc_ok p_empty (PAdd [0%N]))) (PProc [0%N])) = [0%N; 0%N].
Proof. exact neg_cache_accepts_forged. Qed.
Print Assumptions negative_sender_cache_refuted.

(* ---------- non-vacuity ---------- *)

Example sig_values_nonvacuous :
  validate_sig_values 1 1 secp_half_n = true /\ validate_sig_values 0 (secp_n - 1) 1 = true
  /\ validate_sig_values 0 1 (secp_half_n + 1) = false /\ validate_sig_values 2 1 1 = false.
Proof. vm_compute. repeat split. Qed.

Local Open Scope N_scope.

Definition ex_f : sfields := mkS 9000 3 (2 * 10 ^ 9) 21000 (Some [0; 1; 2]) (10 ^ 18) [222; 173] [([0; 9], [[7]; [8]])].
Definition ex_t : qtx := mkQ ex_f 1%Z 5%Z 7%Z None (Some [1]) (Some 4).

Example sender_nonvacuous :
  x_sender (Some [10; 11]) 9000 ex_t = ROk [10; 11]
  /\ x_sender (Some [10; 11]) 1 ex_t = RErrChain
  /\ x_crun (Some [10; 11]) ex_t (None, false) [OHash; OSender 1 0; OSender 9000 1; OSender 1 0; OHash]
     = [CNone; CRes RErrChain; CRes (ROk [10; 11]); CRes RErrChain; CNone].
Proof. vm_compute. repeat split. Qed.

Example signing_bytes_nonvacuous : signing_bytes ex_f <> signing_bytes (mkS 9001 3 (2 * 10 ^ 9) 21000 (Some [0; 1; 2]) (10 ^ 18) [222; 173] [([0; 9], [[7]; [8]])]).
Proof. vm_compute. discriminate. Qed.

Example qi_nonvacuous :
  let f := mkQi 9000 [([1; 2], 0, [2; 5])] [(3, Some [0; 200], 0)] [] in
  x_qi 9000 true f [(([0; 200; 1], true, true), Some ([0; 200; 1], true))] true true = QOk
  /\ x_qi 9000 true f [(([0; 200; 2], true, true), Some ([0; 200; 1], true))] true true = QOwner
  /\ x_qi 9000 true f [(([0; 200; 1], true, true), Some ([0; 200; 1], true))] true false = QSig
  /\ x_qi 1 true f [(([0; 200; 1], true, true), Some ([0; 200; 1], true))] true true = QChain.
Proof. vm_compute. repeat split. Qed.

(* repeated key: accepted on two entries it owns; refused (checked and unchecked) as soon as one
   occurrence - second or first - consumes an entry of another owner *)
Example qi_repeated_key_nonvacuous :
  let f := mkQi 9000 [] [] [] in
  let a := ([0; 200; 1], true, true) in
  x_qi 9000 true f [(a, Some ([0; 200; 1], true)); (a, Some ([0; 200; 1], true))] true true = QOk
  /\ x_qi 9000 true f [(a, Some ([0; 200; 1], true)); (a, Some ([0; 200; 2], true))] true true = QOwner
  /\ x_qi 9000 false f [(a, Some ([0; 200; 1], true)); (a, Some ([0; 200; 2], true))] true true = QOwner
  /\ x_qi 9000 true f [(a, Some ([0; 200; 2], true)); (a, Some ([0; 200; 1], true))] true true = QOwner.
Proof. vm_compute. repeat split. Qed.

(* pool histories over a universe {0: owner-signed, 1: owner's key + foreign signature}: the forged one
   is never cached and never accepted by a block, before or after the pool refused it / a reorg handed
   it back; the valid one is cached after its add and then accepted unchecked *)
Example qi_pool_nonvacuous :
  let f := mkQi 9000 [] [] [] in
  let a := ([0; 200; 1], true, true, Some [0; 200; 1]) in
  let txs := [(f, [a], true, true, true, true); (f, [a], true, false, true, true)] in
  map fst (prun (fun i => x_pool_active txs i && x_pool_ok 9000 txs true i) (x_pool_ok 9000 txs true) (fun i cs => x_pool_ok 9000 txs cs i) p_empty
         [PProc [1]; PAdd [1]; PProc [1]; PReorg [1]; PProc [1]; PAdd [0; 1]; PProc [0]; PAdd [0]; PReorg [0; 1]; PProc [0]; PProc [1]])
  = [[0; 0]; [2]; [0; 0]; []; [0; 0]; [0; 2]; [1; 1]; [1]; []; [1; 1]; [0; 0]].
Proof. vm_compute. reflexivity. Qed.

(* C09 — Accepted headers extend their parent by the protocol's rules; entropy strictly increases;
   order deterministic.  Property theorems only: each is closed by [exact <lemma>] and followed by
   [Print Assumptions].  Model: Model/C09.v   Lemmas: Proofs/C09_Log.v, Proofs/C09.v *)
From Coq Require Import List ZArith Bool Sorted.
From GQ Require Import Lib.Key Lib.SMap Generated.C09Params Model.C09 Proofs.C09_Log Proofs.C09_Repr Proofs.C09.
Import ListNotations.
Local Open Scope Z_scope.

(** * side conditions on the constants generated from the repository (a source edit breaks these) *)
Theorem log_constants_ok : log_consts_ok = true.
Proof. exact log_consts_hold. Qed.
Print Assumptions log_constants_ok.

(* every network's MinDifficulty (genesis difficulty / 2) is at least 2: one bit of entropy per accepted seal *)
Theorem min_difficulty_at_least_2 : min_difficulty_ge_2 = true /\ min_is_half_genesis = true /\ duration_limits_pos = true.
Proof. exact (conj min_difficulty_ge_2_holds (conj min_is_half_genesis_holds duration_limits_pos_hold)). Qed.
Print Assumptions min_difficulty_at_least_2.

Theorem schedule_constants_ok :
  retarget_consts_pos = true /\ limit_consts_ok = true /\ min_gas_limit_is_const = true /\
  one_over_kqi_samples_ok = true /\ entropy_targets_ok = true.
Proof. exact (conj retarget_consts_pos_hold (conj limit_consts_hold (conj min_gas_limit_is_const_holds (conj one_over_kqi_samples_hold entropy_targets_hold)))). Qed.
Print Assumptions schedule_constants_ok.

(** * the fixed-point logarithm *)
Theorem log_big_monotone : forall x y, 0 < x <= y -> log_big x <= log_big y.
Proof. exact log_big_mono. Qed.
Print Assumptions log_big_monotone.

Theorem log_big_lower : forall x, 2 <= x -> 2 ^ mant_bits <= log_big x.
Proof. exact log_big_lower_bound. Qed.
Print Assumptions log_big_lower.

(* characteristic = floor(log2 x); the mantissa stays below one bit; exact at powers of two *)
Theorem log_big_characteristic : forall x,
  Z.log2 x * 2 ^ mant_bits <= log_big x < (Z.log2 x + 1) * 2 ^ mant_bits.
Proof. exact log_big_bounds. Qed.
Print Assumptions log_big_characteristic.

Theorem log_big_exact_at_powers_of_two : forall k, 0 <= k -> log_big (2 ^ k) = k * 2 ^ mant_bits.
Proof. exact log_big_pow2. Qed.
Print Assumptions log_big_exact_at_powers_of_two.

Theorem bigbits_bits_roundtrip : forall x, bigbits_to_bits (bits_to_bigbits x) = Z.log2 x.
Proof. exact (fun x => bigbits_roundtrip x log_consts_hold). Qed.
Print Assumptions bigbits_bits_roundtrip.

(* the line-by-line transcription of mathutil.BinaryLog (numerator + fracBits, partial trailing-zero stripping in
   normalize(), early exit on eq1()) computes exactly the value-semantics model used by all theorems, for every n > 0
   and every number of mantissa bits for which no squaring step can round to exactly 2.0 (true for 64: vm_compute) *)
Theorem binary_log_transcription_agrees : forall mb, 1 <= mb -> no_sqrt2_hit mb = true ->
  forall n, 0 < n -> binary_log_f n mb = binary_log n mb.
Proof. exact binary_log_f_eq. Qed.
Print Assumptions binary_log_transcription_agrees.

Theorem log_big_transcription_agrees : no_sqrt2_hit mant_bits = true /\ forall n, 0 < n -> log_big_f n = log_big n.
Proof. exact (conj no_sqrt2_hit_64 log_big_f_eq). Qed.
Print Assumptions log_big_transcription_agrees.

(** * entropy of a seal *)
(* hash <= 2^256 / difficulty and difficulty >= 2 (in particular >= MinimumDifficulty, see min_difficulty_at_least_2)
   ==> at least one full bit of intrinsic entropy, and at least log2(difficulty).  For difficulty 1 the statement is
   false: intrinsic_entropy (2^256) = log_big 1 = 0 (intrinsic_entropy_zero_at_difficulty_1 below). *)
Theorem intrinsic_entropy_pos : forall hash d,
  0 < hash -> 2 <= d -> hash <= big2e256 / d ->
  0 < 2 ^ mant_bits <= intrinsic_entropy hash /\ log_big d <= intrinsic_entropy hash.
Proof.
  exact (fun hash d Hh Hd Hle =>
    conj (conj (pow2_gt0 mant_bits (Z.le_trans 0 1 _ Z.le_0_1 mant_bits_ge1)) (intrinsic_entropy_lower hash d Hh Hd Hle))
         (intrinsic_entropy_ge_log_difficulty hash d Hh (Z.lt_le_trans 0 2 d eq_refl Hd) Hle)).
Qed.
Print Assumptions intrinsic_entropy_pos.

Theorem intrinsic_entropy_monotone : forall h1 h2, 0 < h1 <= h2 -> h2 <= big2e256 ->
  intrinsic_entropy h2 <= intrinsic_entropy h1.
Proof. exact intrinsic_entropy_antitone. Qed.
Print Assumptions intrinsic_entropy_monotone.

Example intrinsic_entropy_zero_at_difficulty_1 : intrinsic_entropy (big2e256 / 1) = 0.
Proof. vm_compute. reflexivity. Qed.

(** * CalcOrder *)
(* an order is only assigned to a seal that is under its target, with difficulty >= 2, and it then carries >= 1 bit *)
Theorem calc_order_accepts_only_valid_seals : forall h ie o, calc_order h = CoOk ie o -> num64 h <> 0 ->
  ie = intrinsic_entropy (h_pow h) /\ 0 < h_pow h <= big2e256 / h_diff h /\ 2 <= h_diff h /\
  (o = ctx_prime \/ o = ctx_region \/ o = ctx_zone).
Proof. exact calc_order_ok_inv. Qed.
Print Assumptions calc_order_accepts_only_valid_seals.

Theorem calc_order_entropy_at_least_one_bit : forall h ie o, calc_order h = CoOk ie o -> num64 h <> 0 -> 2 ^ mant_bits <= ie.
Proof. exact calc_order_entropy_pos. Qed.
Print Assumptions calc_order_entropy_at_least_one_bit.

(* the hierarchical order is a deterministic function of the seal and the recorded entropy deltas *)
Theorem calc_order_deterministic : forall h1 h2,
  num64 h1 = num64 h2 -> h_diff h1 = h_diff h2 -> h_pow h1 = h_pow h2 ->
  h_pd_r h1 = h_pd_r h2 -> h_pd_z h1 = h_pd_z h2 -> h_expansion h1 = h_expansion h2 ->
  calc_order h1 = calc_order h2.
Proof. exact calc_order_inputs. Qed.
Print Assumptions calc_order_deterministic.

Theorem calc_order_prime_needs_both_thresholds : forall h ie, calc_order h = CoOk ie ctx_prime -> num64 h <> 0 ->
  let zt := intrinsic_entropy (crop_hash (big2e256 / h_diff h)) in
  let pet := prime_entropy_target (h_expansion h) in
  zt + bits_to_bigbits pet < ie /\ pet * zt / big2 < h_pd_r h + h_pd_z h + ie.
Proof. exact calc_order_prime_inv. Qed.
Print Assumptions calc_order_prime_needs_both_thresholds.

(* memo soundness: for EVERY history of CalcOrder calls, evictions and restarts, every call returns the uncached
   computation — or two headers of the history with the same hash have different orders (a hash collision) *)
Theorem calc_order_cache_sound : forall ops, cache_run [] ops = map uncached ops \/ order_collision ops.
Proof. exact cache_sound. Qed.
Print Assumptions calc_order_cache_sound.

(** * CalcDifficulty *)
Theorem difficulty_floor : forall dl mind pd pt gp d,
  calc_difficulty dl mind pd pt gp = Some d -> mind <= pd -> mind <= d.
Proof. exact calc_difficulty_floor. Qed.
Print Assumptions difficulty_floor.

Theorem retarget_never_below_minimum : forall dl mind pd pt gpt, mind <= retarget dl mind pd pt gpt.
Proof. exact retarget_floor. Qed.
Print Assumptions retarget_never_below_minimum.

(* |new - parent| is bounded: up by parent*log2(parent)/(factor*period), down by the capped time difference *)
Theorem difficulty_step_bounded : forall dl mind pd pt gpt,
  0 < dl -> 0 <= pd -> 0 <= pt - gpt -> dl <= max_time_diff_between_blocks ->
  pd - pd * Z.log2 pd * (max_time_diff_between_blocks - dl) / (dl * difficulty_adjustment_factor * difficulty_adjustment_period) - 1
    <= retarget dl mind pd pt gpt
  /\ retarget dl mind pd pt gpt <= Z.max mind (pd + pd * Z.log2 pd / (difficulty_adjustment_factor * difficulty_adjustment_period)).
Proof.
  exact (fun dl mind pd pt gpt Hdl Hpd Ht Hcap =>
    conj (retarget_step_down dl mind pd pt gpt Hdl Hpd Hcap) (retarget_step_up dl mind pd pt gpt Hdl Hpd Ht)).
Qed.
Print Assumptions difficulty_step_bounded.

Theorem difficulty_direction : forall dl mind pd pt gpt, 0 < dl -> 0 <= pd ->
  (pt - gpt <= dl -> pd <= retarget dl mind pd pt gpt) /\
  (dl <= pt - gpt -> dl <= max_time_diff_between_blocks -> retarget dl mind pd pt gpt <= Z.max mind pd).
Proof.
  exact (fun dl mind pd pt gpt Hdl Hpd =>
    conj (retarget_direction_up dl mind pd pt gpt Hdl Hpd) (retarget_direction_down dl mind pd pt gpt Hdl Hpd)).
Qed.
Print Assumptions difficulty_direction.

(** * gas / state limit schedule *)
Theorem gas_limit_schedule : forall pnum plimit ceil,
  (pnum < time_to_start_tx -> calc_limit pnum plimit ceil = 0) /\
  (time_to_start_tx <= pnum -> calc_limit pnum 0 ceil = min_gas_limit_const) /\
  (2 * blocks_per_month <= pnum -> plimit <> 0 -> calc_limit pnum plimit ceil = ceil) /\
  (time_to_start_tx <= pnum < 2 * blocks_per_month -> min_gas_limit_const <= calc_limit pnum plimit ceil) /\
  (time_to_start_tx <= pnum < 2 * blocks_per_month -> plimit <> 0 -> 0 <= ceil -> pnum * ceil < 2 ^ 64 ->
     calc_limit pnum plimit ceil = Z.max min_gas_limit_const (pnum * ceil / (2 * blocks_per_month))).
Proof.
  exact (fun pnum plimit ceil =>
    conj (calc_limit_before_start pnum plimit ceil)
   (conj (calc_limit_first pnum ceil)
   (conj (calc_limit_after_ramp pnum plimit ceil)
   (conj (calc_limit_min pnum plimit ceil) (calc_limit_ramp pnum plimit ceil))))).
Qed.
Print Assumptions gas_limit_schedule.

(** * verifyHeader (zone context): accept ==> every derived field equals its expected value *)
Theorem number_time_rules : forall e p c, valid_child e p c = true ->
  h_num c = (if h_genesis p then 0 else h_num p) + 1 /\
  h_time p <= h_time c <= e_now e + allowed_future_block_time.
Proof. exact (fun e p c V => conj (pin_number e p c V) (pin_time e p c V)). Qed.
Print Assumptions number_time_rules.

Theorem valid_child_pins_difficulty : forall e p c, valid_child e p c = true -> expected_difficulty e p = Some (h_diff c).
Proof. exact pin_difficulty. Qed.
Print Assumptions valid_child_pins_difficulty.

Theorem valid_child_pins_parent_entropy : forall e p c, valid_child e p c = true ->
  h_pe_z c = expected_parent_entropy p /\ h_pd_z c = expected_parent_delta p /\ h_pud_z c = expected_parent_uncled_delta p.
Proof. exact (fun e p c V => conj (pin_parent_entropy e p c V) (conj (pin_parent_delta e p c V) (pin_parent_uncled_delta e p c V))). Qed.
Print Assumptions valid_child_pins_parent_entropy.

Theorem valid_child_pins_expansion : forall e p c, valid_child e p c = true -> expected_expansion e p = Some (h_expansion c).
Proof. exact pin_expansion. Qed.
Print Assumptions valid_child_pins_expansion.

Theorem valid_child_pins_limits : forall e p c, valid_child e p c = true ->
  (h_gas_limit c = expected_gas_limit e p /\ h_gas_used c <= h_gas_limit c <= 2 ^ 63 - 1) /\
  (h_state_limit c = expected_state_limit p /\ h_state_used c <= h_state_limit c) /\
  h_base_fee c = expected_base_fee e p.
Proof. exact (fun e p c V => conj (pin_gas_limit e p c V) (conj (pin_state_limit e p c V) (pin_base_fee e p c V))). Qed.
Print Assumptions valid_child_pins_limits.

Theorem valid_child_pins_prime_terminus : forall e p c, valid_child e p c = true ->
  h_pt_hash c = expected_pt_hash p /\ h_pt_num c = expected_pt_num p.
Proof. exact pin_prime_terminus. Qed.
Print Assumptions valid_child_pins_prime_terminus.

Theorem valid_child_parent_order_in_context : forall e p c, valid_child e p c = true ->
  exists o, parent_order p = Some o /\ o <= ctx_zone.
Proof. exact pin_parent_order. Qed.
Print Assumptions valid_child_parent_order_in_context.

(* consequently two accepted children of one parent agree on all derived fields *)
Theorem valid_children_agree_on_derived_fields : forall e p c1 c2,
  valid_child e p c1 = true -> valid_child e p c2 = true ->
  h_diff c1 = h_diff c2 /\ h_pe_z c1 = h_pe_z c2 /\ h_pd_z c1 = h_pd_z c2 /\ h_pud_z c1 = h_pud_z c2 /\
  h_expansion c1 = h_expansion c2 /\ h_gas_limit c1 = h_gas_limit c2 /\ h_state_limit c1 = h_state_limit c2 /\
  h_base_fee c1 = h_base_fee c2 /\ h_pt_hash c1 = h_pt_hash c2 /\ h_pt_num c1 = h_pt_num c2 /\ h_num c1 = h_num c2.
Proof. exact valid_children_agree. Qed.
Print Assumptions valid_children_agree_on_derived_fields.

(* the predicate evaluated by the correspondence check is the predicate of the theorems *)
Theorem valid_child_fast_is_valid_child : forall e p c, valid_child_fast e p c = valid_child e p c.
Proof. exact valid_child_fast_eq. Qed.
Print Assumptions valid_child_fast_is_valid_child.

(** * accumulated entropy *)
Theorem parent_entropy_is_accumulated : forall e p c, valid_child e p c = true ->
  h_pe_z c = total_entropy ctx_zone p.
Proof. exact parent_entropy_accumulated. Qed.
Print Assumptions parent_entropy_is_accumulated.

(* child.ParentEntropy = parent.ParentEntropy + intrinsic(parent) + workshares(parent) for a zone-order parent; the
   deltas accumulate the same way and restart at zero after a dominant-order parent *)
Theorem parent_entropy_accumulates_stepwise : forall e p c ie, valid_child e p c = true -> h_genesis p = false ->
  calc_order p = CoOk ie ctx_zone -> num64 p <> 0 ->
  h_pe_z c = h_pe_z p + intrinsic_entropy (h_pow p) + h_ws p /\
  h_pd_z c = h_pd_z p + intrinsic_entropy (h_pow p) + h_ws p /\
  h_pud_z c = h_pud_z p + h_uncled p.
Proof. exact parent_entropy_step. Qed.
Print Assumptions parent_entropy_accumulates_stepwise.

Theorem parent_delta_restarts_after_dominant_parent : forall e p c ie o,
  valid_child e p c = true -> calc_order p = CoOk ie o -> o < ctx_zone -> h_pd_z c = 0 /\ h_pud_z c = 0.
Proof. exact parent_delta_after_dom. Qed.
Print Assumptions parent_delta_restarts_after_dominant_parent.

(* FULL statement intended by the property: for every accepted link, total_entropy child > total_entropy parent.
   Proved here for zone-order children (all inputs a zone node validates).  For a dominant-order (region/prime
   coincident) child the zone node does not validate ParentEntropy(REGION/PRIME) and ParentDeltaEntropy(REGION) — the
   region and prime nodes do — so the increase is equivalent to a condition on those fields
   (entropy_increase_dominant_child_partial). *)
Theorem entropy_strictly_increases : forall e p c, valid_child e p c = true -> zone_block c = true ->
  total_entropy ctx_zone c = total_entropy ctx_zone p + own_entropy c /\
  total_entropy ctx_zone p < total_entropy ctx_zone c.
Proof. exact entropy_step. Qed.
Print Assumptions entropy_strictly_increases.

Theorem entropy_increase_dominant_child_partial : forall e p c ie o, valid_child e p c = true -> h_genesis c = false ->
  calc_order c = CoOk ie o -> o <> ctx_zone ->
  let base := if o =? ctx_prime then h_pe_p c + h_pd_r c + h_pd_z c else h_pe_r c + h_pd_z c in
  (o = ctx_prime \/ o = ctx_region) ->
  total_entropy ctx_zone c = base + ie + h_ws c /\
  (total_entropy ctx_zone p < total_entropy ctx_zone c <-> h_pe_z c < base + ie + h_ws c).
Proof. exact entropy_step_dom. Qed.
Print Assumptions entropy_increase_dominant_child_partial.

(* along ANY chain of accepted zone-order links the accumulated entropies are strictly increasing (every pair i < j),
   and the last one is the first plus the sum of the blocks' own entropies *)
Theorem entropy_strictly_increases_along_chains : forall l p,
  valid_chain p l = true -> forallb zone_block (map snd l) = true ->
  StronglySorted Z.lt (chain_totals p l) /\
  total_entropy ctx_zone (chain_last p l) = total_entropy ctx_zone p + fold_right Z.add 0 (map own_entropy (map snd l)).
Proof. exact (fun l p V Z => conj (chain_strictly_sorted l p V Z) (chain_sum l p V Z)). Qed.
Print Assumptions entropy_strictly_increases_along_chains.

(** * the number rule is exact on unbounded integers (header numbers are decoded from the wire without a width limit) *)
(* a header whose number differs from parent+1 is rejected — in particular every number CONGRUENT to parent+1 modulo
   2^64 (what NumberU64 would compare), 2^128, 2^256 or any other width *)
Theorem number_rule_exact_on_unbounded_integers : forall e p c m k, 0 < m -> k <> 0 ->
  h_num c = (if h_genesis p then 0 else h_num p) + 1 + k * m -> valid_child e p c = false.
Proof. exact congruent_number_rejected. Qed.
Print Assumptions number_rule_exact_on_unbounded_integers.

(** * histories: CalcOrder / TotalLogEntropy / DeltaLogEntropy / UncledDeltaLogEntropy over the shared memo *)
(* for EVERY history of calls of the four functions, evictions and restarts, in every node context, every call
   returns the function of the header alone (no dependence on earlier calls) — or two headers of the history share a
   hash and differ in their order (collision) *)
Theorem entropy_functions_history_independent : forall ctx ops,
  hist_run ctx [] ops = map (hist_uncached ctx) ops \/ hist_collision ops.
Proof. exact hist_sound. Qed.
Print Assumptions entropy_functions_history_independent.

(* stable across calls, caches and restarts: the same function on the same header returns the same value at any two
   positions of any history *)
Theorem entropy_functions_stable_across_history : forall ctx ops i j f h,
  nth_error ops i = Some (HCall f h) -> nth_error ops j = Some (HCall f h) ->
  nth_error (hist_run ctx [] ops) i = nth_error (hist_run ctx [] ops) j \/ hist_collision ops.
Proof. exact hist_stable. Qed.
Print Assumptions entropy_functions_stable_across_history.

(** * non-vacuity: a concrete accepted chain of three links observed on the real code (harness chain case 4711) *)
Definition ex_p : header := mkH 15756211122218741455 false 259201 196 1700020908 4214139 24087952227098138373633914913638497707840284485391274743742656544257550 0 769901847074247339142 757181550546886751787 1173159083484976602589 159156489641489504623 256383292402084813129 656540159741179334 906007504646785808 59396713011437832861 2 22367460 0 12000000 0 0 7793917193664559595 11.
Definition ex_c1 : header := mkH 16778651588042410861 false 259202 197 1700020913 4198043 14176087422853201873119852669490256198431017178224220461167164017626882 0 992429421628473065 1043470323858477466 1582616325735433005369 588786790411 665840534652541215909 925420380 60302720516084618669 4767842668847 2 12500048 10019679 12500048 4134458 37619393 7793917193664559595 11.
Definition ex_c2 : header := mkH 2729270095866957636 false 259203 198 1700020916 4185215 23449193357308590215938711026447113141398159744069429947878063802735527 0 749116563126906781 600717117076856693 2006182602391094194221 662733404104 1089406811308202404761 749608563 60302725283927287516 6179360 2 12500096 7995614 12500096 7904445 37609955 7793917193664559595 11.
Definition ex_c3 : header := mkH 11991362714993284855 false 259204 199 1700020926 4179111 24121054769387286014938084304108983917806253462767040026099140844565816 0 1036900961082392689 1086900929261444322 2416355084715250491272 622944900482 1499579293632358701812 621699031 60302725283933466876 120058826286572042515 2 12500144 8124097 12500144 615735 37602407 7793917193664559595 11.
Definition ex_e1 : env := mkEnv 1700020915 1 250000 50000000 (GpTime 1700020902) (mkG false false 769901847074247339142 2) (mkPT true false 2 1 true 2) (mkPT true false 2 0 true 2) 7179662860 (0, 0).
Definition ex_e2 : env := mkEnv 1700020917 1 250000 50000000 (GpTime 1700020908) (mkG false false 992429421628473065 2) (mkPT true false 2 0 true 2) (mkPT true false 2 0 true 2) 7179662860 (0, 0).
Definition ex_e3 : env := mkEnv 1700020931 1 250000 50000000 (GpTime 1700020913) (mkG false false 749116563126906781 2) (mkPT true false 2 0 true 2) (mkPT true false 2 0 true 2) 7179662860 (0, 0).
Definition ex_chain := [(ex_e1, ex_c1); (ex_e2, ex_c2); (ex_e3, ex_c3)].

Example valid_chain_nonvacuous :
  valid_chain ex_p ex_chain = true /\ forallb zone_block (map snd ex_chain) = true /\
  chain_totals ex_p ex_chain = [1582616325735433005369; 2006182602391094194221; 2416355084715250491272; 2825775779276840247508].
Proof. vm_compute. repeat split; reflexivity. Qed.

(* a single-field deviation of the valid child is rejected (difficulty + 1), and the retarget formula is exercised *)
Example valid_child_nonvacuous :
  valid_child ex_e1 ex_p ex_c1 = true /\
  expected_difficulty ex_e1 ex_p = Some 4198043 /\ h_diff ex_p = 4214139 /\
  calc_order ex_p = CoOk 409457242250456402780 ctx_zone.
Proof. vm_compute. repeat split; reflexivity. Qed.

Example log_big_nonvacuous : log_big 3 = 29237397617229858719 /\ log_big 1000000 = 367672544385916274646 /\
  intrinsic_entropy (big2e256 / 1000000) = 367672544385916274646.
Proof. vm_compute. repeat split; reflexivity. Qed.

(* a memo history with a hit, an eviction and a restart *)
Example cache_nonvacuous :
  cache_run [] [OpCall ex_c1; OpCall ex_c1; OpEvict (h_hash ex_c1); OpCall ex_c1; OpPurge; OpCall ex_c2] =
  map uncached [OpCall ex_c1; OpCall ex_c1; OpEvict (h_hash ex_c1); OpCall ex_c1; OpPurge; OpCall ex_c2]
  /\ cache_state [] [OpCall ex_c1] <> [].
Proof. vm_compute. split; [reflexivity|discriminate]. Qed.

Example difficulty_nonvacuous :
  retarget 5 1000 1000000 1700000004 1700000000 = 1000131 /\ retarget 5 1000 1000000 1700000100 1700000000 = 987465 /\
  retarget 5 1000 1010 1700000100 1700000000 = 1004 /\ retarget 5 1000 1000 1700001000 1700000000 = 1000.
Proof. vm_compute. repeat split; reflexivity. Qed.

(* the child of the observed chain with its number moved by 2^64 / 2^128: same low 64 bits, rejected *)
Definition with_num (c : header) (n : Z) : header :=
  mkH (h_hash c) (h_genesis c) n (h_num_prime c) (h_time c) (h_diff c) (h_pow c) (h_ws c) (h_pe_p c) (h_pe_r c) (h_pe_z c)
      (h_pd_r c) (h_pd_z c) (h_pud_r c) (h_pud_z c) (h_uncled c) (h_expansion c) (h_gas_limit c) (h_gas_used c)
      (h_state_limit c) (h_state_used c) (h_base_fee c) (h_pt_hash c) (h_pt_num c).
Example wide_number_nonvacuous :
  valid_child ex_e1 ex_p (with_num ex_c1 (h_num ex_c1)) = true /\
  valid_child ex_e1 ex_p (with_num ex_c1 (h_num ex_c1 + 2 ^ 64)) = false /\
  valid_child ex_e1 ex_p (with_num ex_c1 (h_num ex_c1 + 3 * 2 ^ 128)) = false /\
  num64 (with_num ex_c1 (h_num ex_c1 + 2 ^ 64)) = num64 ex_c1.
Proof. vm_compute. repeat split; reflexivity. Qed.

(* a history mixing the four functions on two blocks with a hit, an eviction and a restart *)
Example history_nonvacuous :
  let ops := [HCall FTotal ex_c1; HCall FDelta ex_c1; HCall FDelta ex_c1; HCall FTotal ex_c1; HCall FOrder ex_c1;
              HEvict (h_hash ex_c1); HCall FUDelta ex_c1; HPurge; HCall FTotal ex_c2; HCall FDelta ex_c1] in
  hist_run ctx_zone [] ops = map (hist_uncached ctx_zone) ops /\
  nth_error (hist_run ctx_zone [] ops) 0 = Some (Some (RZ 2006182602391094194221)).
Proof. vm_compute. split; reflexivity. Qed.

(** * the expansion number: ComputeExpansionNumber's "terminus is genesis" shortcut belongs to slice [0,0] only *)
(* the whole rule as a specification: the prime terminus must be stored; in slice [0,0] a genesis terminus hands its
   expansion number down; otherwise a terminus whose threshold count matured (trigger window + wait count) starts the
   next expansion (uint8 arithmetic), else the expansion number is the one of the terminus' prime parent *)
Theorem expansion_number_rule : forall l00 i x, expansion_of l00 i = Some x <->
  pt_found i = true /\
  ((pt_genesis i && l00 = true /\ x = pt_expansion i) \/
   (pt_genesis i && l00 = false /\ matured i = true /\ x = u8 (pt_expansion i + 1)) \/
   (pt_genesis i && l00 = false /\ matured i = false /\ ppt_found i = true /\ x = ppt_expansion i)).
Proof. exact expansion_of_spec. Qed.
Print Assumptions expansion_number_rule.

(* accept => the child's expansion number is the rule's value for the node's slice and the child's prime terminus
   (the parent itself when it is a prime block, else the block the parent names) *)
Theorem valid_child_pins_expansion_per_slice : forall e p c, valid_child e p c = true ->
  expansion_of (loc00 e) (terminus_view e p) = Some (h_expansion c).
Proof. exact valid_child_expansion_view. Qed.
Print Assumptions valid_child_pins_expansion_per_slice.

(* both directions outside [0,0]: the child of a matured terminus - genesis of the slice or not - carries the NEXT
   expansion number, and the old number (what the [0,0] shortcut would hand down) is not accepted *)
Theorem matured_terminus_starts_next_expansion_outside_slice_00 : forall e p c,
  valid_child e p c = true -> loc00 e = false ->
  matured (terminus_view e p) = true -> 0 <= pt_expansion (terminus_view e p) < 256 ->
  h_expansion c = u8 (pt_expansion (terminus_view e p) + 1) /\ h_expansion c <> pt_expansion (terminus_view e p).
Proof. exact matured_terminus_other_slice. Qed.
Print Assumptions matured_terminus_starts_next_expansion_outside_slice_00.

Theorem genesis_terminus_keeps_expansion_in_slice_00 : forall e p c, valid_child e p c = true -> loc00 e = true ->
  pt_genesis (terminus_view e p) = true -> h_expansion c = pt_expansion (terminus_view e p).
Proof. exact genesis_terminus_original_slice. Qed.
Print Assumptions genesis_terminus_keeps_expansion_in_slice_00.

Theorem expansion_outside_slice_00_ignores_genesis_flag : forall f g e t pf pe g',
  expansion_of false (mkPT f g e t pf pe) = expansion_of false (mkPT f g' e t pf pe).
Proof. exact expansion_of_other_slice_ignores_genesis. Qed.
Print Assumptions expansion_outside_slice_00_ignores_genesis_flag.

(* observed on the real code (harness, verify case of parent shape 7): node location [1,0], the parent is the
   expansion genesis of the slice (expansion number 1, threshold count 1168 = 144 + 1024); the accepted child carries
   expansion number 2; the same child with the old number 1 is rejected.  In slice [0,0] it is the other way round. *)
Definition with_expansion (c : header) (x : Z) : header :=
  mkH (h_hash c) (h_genesis c) (h_num c) (h_num_prime c) (h_time c) (h_diff c) (h_pow c) (h_ws c) (h_pe_p c) (h_pe_r c) (h_pe_z c)
      (h_pd_r c) (h_pd_z c) (h_pud_r c) (h_pud_z c) (h_uncled c) x (h_gas_limit c) (h_gas_used c)
      (h_state_limit c) (h_state_used c) (h_base_fee c) (h_pt_hash c) (h_pt_num c).
Definition with_loc (e : env) (l : Z * Z) : env :=
  mkEnv (e_now e) (e_dl e) (e_mind e) (e_gas_ceil e) (e_gp e) (e_gcase e) (e_pt_self e) (e_pt_ref e) (e_er_pt e) l.
Definition ex_g_env : env := mkEnv 1700017047 5 750000000000 61078297 GpNone (mkG false true 0 1) (mkPT true true 1 1168 true 1) (mkPT true false 1 0 true 1) 135055882200410184 (1, 0).
Definition ex_g : header := mkH 1465339490825810992 true 0 0 1700015289 750000047353 1 0 0 0 0 0 0 0 0 0 1 0 0 0 0 0 2879876176812484073 0.
Definition ex_gc : header := mkH 4857028232308997627 false 1 1 1700015297 750000047353 95347348776236488148298487346635213657089458515259266305309266198 0 855146307505988699 791796227994359420 0 733069157310 0 654070479 0 535043239890004 2 0 0 0 0 0 1465339490825810992 0.
Example expansion_genesis_nonvacuous :
  valid_child ex_g_env ex_g ex_gc = true /\ h_expansion ex_gc = 2 /\ loc00 ex_g_env = false /\
  matured (terminus_view ex_g_env ex_g) = true /\ pt_genesis (terminus_view ex_g_env ex_g) = true /\
  valid_child ex_g_env ex_g (with_expansion ex_gc 1) = false /\
  valid_child (with_loc ex_g_env (0, 0)) ex_g (with_expansion ex_gc 1) = true /\
  valid_child (with_loc ex_g_env (0, 0)) ex_g ex_gc = false /\
  valid_child (with_loc ex_g_env (0, 1)) ex_g ex_gc = true.
Proof. vm_compute. repeat split; reflexivity. Qed.

(** * VerifyHeader / AppendHeader: the verdict does not depend on the storage history of the header *)
(* the run the correspondence check evaluates is the model's run *)
Theorem store_run_fast_is_store_run : forall e p c ops,
  store_run_fast e p c ops = store_run (Some (e, p)) c StUnknown ops.
Proof. exact store_run_fast_eq. Qed.
Print Assumptions store_run_fast_is_store_run.

(* a header that was merely stored as a candidate (HeaderChain.WriteBlock: every block received from a peer, every
   failed append) is verified exactly like a header never seen; only a header that is part of the chain is skipped *)
Theorem verify_header_ignores_candidates : forall par c,
  verify_header_top StCandidate par c = verify_header_top StUnknown par c.
Proof. exact verify_top_ignores_candidate. Qed.
Print Assumptions verify_header_ignores_candidates.

Theorem verify_header_accepts_only_valid_children_or_chain_members : forall st e p c,
  verify_header_top st (Some (e, p)) c = true -> st = StAppended \/ valid_child e p c = true.
Proof. exact verify_top_sound. Qed.
Print Assumptions verify_header_accepts_only_valid_children_or_chain_members.

(* for EVERY history of VerifyHeader / AppendHeader calls, candidate writes, purges and restarts on a header that is
   not part of the chain, every verdict is verifyHeader's verdict on (stored parent, child) *)
Theorem verify_header_verdict_independent_of_storage_history : forall e p c ops st,
  st <> StAppended -> forallb not_commit ops = true ->
  Forall (fun o => o = None \/ o = Some (valid_child e p c)) (store_run (Some (e, p)) c st ops).
Proof. exact store_run_verdicts. Qed.
Print Assumptions verify_header_verdict_independent_of_storage_history.

(* the node: blocks arrive in any order, are stored as candidates and/or appended; every header that enters the
   chain was there before or is a valid child of the stored parent it was verified against ... *)
Theorem node_appends_only_valid_children : forall look s0 ops x,
  In x (ns_appended (node_run look s0 ops)) -> In x (ns_appended s0) \/ accepted_by look x.
Proof. exact node_appends_valid. Qed.
Print Assumptions node_appends_only_valid_children.

(* ... and the chain it builds is the same with every candidate write removed from the history *)
Theorem node_chain_independent_of_candidate_writes : forall look ops s,
  ns_appended (node_run look s ops) = ns_appended (node_run look s (filter (fun o => negb (is_write o)) ops)).
Proof. exact (fun look ops s => node_run_ignores_writes look ops s s eq_refl). Qed.
Print Assumptions node_chain_independent_of_candidate_writes.

(* the deviating sibling of the observed child (difficulty + 1) stays rejected through a history of candidate writes,
   a purge and a restart; after the commit of the VALID child VerifyHeader short-circuits *)
Definition with_diff (c : header) (d : Z) : header :=
  mkH (h_hash c) (h_genesis c) (h_num c) (h_num_prime c) (h_time c) d (h_pow c) (h_ws c) (h_pe_p c) (h_pe_r c) (h_pe_z c)
      (h_pd_r c) (h_pd_z c) (h_pud_r c) (h_pud_z c) (h_uncled c) (h_expansion c) (h_gas_limit c) (h_gas_used c)
      (h_state_limit c) (h_state_used c) (h_base_fee c) (h_pt_hash c) (h_pt_num c).
Example store_nonvacuous :
  let ops := [SoVerify; SoWrite; SoVerify; SoPurge; SoAppendHeader; SoRestart; SoVerify] in
  store_run (Some (ex_e1, ex_p)) (with_diff ex_c1 (h_diff ex_c1 + 1)) StUnknown ops =
    [Some false; None; Some false; None; Some false; None; Some false] /\
  store_run (Some (ex_e1, ex_p)) ex_c1 StUnknown (ops ++ [SoCommit; SoVerify]) =
    [Some true; None; Some true; None; Some true; None; Some true; None; Some true] /\
  ns_appended (node_run (fun _ => Some (ex_e1, ex_p)) (mkNS [] [])
     [NWrite (with_diff ex_c1 (h_diff ex_c1 + 1)); NAppend (with_diff ex_c1 (h_diff ex_c1 + 1)); NWrite ex_c1; NAppend ex_c1])
    = [h_hash ex_c1].
Proof. vm_compute. repeat split; reflexivity. Qed.

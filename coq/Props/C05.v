(* C05 -- Sending value off-chain is all-or-nothing at the origin.
   Property theorems only: each is closed by [exact <lemma>] and followed by
   [Print Assumptions].  Model: Model/C05.v   Lemmas: Proofs/C05.v
   Generated data (constants, jump-table rows, source order): Generated/C05Params.v

   [all_or_nothing value fee idx r] (Proofs/C05.v) is the property for one operation:
     success: status word 1 /\ debit = value + fee /\ exactly one ETX with that value at index idx
     failure: status word 0 /\ no debit /\ no ETX            (exactly one status word either way). *)
From Coq Require Import List NArith Bool.
From GQ Require Import Generated.C05Params Model.C05 Proofs.C05.
Import ListNotations.
Local Open Scope N_scope.

(* ---------------- ETX opcode (core/vm/instructions.go:opETX) ---------------- *)

(* FULL STATEMENT (refuted on the code as it is):
     forall c self bal idx alok addr value gl tip cap asz,
       all_or_nothing value ((tip+cap)*gl) idx (op_etx c self bal idx alok addr value gl tip cap asz).
   The debit (StateDB.SubBalance) precedes the access-list decode, the index-overflow check and the
   eligibility check; the eligibility branch and the sender check return without pushing a status word.
   Findings F2 (design/C05.findings.json); the witnesses are corpus cases of harness/cmd/c05. *)
Theorem send_all_or_nothing_op_etx_refuted :
  exists c self bal idx alok addr value gl tip cap asz,
    ~ all_or_nothing value (etx_fee gl tip cap) idx (op_etx c self bal idx alok addr value gl tip cap asz).
Proof. exact etx_aon_refuted. Qed.
Print Assumptions send_all_or_nothing_op_etx_refuted.

Theorem op_etx_bad_access_list_keeps_debit :
  let r := op_etx (wit_ctx wit_post 2 []) wit_self e21 0 false wit_to 12345 21000 1 2 3 in
  r_push r = Some 0 /\ r_debit r = 12345 + (1 + 2) * 21000 /\ r_emit r = None.
Proof. exact etx_bad_access_list_witness. Qed.
Print Assumptions op_etx_bad_access_list_keeps_debit.

Theorem op_etx_index_overflow_keeps_debit :
  let r := op_etx (wit_ctx wit_post 2 []) wit_self e21 65536 true wit_to 12345 21000 1 2 0 in
  r_push r = Some 0 /\ r_debit r = 12345 + (1 + 2) * 21000 /\ r_emit r = None.
Proof. exact etx_index_overflow_witness. Qed.
Print Assumptions op_etx_index_overflow_keeps_debit.

Theorem op_etx_ineligible_pushes_nothing_keeps_debit :
  let r := op_etx (wit_ctx wit_post 0 []) wit_self e21 0 true wit_to 12345 21000 1 2 0 in
  r_push r = None /\ r_debit r = 12345 + (1 + 2) * 21000 /\ r_emit r = None.
Proof. exact etx_ineligible_witness. Qed.
Print Assumptions op_etx_ineligible_pushes_nothing_keeps_debit.

(* before SelfDestructRefundForkBlock the amounts wrap modulo 2^256: the ETX carries 2^256-1, 62999 is debited *)
Theorem op_etx_prefork_amount_wraps :
  let r := op_etx (wit_ctx wit_pre 2 []) wit_self e21 0 true wit_to (W256 - 1) 21000 1 2 0 in
  r_push r = Some 1 /\ r_debit r = 62999 /\ exists e, r_emit r = Some e /\ e_value e = W256 - 1.
Proof. exact etx_prefork_wrap_witness. Qed.
Print Assumptions op_etx_prefork_amount_wraps.

(* PARTIAL (strongest true statement): in every fork regime and for ALL inputs whose amounts do not wrap,
   the operation is all-or-nothing EXACTLY when the input is outside the listed branches
   ([etx_defect]: destination out of scope and (sender not an in-zone Quai address, or the debit is
   reached and then the access list is malformed / the cache holds more than 65535 entries / the
   destination is ineligible)). *)
Theorem send_all_or_nothing_op_etx_partial : forall c self bal idx alok addr value gl tip cap asz,
  etx_amount_wraps c value gl tip cap = false ->
  (all_or_nothing value (etx_fee gl tip cap) idx (op_etx c self bal idx alok addr value gl tip cap asz)
   <-> etx_defect c self bal idx alok addr value gl tip cap asz = false).
Proof. exact op_etx_aon_iff. Qed.
Print Assumptions send_all_or_nothing_op_etx_partial.

(* after the fork no amount wraps: the characterisation holds for every input *)
Theorem op_etx_post_fork_never_wraps : forall c value gl tip cap,
  post_fork c = true -> etx_amount_wraps c value gl tip cap = false.
Proof. exact post_fork_no_wrap_etx. Qed.
Print Assumptions op_etx_post_fork_never_wraps.

(* exactly one status word, except on precisely these inputs (stack discipline of the jump-table row: pops 10, pushes 1) *)
Theorem op_etx_status_word_missing_iff : forall c self bal idx alok addr value gl tip cap asz,
  r_push (op_etx c self bal idx alok addr value gl tip cap asz) = None <->
  negb (in_scope (x_pfx c) (addr mod W160)) &&
  (negb (internal_quai (x_pfx c) self) ||
   match etx_debit c bal value gl tip cap with
   | Some _ => (alok || (asz =? 0)) && negb (MaxUint16 <? idx) && negb (eligible c (addr mod W160))
   | None => false
   end) = true.
Proof. exact op_etx_no_status_iff. Qed.
Print Assumptions op_etx_status_word_missing_iff.

(* an ETX is recorded iff the operation reports success; it carries the value, the fresh index, the sender *)
Theorem op_etx_records_iff_reports_success : forall c self bal idx alok addr value gl tip cap asz,
  r_emit (op_etx c self bal idx alok addr value gl tip cap asz) <> None <->
  r_push (op_etx c self bal idx alok addr value gl tip cap asz) = Some 1.
Proof. exact op_etx_emit_iff. Qed.
Print Assumptions op_etx_records_iff_reports_success.

Theorem op_etx_recorded_etx_shape : forall c self bal idx alok addr value gl tip cap asz e,
  r_emit (op_etx c self bal idx alok addr value gl tip cap asz) = Some e ->
  e_index e = idx /\ e_value e = value /\ e_sender e = self /\ e_to e = addr mod W160 /\ e_type e = EtxDefaultType
  /\ idx <= MaxUint16.
Proof. exact op_etx_emit_shape. Qed.
Print Assumptions op_etx_recorded_etx_shape.

(* ---------------- CONVERT opcode (core/vm/instructions.go:opConvert) ---------------- *)

(* FULL STATEMENT (refuted): forall c self bal idx addr value gl,
     all_or_nothing value (x_price c * gl) idx (op_convert c self bal idx addr value gl).
   Finding F3: the index-overflow branch sits after the debit. *)
Theorem send_all_or_nothing_op_convert_refuted :
  exists c self bal idx addr value gl,
    ~ all_or_nothing value (convert_fee c gl) idx (op_convert c self bal idx addr value gl).
Proof. exact convert_aon_refuted. Qed.
Print Assumptions send_all_or_nothing_op_convert_refuted.

Theorem op_convert_index_overflow_keeps_debit :
  let r := op_convert (wit_ctx wit_post 0 []) wit_self e21 65536 wit_qi MinQuaiConversionAmount 30000 in
  r_push r = Some 0 /\ r_debit r = MinQuaiConversionAmount + 1000000000 * 30000 /\ r_emit r = None.
Proof. exact convert_index_overflow_witness. Qed.
Print Assumptions op_convert_index_overflow_keeps_debit.

Theorem op_convert_prefork_amount_wraps :
  let r := op_convert (wit_ctx wit_pre 0 []) wit_self e21 0 wit_qi (W256 - 1) 21000 in
  r_push r = Some 1 /\ r_debit r = 20999999999999 /\ exists e, r_emit r = Some e /\ e_value e = W256 - 1.
Proof. exact convert_prefork_wrap_witness. Qed.
Print Assumptions op_convert_prefork_amount_wraps.

Theorem send_all_or_nothing_op_convert_partial : forall c self bal idx addr value gl,
  convert_amount_wraps c value gl = false ->
  (all_or_nothing value (convert_fee c gl) idx (op_convert c self bal idx addr value gl)
   <-> convert_defect c self bal idx addr value gl = false).
Proof. exact op_convert_aon_iff. Qed.
Print Assumptions send_all_or_nothing_op_convert_partial.

Theorem op_convert_status_word_missing_iff : forall c self bal idx addr value gl,
  r_push (op_convert c self bal idx addr value gl) = None <->
  convert_guard c addr value && negb (internal_quai (x_pfx c) self) = true.
Proof. exact op_convert_no_status_iff. Qed.
Print Assumptions op_convert_status_word_missing_iff.

Theorem op_convert_records_iff_reports_success : forall c self bal idx addr value gl,
  r_emit (op_convert c self bal idx addr value gl) <> None <->
  r_push (op_convert c self bal idx addr value gl) = Some 1.
Proof. exact op_convert_emit_iff. Qed.
Print Assumptions op_convert_records_iff_reports_success.

(* ---------------- plain call to an out-of-scope address (EVM.Call -> EVM.CreateETX) ---------------- *)

(* FULL STATEMENT, proved: Call's snapshot/revert makes CreateETX all-or-nothing although its
   index-overflow and eligibility checks also follow the debit.  The prepaid destination fee is the
   forwarded gas (gas - ETXGas), bought by the transaction; the balance debit is exactly the value. *)
Theorem send_all_or_nothing_create_etx_call : forall fuel c depth caller addr gas value w,
  internal_quai (x_pfx c) addr = false ->
  let r := call (S fuel) c depth caller addr gas value w in
  (c_err r = 0 /\ c_gas r = 0 /\ value <= getb caller (w_bal w) /\
   w_bal (c_world r) = subb caller value (w_bal w) /\
   exists e, w_etxs (c_world r) = w_etxs w ++ [e] /\ e_value e = value /\ e_index e = lenN (w_etxs w) /\
             e_gas e = gas - ETXGas /\ e_to e = addr /\ e_sender e = caller)
  \/ (c_err r <> 0 /\ c_world r = w).
Proof. exact create_etx_call_aon. Qed.
Print Assumptions send_all_or_nothing_create_etx_call.

(* ---------------- call frames ---------------- *)

(* a call that returns an error (fault, REVERT, depth, balance, CreateETX error) leaves balances and
   the ETX list exactly as they were -- for every program, to any depth *)
Theorem failed_call_leaves_no_trace : forall fuel c depth caller addr gas value w,
  c_err (call fuel c depth caller addr gas value w) <> 0 ->
  c_world (call fuel c depth caller addr gas value w) = w.
Proof. exact call_failed_no_trace. Qed.
Print Assumptions failed_call_leaves_no_trace.

(* the ETX list after a call = the list before ++ the ETXs recorded by the operations of frames that
   were not reverted, in execution order ([emitted]: an EvCall contributes its sub-trace only if ok);
   by the two records_iff_reports_success theorems these are exactly the operations that pushed 1 *)
Theorem outbound_set_is_successful_ops : forall fuel c depth caller addr gas value w,
  let r := call fuel c depth caller addr gas value w in
  w_etxs (c_world r) = w_etxs w ++ (if c_err r =? 0 then emitted_all (c_tr r) else []).
Proof. exact call_outbound. Qed.
Print Assumptions outbound_set_is_successful_ops.

(* indices are the positions 0,1,2,... without gaps *)
Theorem outbound_indices_are_positions : forall fuel c depth caller addr gas value w,
  indices_ok (w_etxs w) -> indices_ok (w_etxs (c_world (call fuel c depth caller addr gas value w))).
Proof. exact call_indices. Qed.
Print Assumptions outbound_indices_are_positions.

(* value leaves the accounts only through the debits of send operations in non-reverted frames
   (transfers between accounts are neutral, reverted frames give everything back) *)
Theorem value_leaves_only_through_send_operations : forall fuel c depth caller addr gas value w,
  let r := call fuel c depth caller addr gas value w in
  sumb (w_bal (c_world r)) + (if c_err r =? 0 then debited_all (c_tr r) else 0) = sumb (w_bal w).
Proof. exact call_conservation. Qed.
Print Assumptions value_leaves_only_through_send_operations.

(* FULL transaction-level statement (refuted, consequence of F2): "a successful transaction loses
   exactly what its recorded ETXs carry".  Witness: the frame does not fault, 75345 is gone, no ETX. *)
Theorem transaction_loses_value_without_etx_refuted :
  exists fuel c caller addr gas value w,
    let r := call fuel c 0 caller addr gas value w in
    c_err r = 0 /\ emitted_all (c_tr r) = [] /\ sumb (w_bal (c_world r)) < sumb (w_bal w).
Proof. exact tx_aon_refuted. Qed.
Print Assumptions transaction_loses_value_without_etx_refuted.

(* ---------------- lockup precompile: UnwrapQi under EVM.Call (core/vm/contracts.go, evm.go lockup branch) ---------------- *)

(* [unwrap_aon]: success: slot debited by exactly the value, gas limit taken from the gas, one ETX (value,
   fresh index, type UnwrapQi);  failure: slot and ETX list unchanged.
   FULL statement (all fork regimes) is refuted: before ShaEquivalentDifficultyForkBlock Call does not restore
   the snapshot after a failing lockup call and UnwrapQi checks the index after SetState. *)
Theorem send_all_or_nothing_unwrap_qi_call_refuted :
  exists c owner gas wrapped etxs benef value gl,
    ~ unwrap_aon owner gas wrapped etxs benef value gl (call_unwrap c owner gas wrapped etxs benef value gl).
Proof. exact unwrap_aon_refuted. Qed.
Print Assumptions send_all_or_nothing_unwrap_qi_call_refuted.

(* PARTIAL = full from the fork on, and before the fork for every input outside the index-overflow branch *)
Theorem send_all_or_nothing_unwrap_qi_call_partial : forall c owner gas wrapped etxs benef value gl,
  (ShaEquivalentDifficultyForkBlock <=? x_ptn c) || (lenN etxs <=? MaxUint16) = true ->
  unwrap_aon owner gas wrapped etxs benef value gl (call_unwrap c owner gas wrapped etxs benef value gl).
Proof. exact unwrap_call_aon_general. Qed.
Print Assumptions send_all_or_nothing_unwrap_qi_call_partial.

(* ---------------- the model's reading of the source is the current one ---------------- *)

Theorem jump_table_rows_as_modelled : rows_as_modelled = true.
Proof. exact rows_ok. Qed.
Print Assumptions jump_table_rows_as_modelled.

Theorem source_order_as_modelled : sources_as_modelled = true.
Proof. exact sources_ok. Qed.
Print Assumptions source_order_as_modelled.

Theorem fork_heights_as_modelled : forks_as_modelled = true.
Proof. exact forks_ok. Qed.
Print Assumptions fork_heights_as_modelled.

(* ---------------- non-vacuity ---------------- *)

(* an input outside the defect branches, with amounts that do not wrap: success *)
Example op_etx_partial_nonvacuous :
  etx_amount_wraps (wit_ctx wit_post 2 []) 12345 21000 1 2 = false /\
  etx_defect (wit_ctx wit_post 2 []) wit_self e21 7 true wit_to 12345 21000 1 2 0 = false /\
  op_etx (wit_ctx wit_post 2 []) wit_self e21 7 true wit_to 12345 21000 1 2 0
  = mkRes 75345 (Some 1) (Some (mkEtx wit_to wit_self 12345 7 EtxDefaultType 21000)).
Proof. vm_compute. auto. Qed.

(* and a pre-fork one *)
Example op_etx_partial_prefork_nonvacuous :
  etx_amount_wraps (wit_ctx wit_pre 2 []) 12345 21000 1 2 = false /\
  etx_defect (wit_ctx wit_pre 2 []) wit_self e21 0 true wit_to 12345 21000 1 2 0 = false /\
  r_push (op_etx (wit_ctx wit_pre 2 []) wit_self e21 0 true wit_to 12345 21000 1 2 0) = Some 1.
Proof. vm_compute. auto. Qed.

Example op_convert_partial_nonvacuous :
  convert_amount_wraps (wit_ctx wit_post 0 []) MinQuaiConversionAmount 21000 = false /\
  convert_defect (wit_ctx wit_post 0 []) wit_self e21 0 wit_qi MinQuaiConversionAmount 21000 = false /\
  op_convert (wit_ctx wit_post 0 []) wit_self e21 0 wit_qi MinQuaiConversionAmount 21000
  = mkRes (MinQuaiConversionAmount + 21000000000000) (Some 1)
          (Some (mkEtx wit_qi wit_self MinQuaiConversionAmount 0 EtxConversionType 21000)).
Proof. vm_compute. auto. Qed.

Example unwrap_qi_nonvacuous :
  call_unwrap (wit_ctx wit_post 0 []) wit_self 100000 5000 [] wit_qi 1200 30000
  = (true, 70000, 3800, [mkEtx wit_qi wit_self 1200 0 EtxUnwrapQiType 30000]) /\
  (let res := call_unwrap (wit_ctx wit_post 0 []) wit_self 100000 5000 (prefilled 65536) wit_qi 1200 30000 in
   fst (fst (fst res)) = false /\ snd (fst res) = 5000 /\ lenN (snd res) = 65536).
Proof. vm_compute. repeat split; reflexivity. Qed.

(* top-level call to a foreign address: one ETX, debit = value, gas forwarded *)
Example create_etx_call_nonvacuous :
  let r := call 3 (wit_ctx wit_post 2 []) 0 wit_origin wit_to 50000 1000 wit_world in
  c_err r = 0 /\ w_etxs (c_world r) = [mkEtx wit_to wit_origin 1000 0 EtxDefaultType 29000] /\
  getb wit_origin (w_bal (c_world r)) = e21 - 1000.
Proof. vm_compute. auto. Qed.

(* ... and to an ineligible one: the debit is reverted by Call *)
Example create_etx_call_failure_nonvacuous :
  let r := call 3 (wit_ctx wit_post 0 []) 0 wit_origin wit_to 50000 1000 wit_world in
  c_err r = 2 /\ c_world r = wit_world.
Proof. vm_compute. auto. Qed.

(* F2 with an empty stack below: the POP after the ETX underflows, the frame faults, nothing is left *)
Example failed_call_nonvacuous :
  let r := call 5 (wit_ctx wit_post 0 [(wit_self, wit_prog_inelig false)]) 0 wit_origin wit_self 10000000 0 wit_world in
  c_err r = 2 /\ c_world r = wit_world /\
  c_tr r = [EvOp 0 (mkRes 75345 None None)].
Proof. vm_compute. auto. Qed.

(* F2 with one word below: the POP eats it, the transaction succeeds and 75345 has vanished *)
Example no_status_word_loss_nonvacuous :
  let r := call 5 (wit_ctx wit_post 0 [(wit_self, wit_prog_inelig true)]) 0 wit_origin wit_self 10000000 0 wit_world in
  c_err r = 0 /\ w_etxs (c_world r) = [] /\ sumb (w_bal (c_world r)) + 75345 = sumb (w_bal wit_world).
Proof. exact tx_loss_witness_no_status. Qed.

(* nested frames: parent sends, child sends and reverts, parent sends again: indices 0,1 *)
Example outbound_set_nonvacuous :
  let send := [IPush 0; IPush 0; IPush 0; IPush 0; IPush 2; IPush 1; IPush 21000; IPush 12345; IPush wit_to; IPush 0; IEtx false; IPop] in
  let child := 0x0003b2b2b2b2b2b2b2b2b2b2b2b2b2b2b2b2b2b2 in
  let parent := send ++ [IPush 0; IPush 0; IPush 0; IPush 0; IPush 0; IPush child; IPush 500000; ICall; IPop] ++ send ++ [IStop] in
  let c := wit_ctx wit_post 2 [(wit_self, parent); (child, send ++ [IPush 0; IPush 0; IRevert])] in
  let w := mkW [(wit_origin, e21); (wit_self, e21); (child, e21)] [] in
  let r := call 6 c 0 wit_origin wit_self 10000000 0 w in
  c_err r = 0 /\
  map e_index (w_etxs (c_world r)) = [0; 1] /\ map e_sender (w_etxs (c_world r)) = [wit_self; wit_self] /\
  getb child (w_bal (c_world r)) = e21 /\ getb wit_self (w_bal (c_world r)) = e21 - 2 * 75345 /\
  emitted_all (c_tr r) = w_etxs (c_world r).
Proof. vm_compute. repeat split; reflexivity. Qed.

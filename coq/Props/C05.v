(* C05 -- Sending value off-chain is all-or-nothing at the origin.
   Property theorems only: each is closed by [exact <lemma>] and followed by
   [Print Assumptions].  Model: Model/C05.v   Lemmas: Proofs/C05.v
   Generated data (constants, jump-table rows, source order): Generated/C05Params.v

   [all_or_nothing value fee idx r] (Proofs/C05.v) is the property for one operation:
     success: status word 1 /\ debit = value + fee /\ exactly one ETX with that value at index idx
     failure: status word 0 /\ no debit /\ no ETX            (exactly one status word either way). *)
From Coq Require Import List NArith Bool.
From GQ Require Import Generated.C05Params Lib.C05_Slice Model.C05 Proofs.C05 Proofs.C05_Block Proofs.C05_Claim.
(* not used by the theorems: required here so that the number library of the harness-written case files is part of the
   cone the check builds (on a freshly cleaned tree nothing else would compile it) *)
From GQ Require Lib.C05_Num.
Import ListNotations.
Local Open Scope N_scope.

(* ---------------- ETX opcode (core/vm/instructions.go:opETX) ---------------- *)

(* FULL STATEMENT (refuted on the code as it is):
     forall c self bal idx alok addr value gl tip cap asz,
       all_or_nothing value ((tip+cap)*gl) idx (op_etx c self bal idx alok addr value gl tip cap asz).
   The debit (StateDB.SubBalance) precedes the access-list decode, the index-overflow check and the
   eligibility check; the eligibility branch and the sender check return without pushing a status word.
   Findings F2 (design/C05.findings.json); the witnesses are corpus cases of harness/cmd/c05. *)
Theorem send_all_or_nothing_op_etx_refuted :
  exists c self bal idx alok addr value gl tip cap asz,
    ~ all_or_nothing value (etx_fee gl tip cap) idx (op_etx c self bal idx alok addr value gl tip cap asz).
Proof. exact etx_aon_refuted. Qed.
Print Assumptions send_all_or_nothing_op_etx_refuted.

Theorem op_etx_bad_access_list_keeps_debit :
  let r := op_etx (wit_ctx wit_post 2 []) wit_self e21 0 false wit_to 12345 21000 1 2 3 in
  r_push r = Some 0 /\ r_debit r = 12345 + (1 + 2) * 21000 /\ r_emit r = None.
Proof. exact etx_bad_access_list_witness. Qed.
Print Assumptions op_etx_bad_access_list_keeps_debit.

Theorem op_etx_index_overflow_keeps_debit :
  let r := op_etx (wit_ctx wit_post 2 []) wit_self e21 65536 true wit_to 12345 21000 1 2 0 in
  r_push r = Some 0 /\ r_debit r = 12345 + (1 + 2) * 21000 /\ r_emit r = None.
Proof. exact etx_index_overflow_witness. Qed.
Print Assumptions op_etx_index_overflow_keeps_debit.

Theorem op_etx_ineligible_pushes_nothing_keeps_debit :
  let r := op_etx (wit_ctx wit_post 0 []) wit_self e21 0 true wit_to 12345 21000 1 2 0 in
  r_push r = None /\ r_debit r = 12345 + (1 + 2) * 21000 /\ r_emit r = None.
Proof. exact etx_ineligible_witness. Qed.
Print Assumptions op_etx_ineligible_pushes_nothing_keeps_debit.

(* before SelfDestructRefundForkBlock the amounts wrap modulo 2^256: the ETX carries 2^256-1, 62999 is debited *)
Theorem op_etx_prefork_amount_wraps :
  let r := op_etx (wit_ctx wit_pre 2 []) wit_self e21 0 true wit_to (W256 - 1) 21000 1 2 0 in
  r_push r = Some 1 /\ r_debit r = 62999 /\ exists e, r_emit r = Some e /\ e_value e = W256 - 1.
Proof. exact etx_prefork_wrap_witness. Qed.
Print Assumptions op_etx_prefork_amount_wraps.

(* PARTIAL (strongest true statement): in every fork regime and for ALL inputs whose amounts do not wrap,
   the operation is all-or-nothing EXACTLY when the input is outside the listed branches
   ([etx_defect]: destination out of scope and (sender not an in-zone Quai address, or the debit is
   reached and then the access list is malformed / the cache holds more than 65535 entries / the
   destination is ineligible)). *)
Theorem send_all_or_nothing_op_etx_partial : forall c self bal idx alok addr value gl tip cap asz,
  etx_amount_wraps c value gl tip cap = false ->
  (all_or_nothing value (etx_fee gl tip cap) idx (op_etx c self bal idx alok addr value gl tip cap asz)
   <-> etx_defect c self bal idx alok addr value gl tip cap asz = false).
Proof. exact op_etx_aon_iff. Qed.
Print Assumptions send_all_or_nothing_op_etx_partial.

(* after the fork no amount wraps: the characterisation holds for every input *)
Theorem op_etx_post_fork_never_wraps : forall c value gl tip cap,
  post_fork c = true -> etx_amount_wraps c value gl tip cap = false.
Proof. exact post_fork_no_wrap_etx. Qed.
Print Assumptions op_etx_post_fork_never_wraps.

(* exactly one status word, except on precisely these inputs (stack discipline of the jump-table row: pops 10, pushes 1) *)
Theorem op_etx_status_word_missing_iff : forall c self bal idx alok addr value gl tip cap asz,
  r_push (op_etx c self bal idx alok addr value gl tip cap asz) = None <->
  negb (in_scope (x_pfx c) (addr mod W160)) &&
  (negb (internal_quai (x_pfx c) self) ||
   match etx_debit c bal value gl tip cap with
   | Some _ => (alok || (asz =? 0)) && negb (MaxUint16 <? idx) && negb (eligible c (addr mod W160))
   | None => false
   end) = true.
Proof. exact op_etx_no_status_iff. Qed.
Print Assumptions op_etx_status_word_missing_iff.

(* an ETX is recorded iff the operation reports success; it carries the value, the fresh index, the sender *)
Theorem op_etx_records_iff_reports_success : forall c self bal idx alok addr value gl tip cap asz,
  r_emit (op_etx c self bal idx alok addr value gl tip cap asz) <> None <->
  r_push (op_etx c self bal idx alok addr value gl tip cap asz) = Some 1.
Proof. exact op_etx_emit_iff. Qed.
Print Assumptions op_etx_records_iff_reports_success.

Theorem op_etx_recorded_etx_shape : forall c self bal idx alok addr value gl tip cap asz e,
  r_emit (op_etx c self bal idx alok addr value gl tip cap asz) = Some e ->
  e_index e = idx /\ e_value e = value /\ e_sender e = self /\ e_to e = addr mod W160 /\ e_type e = EtxDefaultType
  /\ idx <= MaxUint16.
Proof. exact op_etx_emit_shape. Qed.
Print Assumptions op_etx_recorded_etx_shape.

(* ---------------- CONVERT opcode (core/vm/instructions.go:opConvert) ---------------- *)

(* FULL STATEMENT (refuted): forall c self bal idx addr value gl,
     all_or_nothing value (x_price c * gl) idx (op_convert c self bal idx addr value gl).
   Finding F3: the index-overflow branch sits after the debit. *)
Theorem send_all_or_nothing_op_convert_refuted :
  exists c self bal idx addr value gl,
    ~ all_or_nothing value (convert_fee c gl) idx (op_convert c self bal idx addr value gl).
Proof. exact convert_aon_refuted. Qed.
Print Assumptions send_all_or_nothing_op_convert_refuted.

Theorem op_convert_index_overflow_keeps_debit :
  let r := op_convert (wit_ctx wit_post 0 []) wit_self e21 65536 wit_qi MinQuaiConversionAmount 30000 in
  r_push r = Some 0 /\ r_debit r = MinQuaiConversionAmount + 1000000000 * 30000 /\ r_emit r = None.
Proof. exact convert_index_overflow_witness. Qed.
Print Assumptions op_convert_index_overflow_keeps_debit.

Theorem op_convert_prefork_amount_wraps :
  let r := op_convert (wit_ctx wit_pre 0 []) wit_self e21 0 wit_qi (W256 - 1) 21000 in
  r_push r = Some 1 /\ r_debit r = 20999999999999 /\ exists e, r_emit r = Some e /\ e_value e = W256 - 1.
Proof. exact convert_prefork_wrap_witness. Qed.
Print Assumptions op_convert_prefork_amount_wraps.

Theorem send_all_or_nothing_op_convert_partial : forall c self bal idx addr value gl,
  convert_amount_wraps c value gl = false ->
  (all_or_nothing value (convert_fee c gl) idx (op_convert c self bal idx addr value gl)
   <-> convert_defect c self bal idx addr value gl = false).
Proof. exact op_convert_aon_iff. Qed.
Print Assumptions send_all_or_nothing_op_convert_partial.

Theorem op_convert_status_word_missing_iff : forall c self bal idx addr value gl,
  r_push (op_convert c self bal idx addr value gl) = None <->
  convert_guard c addr value && negb (internal_quai (x_pfx c) self) = true.
Proof. exact op_convert_no_status_iff. Qed.
Print Assumptions op_convert_status_word_missing_iff.

Theorem op_convert_records_iff_reports_success : forall c self bal idx addr value gl,
  r_emit (op_convert c self bal idx addr value gl) <> None <->
  r_push (op_convert c self bal idx addr value gl) = Some 1.
Proof. exact op_convert_emit_iff. Qed.
Print Assumptions op_convert_records_iff_reports_success.

(* ---------------- plain call to an out-of-scope address (EVM.Call -> EVM.CreateETX) ---------------- *)

(* FULL STATEMENT, proved: Call's snapshot/revert makes CreateETX all-or-nothing although its
   index-overflow and eligibility checks also follow the debit.  The prepaid destination fee is the
   forwarded gas (gas - ETXGas), bought by the transaction; the balance debit is exactly the value. *)
Theorem send_all_or_nothing_create_etx_call : forall fuel c ro depth caller addr gas value w,
  internal_quai (x_pfx c) addr = false ->
  let r := call (S fuel) c (FK CkCall) ro depth caller addr gas value w in
  (c_err r = 0 /\ c_gas r = 0 /\ value <= getb caller (w_bal w) /\
   w_bal (c_world r) = subb caller value (w_bal w) /\
   exists e, w_etxs (c_world r) = w_etxs w ++ [e] /\ e_value e = value /\ e_index e = lenN (w_etxs w) /\
             e_gas e = gas - ETXGas /\ e_to e = addr /\ e_sender e = caller)
  \/ (c_err r <> 0 /\ c_world r = w).
Proof. exact create_etx_call_aon. Qed.
Print Assumptions send_all_or_nothing_create_etx_call.

(* ---------------- frames of every kind ----------------
   [call fuel c k ro depth caller addr gas value w] is EVM.Call (k = FK CkCall), EVM.CallCode (FK CkCallCode),
   EVM.DelegateCall (FK CkDelegate), EVM.StaticCall (FK CkStatic) or EVM.Create / Create2 + create
   (FCreate init naddr grind); the programs may use CALL, CALLCODE, DELEGATECALL, STATICCALL, CREATE and CREATE2
   to any depth.  The four statements below quantify over the kind k of the outermost frame as well. *)

(* FULL STATEMENT (refuted on the code as it is): a frame that returns an error leaves balances and the ETX
   list exactly as they were:
     forall fuel c k ro depth caller addr gas value w,
       c_err (call fuel c k ro depth caller addr gas value w) <> 0 -> c_world (call ...) = w.
   Constructors break it: evm.go:create does not restore its snapshot after ErrCodeStoreOutOfGas (the pre-Homestead
   rule of go-ethereum), so a constructor that sends and then returns more code than its gas can pay for makes
   CREATE push 0 while the endowment, the send's debit and its ETX all stay.  The send itself remains
   all-or-nothing (the ETX is backed by the debit of the new account); what is wrong is the report of the frame.
   Finding create:code-store-out-of-gas (design/C05.findings.json); the witness is a corpus case of the harness. *)
Theorem failed_frame_leaves_no_trace_refuted :
  exists fuel c k ro depth caller addr gas value w,
    c_err (call fuel c k ro depth caller addr gas value w) <> 0 /\
    c_world (call fuel c k ro depth caller addr gas value w) <> w.
Proof. exact failed_frame_no_trace_refuted. Qed.
Print Assumptions failed_frame_leaves_no_trace_refuted.

Theorem constructor_code_store_out_of_gas_keeps_effects :
  let r := call 5 (wit_ctx wit_post 2 []) (FCreate wit_ctor_big_code wit_new 0) false 0 wit_self 0 2000000 1000000 wit_world in
  c_err r = 6 /\
  w_etxs (c_world r) = [mkEtx wit_to wit_new 12345 0 EtxDefaultType 21000] /\
  getb wit_new (w_bal (c_world r)) = 1000000 - 75345 /\ getb wit_self (w_bal (c_world r)) = e21 - 1000000.
Proof. exact ctor_code_store_witness. Qed.
Print Assumptions constructor_code_store_out_of_gas_keeps_effects.

(* PROVED in full for the four message-call kinds: a CALL / CALLCODE / DELEGATECALL / STATICCALL frame that returns
   an error (fault, REVERT, depth, balance, write protection, bad target, CreateETX error, an error re-raised from
   below ...) leaves balances and the ETX list exactly as they were -- for every program, to any depth *)
Theorem failed_call_leaves_no_trace : forall fuel c k ro depth caller addr gas value w,
  c_err (call fuel c (FK k) ro depth caller addr gas value w) <> 0 ->
  c_world (call fuel c (FK k) ro depth caller addr gas value w) = w.
Proof. exact call_failed_no_trace. Qed.
Print Assumptions failed_call_leaves_no_trace.

(* PARTIAL for constructors (strongest true statement): every error except ErrCodeStoreOutOfGas (class 6) *)
Theorem failed_frame_leaves_no_trace_partial : forall fuel c k ro depth caller addr gas value w,
  c_err (call fuel c k ro depth caller addr gas value w) <> 0 ->
  c_err (call fuel c k ro depth caller addr gas value w) <> 6 ->
  c_world (call fuel c k ro depth caller addr gas value w) = w.
Proof. exact call_failed_no_trace_partial. Qed.
Print Assumptions failed_frame_leaves_no_trace_partial.

(* the ETX list after a frame = the list before ++ the ETXs recorded by the operations of frames that
   were not reverted, in execution order ([emitted]: an EvCall -- a frame of ANY kind -- contributes its
   sub-trace only if it was kept; [kept r] = no error, or the constructors' ErrCodeStoreOutOfGas); by the two
   records_iff_reports_success theorems these are exactly the operations that pushed 1 *)
Theorem outbound_set_is_successful_ops : forall fuel c k ro depth caller addr gas value w,
  let r := call fuel c k ro depth caller addr gas value w in
  w_etxs (c_world r) = w_etxs w ++ (if kept r then emitted_all (c_tr r) else []).
Proof. exact call_outbound. Qed.
Print Assumptions outbound_set_is_successful_ops.

(* indices are the positions 0,1,2,... without gaps *)
Theorem outbound_indices_are_positions : forall fuel c k ro depth caller addr gas value w,
  indices_ok (w_etxs w) -> indices_ok (w_etxs (c_world (call fuel c k ro depth caller addr gas value w))).
Proof. exact call_indices. Qed.
Print Assumptions outbound_indices_are_positions.

(* value leaves the accounts only through the debits of send operations in non-reverted frames
   (transfers between accounts -- CALL value, constructor endowment -- are neutral, reverted frames give
   everything back) *)
Theorem value_leaves_only_through_send_operations : forall fuel c k ro depth caller addr gas value w,
  let r := call fuel c k ro depth caller addr gas value w in
  sumb (w_bal (c_world r)) + (if kept r then debited_all (c_tr r) else 0) = sumb (w_bal w).
Proof. exact call_conservation. Qed.
Print Assumptions value_leaves_only_through_send_operations.

(* a STATICCALL frame (and whatever it calls) neither debits anybody nor records an ETX: ETX, CONVERT, CREATE,
   CREATE2 and value-carrying CALLs are write-protected (the "writes" flags come from the generated jump-table
   rows) and the flag is inherited by every frame below *)
Theorem static_frame_sends_nothing : forall fuel c ro depth caller addr gas value w,
  c_world (call fuel c (FK CkStatic) ro depth caller addr gas value w) = w.
Proof. exact static_call_world. Qed.
Print Assumptions static_frame_sends_nothing.

(* ... more generally every frame function reached while interpreter.readOnly is set ([ro_args]) *)
Theorem read_only_frames_send_nothing : forall fuel c k ro depth caller addr gas value w,
  ro_args c k ro addr value -> c_world (call fuel c k ro depth caller addr gas value w) = w.
Proof. exact call_ro_inv. Qed.
Print Assumptions read_only_frames_send_nothing.

(* FULL transaction-level statement (refuted, consequence of F2): "a successful transaction loses
   exactly what its recorded ETXs carry".  Witness: the frame does not fault, 75345 is gone, no ETX. *)
Theorem transaction_loses_value_without_etx_refuted :
  exists fuel c caller addr gas value w,
    let r := call fuel c (FK CkCall) false 0 caller addr gas value w in
    c_err r = 0 /\ emitted_all (c_tr r) = [] /\ sumb (w_bal (c_world r)) < sumb (w_bal w).
Proof. exact tx_aon_refuted. Qed.
Print Assumptions transaction_loses_value_without_etx_refuted.

(* ---------------- lockup precompile: UnwrapQi under EVM.Call (core/vm/contracts.go, evm.go lockup branch) ---------------- *)

(* [unwrap_aon]: success: slot debited by exactly the value, gas limit taken from the gas, one ETX (value,
   fresh index, type UnwrapQi);  failure: slot and ETX list unchanged.
   FULL statement (all fork regimes) is refuted: before ShaEquivalentDifficultyForkBlock Call does not restore
   the snapshot after a failing lockup call and UnwrapQi checks the index after SetState. *)
Theorem send_all_or_nothing_unwrap_qi_call_refuted :
  exists c owner gas wrapped etxs benef value gl,
    ~ unwrap_aon owner gas wrapped etxs benef value gl (call_unwrap c owner gas wrapped etxs benef value gl).
Proof. exact unwrap_aon_refuted. Qed.
Print Assumptions send_all_or_nothing_unwrap_qi_call_refuted.

(* PARTIAL = full from the fork on, and before the fork for every input outside the index-overflow branch *)
Theorem send_all_or_nothing_unwrap_qi_call_partial : forall c owner gas wrapped etxs benef value gl,
  (ShaEquivalentDifficultyForkBlock <=? x_ptn c) || (lenN etxs <=? MaxUint16) = true ->
  unwrap_aon owner gas wrapped etxs benef value gl (call_unwrap c owner gas wrapped etxs benef value gl).
Proof. exact unwrap_call_aon_general. Qed.
Print Assumptions send_all_or_nothing_unwrap_qi_call_partial.

(* ---------------- the model's reading of the source is the current one ---------------- *)

Theorem jump_table_rows_as_modelled : rows_as_modelled = true.
Proof. exact rows_ok. Qed.
Print Assumptions jump_table_rows_as_modelled.

Theorem source_order_as_modelled : sources_as_modelled = true.
Proof. exact sources_ok. Qed.
Print Assumptions source_order_as_modelled.

Theorem fork_heights_as_modelled : forks_as_modelled = true.
Proof. exact forks_ok. Qed.
Print Assumptions fork_heights_as_modelled.

(* ---------------- non-vacuity ---------------- *)

(* an input outside the defect branches, with amounts that do not wrap: success *)
Example op_etx_partial_nonvacuous :
  etx_amount_wraps (wit_ctx wit_post 2 []) 12345 21000 1 2 = false /\
  etx_defect (wit_ctx wit_post 2 []) wit_self e21 7 true wit_to 12345 21000 1 2 0 = false /\
  op_etx (wit_ctx wit_post 2 []) wit_self e21 7 true wit_to 12345 21000 1 2 0
  = mkRes 75345 (Some 1) (Some (mkEtx wit_to wit_self 12345 7 EtxDefaultType 21000)).
Proof. vm_compute. auto. Qed.

(* and a pre-fork one *)
Example op_etx_partial_prefork_nonvacuous :
  etx_amount_wraps (wit_ctx wit_pre 2 []) 12345 21000 1 2 = false /\
  etx_defect (wit_ctx wit_pre 2 []) wit_self e21 0 true wit_to 12345 21000 1 2 0 = false /\
  r_push (op_etx (wit_ctx wit_pre 2 []) wit_self e21 0 true wit_to 12345 21000 1 2 0) = Some 1.
Proof. vm_compute. auto. Qed.

Example op_convert_partial_nonvacuous :
  convert_amount_wraps (wit_ctx wit_post 0 []) MinQuaiConversionAmount 21000 = false /\
  convert_defect (wit_ctx wit_post 0 []) wit_self e21 0 wit_qi MinQuaiConversionAmount 21000 = false /\
  op_convert (wit_ctx wit_post 0 []) wit_self e21 0 wit_qi MinQuaiConversionAmount 21000
  = mkRes (MinQuaiConversionAmount + 21000000000000) (Some 1)
          (Some (mkEtx wit_qi wit_self MinQuaiConversionAmount 0 EtxConversionType 21000)).
Proof. vm_compute. auto. Qed.

Example unwrap_qi_nonvacuous :
  call_unwrap (wit_ctx wit_post 0 []) wit_self 100000 5000 [] wit_qi 1200 30000
  = (true, 70000, 3800, [mkEtx wit_qi wit_self 1200 0 EtxUnwrapQiType 30000]) /\
  (let res := call_unwrap (wit_ctx wit_post 0 []) wit_self 100000 5000 (prefilled 65536) wit_qi 1200 30000 in
   fst (fst (fst res)) = false /\ snd (fst res) = 5000 /\ lenN (snd res) = 65536).
Proof. vm_compute. repeat split; reflexivity. Qed.

(* top-level call to a foreign address: one ETX, debit = value, gas forwarded *)
Example create_etx_call_nonvacuous :
  let r := call 3 (wit_ctx wit_post 2 []) (FK CkCall) false 0 wit_origin wit_to 50000 1000 wit_world in
  c_err r = 0 /\ w_etxs (c_world r) = [mkEtx wit_to wit_origin 1000 0 EtxDefaultType 29000] /\
  getb wit_origin (w_bal (c_world r)) = e21 - 1000.
Proof. vm_compute. auto. Qed.

(* ... and to an ineligible one: the debit is reverted by Call *)
Example create_etx_call_failure_nonvacuous :
  let r := call 3 (wit_ctx wit_post 0 []) (FK CkCall) false 0 wit_origin wit_to 50000 1000 wit_world in
  c_err r = 2 /\ c_world r = wit_world.
Proof. vm_compute. auto. Qed.

(* F2 with an empty stack below: the POP after the ETX underflows, the frame faults, nothing is left *)
Example failed_call_nonvacuous :
  let r := call 5 (wit_ctx wit_post 0 [(wit_self, wit_prog_inelig false)]) (FK CkCall) false 0 wit_origin wit_self 10000000 0 wit_world in
  c_err r = 2 /\ c_world r = wit_world /\
  c_tr r = [EvOp 0 (mkRes 75345 None None)].
Proof. vm_compute. auto. Qed.

(* F2 with one word below: the POP eats it, the transaction succeeds and 75345 has vanished *)
Example no_status_word_loss_nonvacuous :
  let r := call 5 (wit_ctx wit_post 0 [(wit_self, wit_prog_inelig true)]) (FK CkCall) false 0 wit_origin wit_self 10000000 0 wit_world in
  c_err r = 0 /\ w_etxs (c_world r) = [] /\ sumb (w_bal (c_world r)) + 75345 = sumb (w_bal wit_world).
Proof. exact tx_loss_witness_no_status. Qed.

(* nested frames: parent sends, child sends and reverts, parent sends again: indices 0,1 *)
Example outbound_set_nonvacuous :
  let send := [IPush 0; IPush 0; IPush 0; IPush 0; IPush 2; IPush 1; IPush 21000; IPush 12345; IPush wit_to; IPush 0; IEtx false; IPop] in
  let child := 0x0003b2b2b2b2b2b2b2b2b2b2b2b2b2b2b2b2b2b2 in
  let parent := send ++ [IPush 0; IPush 0; IPush 0; IPush 0; IPush 0; IPush child; IPush 500000; ICallK CkCall; IPop] ++ send ++ [IStop] in
  let c := wit_ctx wit_post 2 [(wit_self, parent); (child, send ++ [IPush 0; IPush 0; IRevert])] in
  let w := mkW [(wit_origin, e21); (wit_self, e21); (child, e21)] [] in
  let r := call 6 c (FK CkCall) false 0 wit_origin wit_self 10000000 0 w in
  c_err r = 0 /\
  map e_index (w_etxs (c_world r)) = [0; 1] /\ map e_sender (w_etxs (c_world r)) = [wit_self; wit_self] /\
  getb child (w_bal (c_world r)) = e21 /\ getb wit_self (w_bal (c_world r)) = e21 - 2 * 75345 /\
  emitted_all (c_tr r) = w_etxs (c_world r).
Proof. vm_compute. repeat split; reflexivity. Qed.

(* the same through CALLCODE and DELEGATECALL: the child's code runs as the parent, so the child's send is the
   PARENT's send (sender and debit); it disappears together with its debit when the child frame reverts *)
Definition ex_send : list instr :=
  [IPush 0; IPush 0; IPush 0; IPush 0; IPush 2; IPush 1; IPush 21000; IPush 12345; IPush wit_to; IPush 0; IEtx false; IPop].
Definition ex_child : N := 0x0003b2b2b2b2b2b2b2b2b2b2b2b2b2b2b2b2b2b2.
Definition ex_callk (k : ckind) : list instr :=
  [IPush 0; IPush 0; IPush 0; IPush 0] ++ (match k with CkCall | CkCallCode => [IPush 0] | _ => [] end) ++
  [IPush ex_child; IPush 500000; ICallK k; IPop].
Definition ex_run (k : ckind) (child_end : list instr) : cres :=
  let parent := ex_send ++ ex_callk k ++ ex_send ++ [IStop] in
  let c := wit_ctx wit_post 2 [(wit_self, parent); (ex_child, ex_send ++ child_end)] in
  call 6 c (FK CkCall) false 0 wit_origin wit_self 10000000 0 (mkW [(wit_origin, e21); (wit_self, e21); (ex_child, e21)] []).

Example outbound_set_reverted_callcode_delegatecall_nonvacuous :
  forall k, k = CkCallCode \/ k = CkDelegate ->
  let r := ex_run k [IPush 0; IPush 0; IRevert] in
  c_err r = 0 /\
  map e_index (w_etxs (c_world r)) = [0; 1] /\ map e_sender (w_etxs (c_world r)) = [wit_self; wit_self] /\
  getb ex_child (w_bal (c_world r)) = e21 /\ getb wit_self (w_bal (c_world r)) = e21 - 2 * 75345 /\
  emitted_all (c_tr r) = w_etxs (c_world r).
Proof. intros k [H|H]; subst k; vm_compute; repeat split; reflexivity. Qed.

Example outbound_set_successful_callcode_delegatecall_nonvacuous :
  forall k, k = CkCallCode \/ k = CkDelegate ->
  let r := ex_run k [IStop] in
  c_err r = 0 /\
  map e_index (w_etxs (c_world r)) = [0; 1; 2] /\ map e_sender (w_etxs (c_world r)) = [wit_self; wit_self; wit_self] /\
  getb ex_child (w_bal (c_world r)) = e21 /\ getb wit_self (w_bal (c_world r)) = e21 - 3 * 75345.
Proof. intros k [H|H]; subst k; vm_compute; repeat split; reflexivity. Qed.

(* through CALL the child is its own sender *)
Example outbound_set_successful_call_nonvacuous :
  let r := ex_run CkCall [IStop] in
  c_err r = 0 /\ map e_sender (w_etxs (c_world r)) = [wit_self; ex_child; wit_self] /\
  getb ex_child (w_bal (c_world r)) = e21 - 75345 /\ getb wit_self (w_bal (c_world r)) = e21 - 2 * 75345.
Proof. vm_compute. repeat split; reflexivity. Qed.

(* through STATICCALL the child's ETX is write-protected: the child faults, the parent's two sends remain *)
Example static_frame_nonvacuous :
  let r := ex_run CkStatic [IStop] in
  c_err r = 0 /\ map e_index (w_etxs (c_world r)) = [0; 1] /\ map e_sender (w_etxs (c_world r)) = [wit_self; wit_self] /\
  c_tr r = [EvOp 0 (mkRes 75345 (Some 1) (Some (mkEtx wit_to wit_self 12345 0 EtxDefaultType 21000)));
            EvCall false [];
            EvOp 0 (mkRes 75345 (Some 1) (Some (mkEtx wit_to wit_self 12345 1 EtxDefaultType 21000)))].
Proof. vm_compute. repeat split; reflexivity. Qed.

(* a constructor (CREATE / CREATE2) sends from the new account, out of its endowment; if it reverts, the
   endowment, the debit and the ETX are all undone and the parent's next send takes index 0 *)
Definition ex_new : N := 0x0009c9c9c9c9c9c9c9c9c9c9c9c9c9c9c9c9c9c9.
Definition ex_create_run (two : bool) (ctor_end : list instr) : cres :=
  let parent := (if two then [IPush 7] else []) ++
                [IPush 0; IPush 0; IPush 100000; ICreate two (ex_send ++ ctor_end) ex_new 0; IPop] ++ ex_send ++ [IStop] in
  let c := wit_ctx wit_post 2 [(wit_self, parent)] in
  call 6 c (FK CkCall) false 0 wit_origin wit_self 10000000 0 (mkW [(wit_origin, e21); (wit_self, e21)] []).

Example constructor_send_nonvacuous : forall two,
  let r := ex_create_run two [IStop] in
  c_err r = 0 /\ map e_index (w_etxs (c_world r)) = [0; 1] /\ map e_sender (w_etxs (c_world r)) = [ex_new; wit_self] /\
  getb ex_new (w_bal (c_world r)) = 100000 - 75345 /\ getb wit_self (w_bal (c_world r)) = e21 - 100000 - 75345.
Proof. intros [|]; vm_compute; repeat split; reflexivity. Qed.

Example constructor_revert_nonvacuous : forall two,
  let r := ex_create_run two [IPush 0; IPush 0; IRevert] in
  c_err r = 0 /\ map e_index (w_etxs (c_world r)) = [0] /\ map e_sender (w_etxs (c_world r)) = [wit_self] /\
  getb ex_new (w_bal (c_world r)) = 0 /\ getb wit_self (w_bal (c_world r)) = e21 - 75345.
Proof. intros [|]; vm_compute; repeat split; reflexivity. Qed.

(* a constructor that returns code it CAN pay for: the deposit is charged (CreateDataGas per byte) and everything stays *)
Example constructor_code_deposit_nonvacuous :
  let ctor := ex_send ++ [IPush 100; IPush 0; IReturn] in
  let r := call 5 (wit_ctx wit_post 2 []) (FCreate ctor ex_new 0) false 0 wit_self 0 2000000 1000000 wit_world in
  let r0 := call 5 (wit_ctx wit_post 2 []) (FCreate (ex_send ++ [IStop]) ex_new 0) false 0 wit_self 0 2000000 1000000 wit_world in
  c_err r = 0 /\ map e_sender (w_etxs (c_world r)) = [ex_new] /\ c_gas r0 - c_gas r = 100 * CreateDataGas + 3 + 3 + 12.
Proof. vm_compute. repeat split; reflexivity. Qed.

(* ... and one whose code exceeds the size limit: reverted like any other failure *)
Example constructor_code_too_large_nonvacuous :
  let ctor := ex_send ++ [IPush (MaxCodeSize + 1); IPush 0; IReturn] in
  let r := call 5 (wit_ctx wit_post 2 []) (FCreate ctor ex_new 0) false 0 wit_self 0 20000000 1000000 wit_world in
  c_err r = 2 /\ c_world r = wit_world /\ c_gas r = 0.
Proof. vm_compute. repeat split; reflexivity. Qed.

(* ---------------- the per-transaction outbound record and the block's outbound list ----------------
   (core/state_transition.go:TransitionDb -- the dump of EVM.ETXCache into ExecutionResult.Etxs;
    core/state_processor.go:applyTransaction -- receipt.OutboundEtxs; StateProcessor.Process -- ONE EVM per
    block, emittedEtxs = the receipts' outbound sets appended in order)
   "The outbound set committed by a block is exactly the set recorded by its successful, non-reverted
    operations, in execution order."  A transaction is (succeeded, what its execution appended to the cache);
   [tx_sent t] = what it sent = that list if it succeeded, nothing otherwise. *)

(* every receipt records exactly what its own transaction sent -- nothing of an earlier transaction (the
   cache is empty again after every hand-over), nothing for a failed one *)
Theorem receipts_record_their_own_transaction : forall txs, fst (process [] txs) = map tx_sent txs.
Proof. exact process_receipts. Qed.
Print Assumptions receipts_record_their_own_transaction.

(* the block's outbound list is the concatenation, in execution order, of the receipts' outbound sets = of what
   the successful transactions sent *)
Theorem block_outbound_is_concatenation : forall txs,
  snd (process [] txs) = List.concat (fst (process [] txs)) /\
  snd (process [] txs) = List.concat (map tx_sent txs).
Proof. exact process_block_concat. Qed.
Print Assumptions block_outbound_is_concatenation.

(* validator (one EVM per block, StateProcessor.Process) and worker (one EVM per transaction,
   core.ApplyTransaction) compute the same receipts and the same outbound list *)
Theorem shared_evm_equals_fresh_evm : forall txs, process [] txs = process_fresh txs.
Proof. exact process_shared_fresh. Qed.
Print Assumptions shared_evm_equals_fresh_evm.

(* RETENTION, at the level of Go slices (Lib/C05_Slice.v: backing arrays, append in place while there is capacity,
   re-slicing by revertToSnapshot; any growth policy): with TransitionDb's make + copy, what every receipt's
   OutboundEtxs reads AFTER THE LAST transaction of the block -- all of them executed on the one shared cache,
   appending to and re-slicing it at will -- is what its transaction sent, and the list accumulated along the way
   is the value-level one *)
Theorem recorded_outbound_is_retained : forall grow txs hf rs bl,
  hprocess grow true [[]] (mkSl 0 0) txs = (hf, rs, bl) ->
  map (read_receipt hf) rs = fst (process [] (map abs_tx txs)) /\
  bl = snd (process [] (map abs_tx txs)).
Proof. exact hprocess_copy_retains. Qed.
Print Assumptions recorded_outbound_is_retained.

(* ... and it rests on that copy: handing out the cache slice itself and re-slicing it to [:0] (the blind change
   seeded/C05_3) makes the receipt of the first of two sending transactions read the second one's ETX,
   although the block's list -- copied out in time -- is still right *)
Theorem handover_without_copy_refuted : exists grow txs,
  match hprocess grow false [[]] (mkSl 0 0) txs with
  | (hf, rs, bl) => map (read_receipt hf) rs <> fst (process [] (map abs_tx txs))
  end.
Proof. exact hprocess_alias_refuted. Qed.
Print Assumptions handover_without_copy_refuted.

(* end to end over the EVM model: a block of top-level message calls, each run on the world its predecessor
   left with the cache reset: receipt i = the ETXs recorded by the operations of non-reverted frames of
   transaction i if it succeeded (nothing otherwise), the block's list is their concatenation, and the indices
   restart at 0 in every receipt (positions are indices) *)
Theorem block_of_calls_commits_successful_ops : forall fuel c txs w, w_etxs w = [] ->
  fst (process_calls fuel c txs w) = block_sent fuel c txs w /\
  snd (process_calls fuel c txs w) = List.concat (block_sent fuel c txs w) /\
  Forall indices_ok (fst (process_calls fuel c txs w)).
Proof. exact process_calls_spec. Qed.
Print Assumptions block_of_calls_commits_successful_ops.

(* side condition on generated data: the statements of TransitionDb / applyTransaction / EVM.Reset that touch the
   cache and the outbound record are the ones the hand-over model was written against (make + copy, new cache) *)
Theorem handover_source_as_modelled : handover_as_modelled = true.
Proof. exact handover_ok. Qed.
Print Assumptions handover_source_as_modelled.

Example block_outbound_nonvacuous :
  let e1 := mkEtx 1 10 1111 0 0 21000 in let e2 := mkEtx 2 20 2222 0 0 21000 in let e3 := mkEtx 3 20 5 1 0 21000 in
  process [] [(true, [e1]); (false, []); (true, [e2; e3])] = ([[e1]; []; [e2; e3]], [e1; e2; e3]).
Proof. vm_compute. reflexivity. Qed.

(* three transactions on one cache at slice level: 3 ETXs (one of them in a frame that is reverted), then 1, then 2:
   with the copy every receipt still reads its own ETXs at the end; without it the first two read the third's *)
Example retention_nonvacuous :
  let e := fun i => mkEtx i 10 (100 + i) 0 0 21000 in
  let txs := [(true, [CPush (e 1); CPush (e 9); CTrunc 1; CPush (e 2); CPush (e 3)]); (true, [CPush (e 4)]); (true, [CPush (e 5); CPush (e 6)])] in
  (match hprocess (fun n => n) true [[]] (mkSl 0 0) txs with
   | (hf, rs, bl) => map (read_receipt hf) rs = [[e 1; e 2; e 3]; [e 4]; [e 5; e 6]] /\ bl = [e 1; e 2; e 3; e 4; e 5; e 6] end) /\
  (match hprocess (fun n => n) false [[]] (mkSl 0 0) txs with
   | (hf, rs, bl) => map (read_receipt hf) rs = [[e 5; e 6; e 3]; [e 5]; [e 5; e 6]] /\ bl = [e 1; e 2; e 3; e 4; e 5; e 6] end).
Proof. vm_compute. repeat split; reflexivity. Qed.

(* a block of two model transactions, each calling the sending contract of the examples above: indices restart *)
Example block_of_calls_nonvacuous :
  let c := wit_ctx wit_post 2 [(wit_self, ex_send ++ [IStop])] in
  let t := mkMtx wit_origin wit_self 1000000 0 in
  let rs := fst (process_calls 5 c [t; t] (mkW [(wit_origin, e21); (wit_self, e21)] [])) in
  map (map e_index) rs = [[0]; [0]] /\ map (map e_sender) rs = [[wit_self]; [wit_self]].
Proof. vm_compute. repeat split; reflexivity. Qed.


(* ---------------- claim of a locked coinbase (core/vm/contracts.go:ClaimCoinbaseLockup under core/vm/evm.go:Call) ----------------
   [claim_aon owner gas led etxs miner to lb epoch gl res] (Proofs/C05_Claim.v):
     success: the record under (owner, miner, lb, epoch) is consumed and nothing else of the ledger changes, the ETX gas limit
              is deducted from the gas, exactly one ETX of type CoinbaseLockup carrying the record's balance from the owner to [to]
              is recorded under the fresh index len(etxs), one undo entry (key, record) is recorded
     failure: ledger, outbound list and undo records are unchanged.
   FULL STATEMENT (refuted on the code as it is):
     forall c height owner gas led etxs miner to lb epoch gl,
       claim_aon owner gas led etxs miner to lb epoch gl (call_claim c height owner gas led etxs miner to lb epoch gl).
   rawdb.DeleteCoinbaseLockup(evm.Batch, ...) precedes the "index > MaxUint16" check and evm.revertToSnapshot does not
   restore evm.Batch. *)
Theorem send_all_or_nothing_claim_call_refuted :
  exists c height owner gas led etxs miner to lb epoch gl,
    ~ claim_aon owner gas led etxs miner to lb epoch gl (call_claim c height owner gas led etxs miner to lb epoch gl).
Proof. exact claim_aon_refuted. Qed.
Print Assumptions send_all_or_nothing_claim_call_refuted.

(* the violating inputs, exactly: every due claim made with more than 65535 cached ETXs, in EVERY fork regime, reports failure,
   the record is gone, no ETX and no undo entry exist *)
Theorem claim_index_overflow_destroys_the_lockup : forall c height owner gas led etxs miner to lb epoch gl,
  claim_due c height owner gas led miner to lb epoch gl = true -> MaxUint16 < lenN etxs ->
  let res := call_claim c height owner gas led etxs miner to lb epoch gl in
  fst (fst (fst (fst res))) = false /\
  lget (owner, miner, lb, epoch) led <> None /\ lget (owner, miner, lb, epoch) (snd (fst (fst res))) = None /\
  snd (fst res) = etxs /\ snd res = [].
Proof. exact claim_index_overflow_destroys_lockup. Qed.
Print Assumptions claim_index_overflow_destroys_the_lockup.

(* PARTIAL: the full statement for every input with at most 65535 cached ETXs (all fork regimes, all ledgers, all requests);
   missing from the full statement: exactly the inputs of the previous theorem *)
Theorem send_all_or_nothing_claim_call_partial : forall c height owner gas led etxs miner to lb epoch gl,
  lenN etxs <= MaxUint16 ->
  claim_aon owner gas led etxs miner to lb epoch gl (call_claim c height owner gas led etxs miner to lb epoch gl).
Proof. exact claim_call_aon_partial. Qed.
Print Assumptions send_all_or_nothing_claim_call_partial.

(* closed form of the claim under Call for ALL inputs: due (guards in source order) and room in the cache => the success
   tuple; due and no room => record deleted, failure; not due => failure, nothing changed *)
Theorem claim_call_closed_form : forall c height owner gas led etxs miner to lb epoch gl,
  let res := call_claim c height owner gas led etxs miner to lb epoch gl in
  if claim_due c height owner gas led miner to lb epoch gl then
    exists r, lget (owner, miner, lb, epoch) led = Some r /\
    if MaxUint16 <? lenN etxs
    then res = (false, gas - gl, ldel (owner, miner, lb, epoch) led, etxs, [])
    else res = (true, gas - gl, ldel (owner, miner, lb, epoch) led,
                etxs ++ [mkEtx to owner (l_bal r) (lenN etxs) EtxCoinbaseLockupType gl], [((owner, miner, lb, epoch), r)])
  else fst (fst (fst (fst res))) = false /\ snd (fst (fst res)) = led /\ snd (fst res) = etxs /\ snd res = [].
Proof. exact call_claim_spec. Qed.
Print Assumptions claim_call_closed_form.

Theorem claim_records_iff_reports_success : forall c height owner gas led etxs miner to lb epoch gl,
  let res := call_claim c height owner gas led etxs miner to lb epoch gl in
  (fst (fst (fst (fst res))) = true -> exists e, snd (fst res) = etxs ++ [e]) /\
  (fst (fst (fst (fst res))) = false -> snd (fst res) = etxs).
Proof. exact claim_records_iff_success. Qed.
Print Assumptions claim_records_iff_reports_success.

Theorem claim_changes_no_other_record : forall c height owner gas led etxs miner to lb epoch gl k',
  k' <> (owner, miner, lb, epoch) ->
  lget k' (snd (fst (fst (call_claim c height owner gas led etxs miner to lb epoch gl)))) = lget k' led.
Proof. exact claim_touches_only_its_key. Qed.
Print Assumptions claim_changes_no_other_record.

(* a locked balance leaves the chain at most once: after a paying claim, the same key pays nothing on the ledger it left,
   whatever the later context, gas, destination or cache *)
Theorem locked_coinbase_is_claimed_at_most_once : forall c c2 height height2 owner gas gas2 led etxs etxs2 miner to to2 lb epoch gl gl2,
  let res := call_claim c height owner gas led etxs miner to lb epoch gl in
  fst (fst (fst (fst res))) = true ->
  let res2 := call_claim c2 height2 owner gas2 (snd (fst (fst res))) etxs2 miner to2 lb epoch gl2 in
  fst (fst (fst (fst res2))) = false /\ snd (fst res2) = etxs2 /\ snd (fst (fst res2)) = snd (fst (fst res)).
Proof. exact claim_twice_pays_once. Qed.
Print Assumptions locked_coinbase_is_claimed_at_most_once.

(* side condition on generated data: RunLockupContract's dispatch order; in ClaimCoinbaseLockup the address checks, the read of
   the record, the deletion, THEN the index check, the append and the undo entry; epoch length and ETX type constants *)
Theorem lockup_source_as_modelled : lockup_as_modelled = true.
Proof. exact lockup_ok. Qed.
Print Assumptions lockup_source_as_modelled.

Example claim_nonvacuous :
  let c := wit_ctx (SelfDestructRefundForkBlock + 5) 0 [] in
  claim_due c 200000 wit_self 100000 wit_ledger wit_miner wit_claim_to 1 2 30000 = true /\
  call_claim c 200000 wit_self 100000 wit_ledger (prefilled 2) wit_miner wit_claim_to 1 2 30000 =
  (true, 70000, [], prefilled 2 ++ [mkEtx wit_claim_to wit_self 7000 2 EtxCoinbaseLockupType 30000], [((wit_self, wit_miner, 1, 2), mkLRec 7000 100000 3)]) /\
  (* one block before the tranche unlocks: nothing happens *)
  call_claim c 99999 wit_self 100000 wit_ledger [] wit_miner wit_claim_to 1 2 30000 = (false, 70000, wit_ledger, [], []) /\
  (* the overflow case of the refutation *)
  (let res := call_claim c 200000 wit_self 100000 wit_ledger (prefilled 65536) wit_miner wit_claim_to 1 2 30000 in
   fst (fst (fst (fst res))) = false /\ snd (fst (fst res)) = [] /\ lenN (snd (fst res)) = 65536 /\ snd res = []).
Proof. vm_compute. repeat split; reflexivity. Qed.

(* C17 — All storage backends are interchangeable.
   Property theorems only: each is closed by [exact <lemma>] and followed by
   [Print Assumptions].  Model: Model/C17.v  Lemmas: Proofs/C17.v *)
From Coq Require Import List NArith Bool.
From GQ Require Import Lib.Key Lib.SMap Model.C17 Proofs.C17 Model.C17_Table Proofs.C17_Table Model.C17_All.
Import ListNotations.
Local Open Scope N_scope.

(* Every reachable state (any history from the empty store) keeps the store and both
   pending views strictly sorted by key: the precondition of everything below. *)
Theorem kv_reachable_inv : forall h, Inv (run_state init h).
Proof. intros h. exact (run_state_inv h init init_inv). Qed.
Print Assumptions kv_reachable_inv.

(* Reads see the latest committed write: Put/Delete/Get/Has refine a total map. *)
Theorem kv_put_refines_map : forall s k v, Inv s ->
  let '(s', r) := step s (DbPut k v) in
  r = ONone /\ (forall k0, abs s' k0 = fupd (abs s) k (Some v) k0) /\ s_b0 s' = s_b0 s /\ s_b1 s' = s_b1 s.
Proof. exact db_put_refines. Qed.
Print Assumptions kv_put_refines_map.

Theorem kv_del_refines_map : forall s k, Inv s ->
  let '(s', r) := step s (DbDel k) in
  r = ONone /\ (forall k0, abs s' k0 = fupd (abs s) k None k0) /\ s_b0 s' = s_b0 s /\ s_b1 s' = s_b1 s.
Proof. exact db_del_refines. Qed.
Print Assumptions kv_del_refines_map.

Theorem kv_get_refines_map : forall s k, step s (DbGet k) = (s, OVal (abs s k)).
Proof. exact db_get_refines. Qed.
Print Assumptions kv_get_refines_map.

Theorem kv_has_refines_map : forall s k,
  step s (DbHas k) = (s, OBool (match abs s k with Some _ => true | None => false end)).
Proof. exact db_has_refines. Qed.
Print Assumptions kv_has_refines_map.

(* Iteration: ascending byte order over exactly the live keys with the prefix, from prefix++start. *)
Theorem iterate_sorted_exact : forall s p st, Inv s ->
  exists l, step s (DbIter p st) = (s, OList l) /\ sorted l /\
    forall k v, In (k, v) l <-> (abs s k = Some v /\ in_range p st k = true).
Proof. exact db_iter_refines. Qed.
Print Assumptions iterate_sorted_exact.

(* A batch applies all of its operations in issue order (Write) or none (everything else). *)
Theorem batch_atomic_in_order : forall s b, Inv s ->
  forall k, abs (fst (step s (BWrite b))) k = fold_left fapply (b_ops (getb s b)) (abs s) k.
Proof. exact write_atomic_in_order. Qed.
Print Assumptions batch_atomic_in_order.

Theorem batch_isolated_until_write : forall s o, touches_db o = false -> s_db (fst (step s o)) = s_db s.
Proof. exact batch_ops_isolated. Qed.
Print Assumptions batch_isolated_until_write.

Theorem reads_are_pure : forall s o, is_read o = true -> fst (step s o) = s.
Proof. exact read_pure. Qed.
Print Assumptions reads_are_pure.

(* A batch with pending tracking enabled reports its own uncommitted puts and deletes:
   after SetPending(true) and any sequence ws of puts/deletes, GetPending k is the last
   operation of ws on k. *)
Theorem pending_reads_own_writes : forall x ws k,
  let x1 := mkBatch (b_ops x) (b_size x) true [] in
  batch_get_pending (batch_run x1 ws) k =
  match last_on k ws None with
  | Some None => OPend true None
  | Some (Some v) => OPend false (Some v)
  | None => OPend false None
  end.
Proof. exact pending_after_set. Qed.
Print Assumptions pending_reads_own_writes.

Theorem pending_sees_put : forall s b k v, b_tracking (getb s b) = true ->
  snd (step (fst (step s (BPut b k v))) (BGetPending b k)) = OPend false (Some v).
Proof. exact pending_reads_put. Qed.
Print Assumptions pending_sees_put.

Theorem pending_sees_delete : forall s b k, b_tracking (getb s b) = true ->
  snd (step (fst (step s (BDel b k))) (BGetPending b k)) = OPend true None.
Proof. exact pending_reads_del. Qed.
Print Assumptions pending_sees_delete.

Theorem batch_driven_only_by_its_ops : forall s o b,
  let x := getb s b in let x' := getb (fst (step s o)) b in
  x' = x \/ (exists ws, x' = batch_run x ws)
  \/ (exists f, x' = mkBatch (b_ops x) (b_size x) f []) \/ x' = empty_batch.
Proof. exact step_batch_shape. Qed.
Print Assumptions batch_driven_only_by_its_ops.

(* Reset and replay reproduce the same effects. *)
Theorem replay_equals_write : forall s b,
  s_db (fst (step s (BReplayDb b))) = s_db (fst (step s (BWrite b))).
Proof. exact replay_same_as_write. Qed.
Print Assumptions replay_equals_write.

Theorem reset_forgets_everything : forall s b,
  let s1 := fst (step s (BReset b)) in s_db (fst (step s1 (BWrite b))) = s_db s.
Proof. exact reset_then_write_noop. Qed.
Print Assumptions reset_forgets_everything.

Theorem replay_into_batch_appends : forall s b,
  let s1 := fst (step s (BReplayB b)) in
  b_ops (getb s1 (negb b)) = b_ops (getb s (negb b)) ++ b_ops (getb s b)
  /\ getb s1 b = getb s b /\ s_db s1 = s_db s.
Proof. exact replay_into_batch. Qed.
Print Assumptions replay_into_batch_appends.

(* An open iterator is a snapshot: it yields the store as it was at NewIterator, whatever is written
   meanwhile, and those writes take effect normally. Compaction is invisible. *)
Theorem iterator_snapshot : forall s p st ws,
  snd (step s (DbIterDuring p st ws)) = snd (step s (DbIter p st))
  /\ s_db (fst (step s (DbIterDuring p st ws))) = apply_ops ws (s_db s)
  /\ s_b0 (fst (step s (DbIterDuring p st ws))) = s_b0 s /\ s_b1 (fst (step s (DbIterDuring p st ws))) = s_b1 s.
Proof. exact iterator_is_snapshot. Qed.
Print Assumptions iterator_snapshot.

Theorem compaction_invisible : forall s, step s DbCompact = (s, ONone).
Proof. exact compact_is_invisible. Qed.
Print Assumptions compaction_invisible.

(* Consequently: two backends whose observations match the model on a history match each other. *)
Theorem chain_state_backend_independent : forall h o1 o2,
  outs_eqb (run init h) o1 = true -> outs_eqb (run init h) o2 = true -> outs_eqb o1 o2 = true.
Proof. exact backends_agree. Qed.
Print Assumptions chain_state_backend_independent.

(* non-vacuity: a concrete history with a tracked delete, a shadowing put and an iteration *)
Example kv_nonvacuous :
  run init [DbPut [1;2] [9]; DbPut [1;3] [8]; BSetPending false true; BDel false [1;2];
            BPut false [1;4] [7]; BGetPending false [1;2]; BGetPending false [1;4]; BGetPending false [5];
            DbGet [1;2]; BWrite false; DbGet [1;2]; DbIter [1] [3]]
  = [ONone; ONone; ONone; ONone; ONone; OPend true None; OPend false (Some [7]); OPend false None;
     OVal (Some [9]); ONone; OVal None; OList [([1;3],[8]); ([1;4],[7])]].
Proof. vm_compute. reflexivity. Qed.

(* ------------------------------------------------------------------------------------------
   The rawdb table wrapper (core/rawdb/table.go) as a layer over the store model.
   tstep tp = what table / tableBatch / tableReplayer / tableIterator with prefix tp do to the INNER
   database and batches; tview tp m = the entries of m under the prefix, keys stripped. *)

(* For every history (without the sizing heuristic ValueSize) and every pre-existing content of the
   inner database, the table answers exactly like an independent store holding the view. *)
Theorem table_refines_store : forall tp db0 h, sorted db0 -> no_size h = true ->
  trun tp (fresh db0) h = run (fresh (tview tp db0)) h.
Proof. exact table_refines. Qed.
Print Assumptions table_refines_store.

(* Over a database that holds only foreign keys the table is a fresh store. *)
Theorem table_over_foreign_keys_is_fresh : forall tp db0 h, sorted db0 ->
  (forall k v, In (k, v) db0 -> has_prefix tp k = false) -> no_size h = true ->
  trun tp (fresh db0) h = run init h.
Proof. exact table_over_foreign. Qed.
Print Assumptions table_over_foreign_keys_is_fresh.

(* Frame: no history through the table (ValueSize included) reads or changes a key outside the prefix. *)
Theorem table_never_touches_foreign_keys : forall tp db0 h k0, sorted db0 -> has_prefix tp k0 = false ->
  get k0 (s_db (trun_state tp (fresh db0) h)) = get k0 db0.
Proof. exact table_frame. Qed.
Print Assumptions table_never_touches_foreign_keys.

(* The inner database always holds, under the prefix, exactly the content of the store the table pretends to be. *)
Theorem table_inner_content : forall tp db0 h, sorted db0 ->
  s_db (run_state (fresh (tview tp db0)) h) = tview tp (s_db (trun_state tp (fresh db0) h))
  /\ sorted (s_db (trun_state tp (fresh db0) h)).
Proof. exact table_inner. Qed.
Print Assumptions table_inner_content.

(* One operation: same answer, relation kept, foreign keys untouched (the simulation step). *)
Theorem table_step_simulation : forall tp i t o, Inv i -> R tp i t ->
  (is_size o = false -> snd (tstep tp i o) = snd (step t o)) /\
  R tp (fst (tstep tp i o)) (fst (step t o)) /\
  (forall k0, has_prefix tp k0 = false -> get k0 (s_db (fst (tstep tp i o))) = get k0 (s_db i)).
Proof. exact tstep_refines. Qed.
Print Assumptions table_step_simulation.

(* Reads through the table: exactly the prefixed cell; iteration: exactly the view's iteration. *)
Theorem table_get_reads_prefixed_cell : forall tp k (m : smap val), sorted m ->
  get k (tview tp m) = get (tp ++ k) m.
Proof. intros tp k m. exact (get_tview tp k m). Qed.
Print Assumptions table_get_reads_prefixed_cell.

Theorem table_iterator_exact : forall tp p st (m : smap val),
  strip_kvs tp (iterate (tp ++ p) st m) = iterate p st (tview tp m).
Proof. intros tp p st m. exact (tview_iterate tp p st m). Qed.
Print Assumptions table_iterator_exact.

(* A table inside a table is a table with the concatenated prefix. *)
Theorem table_nested : forall p q (m : smap val), tview q (tview p m) = tview (p ++ q) m.
Proof. intros p q m. exact (tview_nested p q m). Qed.
Print Assumptions table_nested.

(* ValueSize is not transparent (a delete is sized with the prefixed key): it is outside the contract,
   which is why the refinement excludes it and the harness never compares it. *)
Theorem table_valuesize_not_transparent_refuted :
  trun [116; 98; 108] (fresh []) [BDel false [1]; BSize false] <> run init [BDel false [1]; BSize false].
Proof. exact table_valuesize_counts_prefix. Qed.
Print Assumptions table_valuesize_not_transparent_refuted.

(* non-vacuity: a table "tbl" over a store holding foreign keys around the prefix *)
Example table_nonvacuous :
  let tp := [116; 98; 108] in
  let db0 := preload [([116], [1]); ([116; 98; 107], [2]); ([116; 98; 109], [3]); ([117], [4])] in
  sortedb db0 = true /\
  trun tp (fresh db0) [DbPut [1] [9]; BSetPending false true; BPut false [2] [8]; BGetPending false [2];
                       BWrite false; DbIter [] []; BReplayDb false; DbGet [2]]
  = [ONone; ONone; ONone; OPend false (Some [8]); ONone; OList [([1], [9]); ([2], [8])]; ONone; OVal (Some [8])]
  /\ map fst (s_db (trun_state tp (fresh db0) [DbPut [1] [9]; BPut false [2] [8]; BWrite false]))
  = [[116]; [116; 98; 107]; [116; 98; 108; 1]; [116; 98; 108; 2]; [116; 98; 109]; [117]].
Proof. vm_compute. repeat split; reflexivity. Qed.

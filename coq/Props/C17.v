(* C17 — All storage backends are interchangeable.
   Property theorems only: each is closed by [exact <lemma>] and followed by
   [Print Assumptions].  Model: Model/C17.v  Lemmas: Proofs/C17.v *)
From Coq Require Import List NArith Bool.
From GQ Require Import Lib.Key Lib.SMap Model.C17 Proofs.C17.
Import ListNotations.
Local Open Scope N_scope.

(* Every reachable state (any history from the empty store) keeps the store and both
   pending views strictly sorted by key: the precondition of everything below. *)
Theorem kv_reachable_inv : forall h, Inv (run_state init h).
Proof. intros h. exact (run_state_inv h init init_inv). Qed.
Print Assumptions kv_reachable_inv.

(* Reads see the latest committed write: Put/Delete/Get/Has refine a total map. *)
Theorem kv_put_refines_map : forall s k v, Inv s ->
  let '(s', r) := step s (DbPut k v) in
  r = ONone /\ (forall k0, abs s' k0 = fupd (abs s) k (Some v) k0) /\ s_b0 s' = s_b0 s /\ s_b1 s' = s_b1 s.
Proof. exact db_put_refines. Qed.
Print Assumptions kv_put_refines_map.

Theorem kv_del_refines_map : forall s k, Inv s ->
  let '(s', r) := step s (DbDel k) in
  r = ONone /\ (forall k0, abs s' k0 = fupd (abs s) k None k0) /\ s_b0 s' = s_b0 s /\ s_b1 s' = s_b1 s.
Proof. exact db_del_refines. Qed.
Print Assumptions kv_del_refines_map.

Theorem kv_get_refines_map : forall s k, step s (DbGet k) = (s, OVal (abs s k)).
Proof. exact db_get_refines. Qed.
Print Assumptions kv_get_refines_map.

Theorem kv_has_refines_map : forall s k,
  step s (DbHas k) = (s, OBool (match abs s k with Some _ => true | None => false end)).
Proof. exact db_has_refines. Qed.
Print Assumptions kv_has_refines_map.

(* Iteration: ascending byte order over exactly the live keys with the prefix, from prefix++start. *)
Theorem iterate_sorted_exact : forall s p st, Inv s ->
  exists l, step s (DbIter p st) = (s, OList l) /\ sorted l /\
    forall k v, In (k, v) l <-> (abs s k = Some v /\ in_range p st k = true).
Proof. exact db_iter_refines. Qed.
Print Assumptions iterate_sorted_exact.

(* A batch applies all of its operations in issue order (Write) or none (everything else). *)
Theorem batch_atomic_in_order : forall s b, Inv s ->
  forall k, abs (fst (step s (BWrite b))) k = fold_left fapply (b_ops (getb s b)) (abs s) k.
Proof. exact write_atomic_in_order. Qed.
Print Assumptions batch_atomic_in_order.

Theorem batch_isolated_until_write : forall s o, touches_db o = false -> s_db (fst (step s o)) = s_db s.
Proof. exact batch_ops_isolated. Qed.
Print Assumptions batch_isolated_until_write.

Theorem reads_are_pure : forall s o, is_read o = true -> fst (step s o) = s.
Proof. exact read_pure. Qed.
Print Assumptions reads_are_pure.

(* A batch with pending tracking enabled reports its own uncommitted puts and deletes:
   after SetPending(true) and any sequence ws of puts/deletes, GetPending k is the last
   operation of ws on k. *)
Theorem pending_reads_own_writes : forall x ws k,
  let x1 := mkBatch (b_ops x) (b_size x) true [] in
  batch_get_pending (batch_run x1 ws) k =
  match last_on k ws None with
  | Some None => OPend true None
  | Some (Some v) => OPend false (Some v)
  | None => OPend false None
  end.
Proof. exact pending_after_set. Qed.
Print Assumptions pending_reads_own_writes.

Theorem pending_sees_put : forall s b k v, b_tracking (getb s b) = true ->
  snd (step (fst (step s (BPut b k v))) (BGetPending b k)) = OPend false (Some v).
Proof. exact pending_reads_put. Qed.
Print Assumptions pending_sees_put.

Theorem pending_sees_delete : forall s b k, b_tracking (getb s b) = true ->
  snd (step (fst (step s (BDel b k))) (BGetPending b k)) = OPend true None.
Proof. exact pending_reads_del. Qed.
Print Assumptions pending_sees_delete.

Theorem batch_driven_only_by_its_ops : forall s o b,
  let x := getb s b in let x' := getb (fst (step s o)) b in
  x' = x \/ (exists ws, x' = batch_run x ws)
  \/ (exists f, x' = mkBatch (b_ops x) (b_size x) f []) \/ x' = empty_batch.
Proof. exact step_batch_shape. Qed.
Print Assumptions batch_driven_only_by_its_ops.

(* Reset and replay reproduce the same effects. *)
Theorem replay_equals_write : forall s b,
  s_db (fst (step s (BReplayDb b))) = s_db (fst (step s (BWrite b))).
Proof. exact replay_same_as_write. Qed.
Print Assumptions replay_equals_write.

Theorem reset_forgets_everything : forall s b,
  let s1 := fst (step s (BReset b)) in s_db (fst (step s1 (BWrite b))) = s_db s.
Proof. exact reset_then_write_noop. Qed.
Print Assumptions reset_forgets_everything.

Theorem replay_into_batch_appends : forall s b,
  let s1 := fst (step s (BReplayB b)) in
  b_ops (getb s1 (negb b)) = b_ops (getb s (negb b)) ++ b_ops (getb s b)
  /\ getb s1 b = getb s b /\ s_db s1 = s_db s.
Proof. exact replay_into_batch. Qed.
Print Assumptions replay_into_batch_appends.

(* An open iterator is a snapshot: it yields the store as it was at NewIterator, whatever is written
   meanwhile, and those writes take effect normally. Compaction is invisible. *)
Theorem iterator_snapshot : forall s p st ws,
  snd (step s (DbIterDuring p st ws)) = snd (step s (DbIter p st))
  /\ s_db (fst (step s (DbIterDuring p st ws))) = apply_ops ws (s_db s)
  /\ s_b0 (fst (step s (DbIterDuring p st ws))) = s_b0 s /\ s_b1 (fst (step s (DbIterDuring p st ws))) = s_b1 s.
Proof. exact iterator_is_snapshot. Qed.
Print Assumptions iterator_snapshot.

Theorem compaction_invisible : forall s, step s DbCompact = (s, ONone).
Proof. exact compact_is_invisible. Qed.
Print Assumptions compaction_invisible.

(* Consequently: two backends whose observations match the model on a history match each other. *)
Theorem chain_state_backend_independent : forall h o1 o2,
  outs_eqb (run init h) o1 = true -> outs_eqb (run init h) o2 = true -> outs_eqb o1 o2 = true.
Proof. exact backends_agree. Qed.
Print Assumptions chain_state_backend_independent.

(* non-vacuity: a concrete history with a tracked delete, a shadowing put and an iteration *)
Example kv_nonvacuous :
  run init [DbPut [1;2] [9]; DbPut [1;3] [8]; BSetPending false true; BDel false [1;2];
            BPut false [1;4] [7]; BGetPending false [1;2]; BGetPending false [1;4]; BGetPending false [5];
            DbGet [1;2]; BWrite false; DbGet [1;2]; DbIter [1] [3]]
  = [ONone; ONone; ONone; ONone; ONone; OPend true None; OPend false (Some [7]); OPend false None;
     OVal (Some [9]); ONone; OVal None; OList [([1;3],[8]); ([1;4],[7])]].
Proof. vm_compute. reflexivity. Qed.

(* C13 — Mining rewards and lockups pay out exactly once, no earlier, no more.
   Property theorems only.  Model: Model/C13.v   Lemmas: Proofs/C13.v, Proofs/C13_Redeem.v, Proofs/C13_Uncles.v, Proofs/C13_Reorg.v, Proofs/C13_Reward.v
   Generated data: Generated/C13Params.v (params.LockupByteToBlockDepth, multipliers, epoch length, ...). *)
From Coq Require Import List NArith ZArith Bool.
From GQ Require Import Lib.Key Lib.SMap Generated.C13Params Model.C13 Proofs.C13 Proofs.C13_Redeem Proofs.C13_Uncles Proofs.C13_Reorg Proofs.C13_Reward.
Import ListNotations.
Import C13Params.
Local Open Scope N_scope.

(* ---- obligations on the protocol parameters as they are in the source now ---- *)

(* two lock bytes with the same depth would make RedeemLockedQuai scan one block twice and credit twice *)
Theorem params_depths_pairwise_distinct : depths_nodup = true.
Proof. vm_compute. reflexivity. Qed.
Print Assumptions params_depths_pairwise_distinct.

(* every depth is positive and at least one epoch: the tranche unlock height of a Process-made lockup is never 0
   (0 is the ledger's "no tranche" marker) *)
Theorem params_depths_at_least_one_epoch : depths_ge_epoch = true.
Proof. vm_compute. reflexivity. Qed.
Print Assumptions params_depths_at_least_one_epoch.

(* Qi->Quai conversions are released by exactly one entry of the depth table *)
Theorem params_conversion_period_in_table_once : conversion_depth_once = true.
Proof. vm_compute. reflexivity. Qed.
Print Assumptions params_conversion_period_in_table_once.

Theorem params_table_covers_lock_bytes : depths_cover_lock_bytes = true.
Proof. vm_compute. reflexivity. Qed.
Print Assumptions params_table_covers_lock_bytes.

(* multipliers: terminal <= first-year, both >= 100000 (never below the plain value) *)
Theorem params_multipliers_sane : multiples_ok = true.
Proof. vm_compute. reflexivity. Qed.
Print Assumptions params_multipliers_sane.

(* ---- the lockup ledger: AddNewLock / ClaimCoinbaseLockup over any history ---- *)

(* every reachable ledger is a well-formed map whose records all carry a non-zero unlock height *)
Theorem ledger_reachable_inv : forall ops, Forall op_wf ops -> Inv (run_state [] ops).
Proof. intros ops W. exact (run_preserves_inv ops [] inv_empty W). Qed.
Print Assumptions ledger_reachable_inv.

(* rewards as Process creates them (unlock = block + depth of the lock byte, below 2^32) are well-formed adds *)
Theorem process_rewards_are_wf : forall a b lb d,
  nth_error depths lb = Some d -> a_unlock a = b + d -> b + d < two32 -> op_wf (OAdd a).
Proof. exact (process_adds_wf params_depths_at_least_one_epoch). Qed.
Print Assumptions process_rewards_are_wf.

(* one successful AddNewLock: the tranche of (owner, miner, lock byte, epoch) gains exactly the reward, keeps its
   unlock height (a new tranche gets the epoch floor of the nominal unlock height), counts one more element,
   takes the new delegate; no other tranche changes; a refused add changes nothing *)
Theorem lock_add_step : forall L a, Inv L ->
  match add_core L a with
  | Some (L', deleted, _) =>
      add_guards L a = true /\
      get (add_key a) L' = Some (mkRec (r_bal (read L (add_key a)) + a_value a)
                                       (if r_unlock (read L (add_key a)) =? 0 then tranche_height a
                                        else r_unlock (read L (add_key a)))
                                       (((if r_unlock (read L (add_key a)) =? 0 then 0
                                          else r_elems (read L (add_key a))) + 1) mod two16)
                                       (a_deleg a)) /\
      (forall k, k <> add_key a -> get k L' = get k L) /\
      deleted = negb (r_unlock (read L (add_key a)) =? 0)
  | None => add_guards L a = false /\ fst (step L (OAdd a)) = L
  end.
Proof. exact add_step_spec. Qed.
Print Assumptions lock_add_step.

(* lock_accumulates: after ANY history of well-formed operations the balance of every tranche is the sum of the
   rewards added to it minus what was paid out of it (minus what a reverted frame destroyed, see below) *)
Theorem lock_accumulates : forall ops k, Forall op_wf ops ->
  (bal_at (run_state [] ops) k =
   sum_over (at_key k added_by) [] ops - sum_over (at_key k paid_by) [] ops - sum_over (at_key k burned_by) [] ops)%Z.
Proof. exact lock_accumulates_lemma. Qed.
Print Assumptions lock_accumulates.

(* total conservation: sum(added) = sum(claimed) + sum(still locked), for histories without a claim inside a
   reverted frame *)
Theorem total_conservation : forall ops, Forall op_wf ops -> Forall no_inner_revert ops ->
  (sum_over added_by [] ops = sum_over paid_by [] ops + total (run_state [] ops))%Z.
Proof. exact total_conservation_lemma. Qed.
Print Assumptions total_conservation.

(* full statement (no side condition on frames) is FALSE of the code: a claim made inside a call frame that
   reverts afterwards (evm.revertToSnapshot restores ETXCache/CoinbasesDeleted but not the batch) deletes the
   lockup and emits nothing.  Replayed on the real EVM by the harness (corpus "evm-inner-revert"). *)
Theorem total_conservation_refuted_by_reverted_frame :
  exists ops, Forall op_wf ops /\
    (sum_over added_by [] ops <> sum_over paid_by [] ops + total (run_state [] ops))%Z.
Proof. exact reverted_frame_breaks_conservation. Qed.
Print Assumptions total_conservation_refuted_by_reverted_frame.

(* with the destroyed amounts accounted for, conservation holds for every history *)
Theorem total_conservation_with_burn : forall ops, Forall op_wf ops ->
  (sum_over added_by [] ops =
   sum_over paid_by [] ops + sum_over burned_by [] ops + total (run_state [] ops))%Z.
Proof. exact total_conservation_burn_lemma. Qed.
Print Assumptions total_conservation_with_burn.

(* the well-formedness side condition is necessary: with a nominal unlock height below one epoch the tranche
   height is 0 and the next reward overwrites the balance (unreachable with the generated depths, see
   process_rewards_are_wf) *)
Theorem lock_accumulates_refuted_for_unlock_below_epoch :
  exists a, ~ op_wf (OAdd a) /\
    let ops := [OAdd a; OAdd a] in
    (bal_at (run_state [] ops) (add_key a) <> sum_over (at_key (add_key a) added_by) [] ops)%Z.
Proof. exact low_unlock_overwrites. Qed.
Print Assumptions lock_accumulates_refuted_for_unlock_below_epoch.

(* a claim that pays: the record existed, its unlock height has been reached, its epoch is over, the ETX carries
   exactly the record's balance from the caller to the requested address, and the record is gone afterwards *)
Theorem claim_not_before_unlock : forall L m c p, Inv L -> c_height c < two32 ->
  paid_of (snd (step L (OClaim m c))) = Some p ->
  let r := read L (claim_key c) in
  get (claim_key c) L = Some r /\ r_unlock r <> 0 /\ r_unlock r <= c_height c /\
  c_epoch c < (c_height c / E + 1) mod two32 /\ r_elems r <> 0 /\
  p = mkPaid (r_bal r) (c_to c) (c_caller c) (c_etxgas c) /\
  fst (step L (OClaim m c)) = del (claim_key c) L.
Proof. exact claim_not_before_unlock_lemma. Qed.
Print Assumptions claim_not_before_unlock.

(* the unlock height of a tranche never moves while the tranche exists *)
Theorem tranche_unlock_height_never_moves : forall L o k r r', Inv L -> get k L = Some r ->
  get k (fst (step L o)) = Some r' -> r_unlock r' = r_unlock r.
Proof. exact unlock_never_moves. Qed.
Print Assumptions tranche_unlock_height_never_moves.

(* claim_only_owner: a claim (any mode, any verdict) touches no tranche other than the one keyed by its caller;
   in particular no tranche of another owner contract *)
Theorem claim_only_owner : forall L m c k, Inv L -> k <> claim_key c ->
  get k (fst (step L (OClaim m c))) = get k L.
Proof. exact claim_other_keys. Qed.
Print Assumptions claim_only_owner.

Theorem claim_only_owner_by_address : forall L m c o mi lb ep, Inv L ->
  length o = length (c_caller c) -> o <> c_caller c ->
  get (enc o mi lb ep) (fst (step L (OClaim m c))) = get (enc o mi lb ep) L.
Proof. exact claim_only_owner_addr_lemma. Qed.
Print Assumptions claim_only_owner_by_address.

(* the ledger key determines (owner, miner, lock byte, epoch) *)
Theorem ledger_key_injective : forall o m l e o' m' l' e',
  length o = length o' -> length m = length m' -> e < two32 -> e' < two32 ->
  enc o m l e = enc o' m' l' e' -> o = o' /\ m = m' /\ l = l' /\ e = e'.
Proof. exact enc_inj. Qed.
Print Assumptions ledger_key_injective.

(* claim_once: after a paying claim, no claim on the same tranche pays again unless a new reward was added to it *)
Theorem claim_once : forall L m c p ops m' c', Inv L -> Forall op_wf ops ->
  paid_of (snd (step L (OClaim m c))) = Some p ->
  Forall (not_add_to (claim_key c)) ops -> claim_key c' = claim_key c ->
  paid_of (snd (step (run_state (fst (step L (OClaim m c))) ops) (OClaim m' c'))) = None.
Proof. exact claim_once_lemma. Qed.
Print Assumptions claim_once.

(* claimed_equals_accumulated: what a claim pays is exactly what the history accumulated in that tranche *)
Theorem claimed_equals_accumulated : forall ops m c p, Forall op_wf ops ->
  paid_of (snd (step (run_state [] ops) (OClaim m c))) = Some p ->
  (p_value p = sum_over (at_key (claim_key c) added_by) [] ops
               - sum_over (at_key (claim_key c) paid_by) [] ops
               - sum_over (at_key (claim_key c) burned_by) [] ops)%Z /\
  p_sender p = c_caller c /\ p_to p = c_to c.
Proof. exact claimed_equals_accumulated_lemma. Qed.
Print Assumptions claimed_equals_accumulated.

(* a due claim by the owner succeeds and pays the whole balance ... *)
Theorem claim_due_succeeds : forall L c, claim_guards L c = true -> c_etxgas c <= c_gas c ->
  step L (OClaim TxOk c) =
    (del (claim_key c) L,
     RClaim true (c_gas c - c_etxgas c)
            (Some (mkPaid (r_bal (read L (claim_key c))) (c_to c) (c_caller c) (c_etxgas c)))
            (read (del (claim_key c) L) (claim_key c))).
Proof. exact claim_due_succeeds_lemma. Qed.
Print Assumptions claim_due_succeeds.

(* ... but claim_guards contains "elements <> 0", and the uint16 element counter wraps: after 65536 rewards in one
   tranche the unlocked balance cannot be claimed (until another reward arrives, which a finished epoch never
   gets).  Replayed on the real code by the harness (corpus "elements-wrap"). *)
Theorem claim_due_refuted_by_elements_wrap :
  exists a c, op_wf (OAdd a) /\
    let L := run_state [] (repeat (OAdd a) (N.to_nat 65536)) in
    let r := read L (claim_key c) in
    (0 < r_bal r)%Z /\ r_unlock r <> 0 /\ r_unlock r <= c_height c /\ c_height c < two32 /\
    c_epoch c < c_height c / E + 1 /\ internal (c_caller c) = true /\ is_quai (c_caller c) = true /\
    internal (c_miner c) = true /\ c_etxgas c <= c_gas c /\ claim_key c = add_key a /\
    paid_of (snd (step L (OClaim TxOk c))) = None /\ fst (step L (OClaim TxOk c)) = L.
Proof. exact elements_wrap_blocks_due_claim. Qed.
Print Assumptions claim_due_refuted_by_elements_wrap.

(* design observation: the tranche unlocks at the epoch floor of the FIRST reward's nominal height, so a later
   reward of the same epoch is claimable before its own block + depth; the gap is below two epochs *)
Theorem claim_before_nominal_unlock_possible :
  exists ops c p (a : addargs), Forall op_wf ops /\ In (OAdd a) ops /\ add_key a = claim_key c /\
    paid_of (snd (step (run_state [] ops) (OClaim TxOk c))) = Some p /\
    (0 < p_value p)%Z /\ c_height c < a_unlock a.
Proof. exact claim_before_nominal_unlock_witness. Qed.
Print Assumptions claim_before_nominal_unlock_possible.

Theorem claim_early_by_less_than_two_epochs : forall b0 b d th h,
  b0 / E = b / E -> th = (b0 + d) - (b0 + d) mod E -> th <= h -> b + d < h + 2 * E.
Proof. exact (fun b0 b d th h => claim_lower_bound_in_epoch b0 b d th h (E_pos_of_params params_depths_at_least_one_epoch)). Qed.
Print Assumptions claim_early_by_less_than_two_epochs.

(* for Process-made rewards the epoch guard of a claim is implied by the unlock guard (depth >= epoch): a mutation of
   the epoch comparison is only visible on inputs Process never produces (the harness corpus has them) *)
Theorem claim_unlock_guard_implies_epoch_guard : forall b d h, E <= d ->
  (b + d) - (b + d) mod E <= h -> b / E + 1 < h / E + 1.
Proof. exact (fun b d h => unlock_guard_implies_epoch_guard b d h (E_pos_of_params params_depths_at_least_one_epoch)). Qed.
Print Assumptions claim_unlock_guard_implies_epoch_guard.

(* ---- RedeemLockedQuai: plain locked rewards and Qi->Quai conversions ---- *)

(* redeem_exactly_once_at_unlock: an ETX in canonical block b (b >= 1) that RedeemLockedQuai can credit at all
   (plain coinbase to an in-zone Quai address with lock byte l: depth = LockupByteToBlockDepth[l]; conversion:
   depth = ConversionLockPeriod) is selected by the scan of height h exactly once if h = b + depth and not at
   all otherwise *)
Theorem redeem_exactly_once_at_unlock : forall ch h b xs i x d,
  ch b = Some xs -> nth_error xs i = Some x -> credit_depth x = Some d -> In d depths ->
  cnt (b, i) (selected_at depths ch h) = if (h =? b + d) && (1 <=? b) then 1%nat else 0%nat.
Proof. exact (fun ch h b xs i x d => redeem_once_lemma depths ch h b xs i x d params_depths_pairwise_distinct). Qed.
Print Assumptions redeem_exactly_once_at_unlock.

Theorem redeem_plain_coinbase_depth : forall x d, e_kind x = KCoinbase -> is_quai (e_to x) = true ->
  internal (e_to x) = true -> e_dlen x = plain_len -> depth_of (e_lock x) = Some d ->
  credit_depth x = Some d /\ In d depths.
Proof. exact plain_coinbase_depth_lemma. Qed.
Print Assumptions redeem_plain_coinbase_depth.

Theorem redeem_conversion_depth : forall x, e_kind x = KConversion -> is_quai (e_to x) = true ->
  internal (e_to x) = true -> credit_depth x = Some conversion_lock_period /\ In conversion_lock_period depths.
Proof. exact (fun x => conversion_depth_lemma x params_conversion_period_in_table_once). Qed.
Print Assumptions redeem_conversion_depth.

(* contract-held rewards (53/73-byte data), other ETX kinds, Qi-ledger recipients, malformed data: never credited *)
Theorem redeem_never_credits_others : forall ch h b xs i x,
  ch b = Some xs -> nth_error xs i = Some x -> credit_depth x = None ->
  cnt (b, i) (selected_at depths ch h) = 0%nat.
Proof. exact (redeem_never_lemma depths). Qed.
Print Assumptions redeem_never_credits_others.

(* amount: the lockup-adjusted value at the REDEEMING height for a coinbase, the plain value for a conversion *)
Theorem redeem_credit_amount : forall d h x a v, select d h x = SCredit a v ->
  a = e_to x /\ v = match e_kind x with KCoinbase => lockup_value (e_value x) (e_lock x) h | _ => e_value x end.
Proof. exact select_credit_payload. Qed.
Print Assumptions redeem_credit_amount.

(* the whole function = account-creation-fee rule applied to exactly the selected ETXs, in depth-table then
   block order (when every target block is present and holds no foreign-zone recipient / bad lock byte) *)
Theorem redeem_is_fee_rule_over_selected : forall ch h fee st, Forall (depth_ok ch h) depths ->
  redeem ch h fee st =
    let '(cr, st') := apply_credits fee (all_selected depths ch h) [] st in RedOk cr st'.
Proof. intros ch h fee st F. exact (redeem_depths_as_selected depths ch h fee [] st F). Qed.
Print Assumptions redeem_is_fee_rule_over_selected.

(* no more: balances grow by exactly the reported unlocks *)
Theorem redeem_balance_conservation : forall ch h fee st cr st',
  redeem ch h fee st = RedOk cr st' -> (atotal st' = atotal st + csum cr)%Z.
Proof. exact redeem_conserves_lemma. Qed.
Print Assumptions redeem_balance_conservation.

(* lockup-adjusted value: never below the plain value, never above the first-year multiple *)
Theorem lockup_value_bounds : forall v lb h, (0 <= v)%Z -> lb <= max_lockup_byte ->
  (v <= lockup_value v lb h)%Z /\
  (lockup_value v lb h <= Z.max v (v * Z.of_N (fst (mult_of lb)) / 100000))%Z /\
  (lb = 0 -> lockup_value v lb h = v).
Proof. exact (fun v lb h => lockup_value_bounds_lemma v lb h params_multipliers_sane). Qed.
Print Assumptions lockup_value_bounds.

(* ---- reward split, pre-fork formula (modelled, not driven by the harness) ---- *)

(* sum of the share rewards <= block reward + one unit per share (a share whose part rounds to 0 is paid 1) *)
Theorem reward_split_bounded_partial : forall R es, (0 <= R)%Z -> Forall (fun e => (0 <= e)%Z) es -> (0 < zsum es)%Z ->
  (zsum (split_prefork R es) <= R + Z.of_nat (length es))%Z.
Proof. exact share_split_bounded_lemma. Qed.
Print Assumptions reward_split_bounded_partial.

(* full statement "sum of shares <= block reward" is false because of the minimum of 1 *)
Theorem reward_split_bounded_refuted : exists R es, (0 <= R)%Z /\ Forall (fun e => (0 <= e)%Z) es /\ (0 < zsum es)%Z /\
  (R < zsum (split_prefork R es))%Z.
Proof. exact share_split_strict_refuted. Qed.
Print Assumptions reward_split_bounded_refuted.

(* ---- non-vacuity ---- *)

Definition nv_ops : list op :=
  [OAdd (w_add 100); OAdd (w_add 50); OClaim TxOk (w_claim (w_th - 1)); OClaim TxOk (w_claim w_th)].

Example ledger_history_nonvacuous :
  Forall op_wf nv_ops /\ Forall no_inner_revert nv_ops /\
  sum_over added_by [] nv_ops = 150%Z /\ sum_over paid_by [] nv_ops = 150%Z /\ total (run_state [] nv_ops) = 0%Z /\
  bal_at (run_state [] (firstn 3 nv_ops)) (add_key (w_add 1)) = 150%Z.
Proof.
  split; [|split; [|vm_compute; repeat split; reflexivity]].
  - repeat constructor; intro H; vm_compute in H; discriminate.
  - repeat constructor.
Qed.

Example claim_pays_nonvacuous :
  paid_of (snd (step (run_state [] (firstn 2 nv_ops)) (OClaim TxOk (w_claim w_th))))
    = Some (mkPaid 150%Z w_to w_owner 21000) /\
  paid_of (snd (step (run_state [] (firstn 2 nv_ops)) (OClaim TxOk (w_claim (w_th - 1))))) = None /\
  claim_guards (run_state [] (firstn 2 nv_ops)) (w_claim w_th) = true.
Proof. vm_compute. repeat split; reflexivity. Qed.

Example claim_once_nonvacuous :
  paid_of (snd (step (run_state [] nv_ops) (OClaim TxOk (w_claim (w_th + 1))))) = None /\
  Forall (not_add_to (claim_key (w_claim w_th))) [OClaim TxOk (w_claim w_th); OCommit].
Proof. split; [vm_compute; reflexivity|repeat constructor]. Qed.

Definition nv_x (lb : N) : retx := mkRetx KCoinbase w_to plain_len lb 1000000.
Definition nv_chain (b : N) : option (list retx) := if b =? 7 then Some [nv_x 1; nv_x 0; mkRetx KConversion w_to 0 0 55] else Some [].

Example redeem_nonvacuous :
  credit_depth (nv_x 1) = Some (nth 1 depths 0) /\
  selected_at depths nv_chain (7 + nth 1 depths 0) = [(7, 0%nat)] /\
  selected_at depths nv_chain (7 + nth 0 depths 0) = [(7, 1%nat); (7, 2%nat)] /\
  selected_at depths nv_chain (8 + nth 0 depths 0) = [] /\
  redeem [(7, [nv_x 1; nv_x 0; mkRetx KConversion w_to 0 0 55])] (7 + nth 0 depths 0) 10 []
    = RedOk [(w_to, 999990%Z); (w_to, 55%Z)] [(w_to, 1000045%Z)].
Proof. vm_compute. repeat split; reflexivity. Qed.

Example lockup_value_nonvacuous :
  lockup_value 1000000 3 (2 * blocks_per_month) = 1250000%Z /\ lockup_value 1000000 3 (6 * blocks_per_year) = 1015620%Z /\
  lockup_value 1000000 0 (6 * blocks_per_year) = 1000000%Z /\ lockup_value 1000000 3 (2 * blocks_per_month - 1) = 1000000%Z.
Proof. vm_compute. repeat split; reflexivity. Qed.

Example reward_split_nonvacuous : split_prefork 1000 [3; 1; 0]%Z = [750; 250; 1]%Z.
Proof. vm_compute. reflexivity. Qed.

(* ================================================================== workshare inclusion
   HeaderChain.VerifyUncles (model verify_uncles) and the reward-at-depth rule of the Process tail
   (model upaid).  Chains are lists of blocks, NEWEST FIRST; each block is validated against the
   chain below it.  Chain hypotheses: uwf = distinct block hashes + parent links, uroot = the parent of
   the oldest block is not on the chain, ubinds / ubinds_blocks = a header hash determines the parent
   hash inside it (their negation is a hash collision). *)

(* the inclusion windows as they are in the source now: the proofs below use 3 <= depth <= 4 *)
Theorem params_inclusion_window_sane :
  ((3 =? workshares_inclusion_depth) && (workshares_inclusion_depth <=? new_workshares_inclusion_depth)
   && (new_workshares_inclusion_depth <=? 4) && (max_workshare_count <=? new_max_workshare_count)
   && (kawpow_fork_block <=? inclusion_depth_change_block) && (controller_kick_in_block <=? kawpow_fork_block)) = true.
Proof. vm_compute. reflexivity. Qed.
Print Assumptions params_inclusion_window_sane.

(* inside one accepted block no share hash is listed twice, and the count limit of its fork holds *)
Theorem share_unique_in_block : forall db b, verify_uncles db b = VOk -> NoDup (map s_id (b_uncles b)).
Proof. exact share_unique_in_block_lemma. Qed.
Print Assumptions share_unique_in_block.

Theorem share_count_bounded : forall db b, verify_uncles db b = VOk ->
  N.of_nat (length (b_uncles b)) <= u_maxcount (b_ptn b).
Proof. exact share_count_bounded_lemma. Qed.
Print Assumptions share_count_bounded.

(* recency: an accepted share was mined on one of the last `depth` ancestors of the including block, so
   number(share) <= number(block) < number(share) + depth.  This is the side condition that makes the
   FINITE window of the duplicate check sufficient. *)
Theorem share_recent : forall b rest, uwf (b :: rest) -> uroot (b :: rest) -> unumbered (b :: rest) ->
  verify_uncles rest b = VOk ->
  forall s, In s (b_uncles b) -> s_num s <= b_num b /\ b_num b < s_num s + N.of_nat (u_depth (b_ptn b)).
Proof. exact share_recent_lemma. Qed.
Print Assumptions share_recent.

(* THE clause: along any chain whose blocks were each accepted by VerifyUncles, no share hash occurs in
   two uncle lists (nor twice in one) - for every mix of inclusion depths along the chain *)
Theorem share_included_once : forall c, uwf c -> uroot c -> uaccepted c -> ubinds c ->
  NoDup (map s_id (ushares c)).
Proof. exact share_included_once_lemma. Qed.
Print Assumptions share_included_once.

(* a listed share is never (the header of) a block of the chain that lists it *)
Theorem share_is_no_chain_block : forall c, uwf c -> uroot c -> uaccepted c -> ubinds_blocks c ->
  forall s bk, In s (ushares c) -> In bk c -> s_id s <> b_id bk.
Proof. exact share_no_chain_block_lemma. Qed.
Print Assumptions share_is_no_chain_block.

(* ... and so rewarded at most once: over the whole chain the coinbase payments made for shares carry
   pairwise distinct share hashes, as long as one inclusion depth is in force along the chain *)
Theorem share_rewarded_once : forall c d, uwf c -> uroot c -> uaccepted c -> ubinds c -> unumbered c ->
  (forall b, In b c -> u_depth (b_ptn b) = d) ->
  NoDup (map s_id (upaid_all c)).
Proof. exact share_rewarded_once_lemma. Qed.
Print Assumptions share_rewarded_once.

(* the constant-depth premise is necessary: the last depth-3 block (height n) and the first depth-4
   block (height n+1) both pay the shares numbered n-3 *)
Theorem share_rewarded_once_refuted_at_depth_change :
  exists c, uwf c /\ uroot c /\ uaccepted c /\ ubinds c /\ unumbered c /\ ~ NoDup (map s_id (upaid_all c)).
Proof. exact share_rewarded_once_refuted_lemma. Qed.
Print Assumptions share_rewarded_once_refuted_at_depth_change.

(* no less: a share listed on the chain is paid by the block `depth` above the share's number *)
Theorem share_paid_when_due : forall pre b rest d, let c := pre ++ b :: rest in
  uwf c -> uroot c -> uaccepted c -> unumbered c ->
  (forall x, In x c -> u_depth (b_ptn x) = d) ->
  forall s, In s (ushares (b :: rest)) -> b_num b = s_num s + N.of_nat d -> In s (upaid b rest).
Proof. exact share_paid_when_due_lemma. Qed.
Print Assumptions share_paid_when_due.

Example share_included_once_nonvacuous :
  verify_uncles ex_base ex_b6 = VOk /\
  verify_uncles (ex_b6 :: ex_base) ex_b7_dup = VDup /\
  verify_uncles (ex_b6 :: ex_base) ex_b7_fresh = VOk /\
  uaccepted (ex_b7_fresh :: ex_b6 :: ex_base) /\
  map s_id (ushares (ex_b7_fresh :: ex_b6 :: ex_base)) = [101; 102; 100] /\
  (* re-listing from the grandparent, and from the oldest block of the window, is refused too *)
  verify_uncles (mkBlk 7 6 7 300000 [] :: ex_b6 :: ex_base) (mkBlk 8 7 8 300000 [ex_share 100 5 6]) = VDup /\
  verify_uncles (mkBlk 8 7 8 300000 [] :: mkBlk 7 6 7 300000 [] :: ex_b6 :: ex_base) (mkBlk 9 8 9 300000 [ex_share 100 5 6]) = VDup /\
  (* a block of the chain offered as a share, a share mined too long ago *)
  verify_uncles (ex_b6 :: ex_base) (mkBlk 7 6 7 300000 [mkShare 5 4 5 300000 false [0] 0 true PBlock true]) = VAncestor /\
  verify_uncles (ex_b6 :: ex_base) (mkBlk 7 6 7 300000 [ex_share 103 2 3]) = VDangling.
Proof. vm_compute. repeat split; reflexivity. Qed.

Example share_rewarded_once_nonvacuous :
  map s_id (upaid (mkBlk 9 8 9 300000 []) [mkBlk 8 7 8 300000 []; mkBlk 7 6 7 300000 []; ex_b6; mkBlk 5 4 5 300000 []; mkBlk 4 3 4 300000 []]) = [100] /\
  map s_id (upaid_all wit_chain) = [100; 100].
Proof. vm_compute. repeat split; reflexivity. Qed.

(* ================================================================== reorgs
   collect L ops = the ledger after a block of operations and the undo records StateProcessor.Process
   writes for it (created keys / replaced records); undo_block = what HeaderChain.SetCurrentHeader does
   with them when the block is orphaned: put the replaced records back in reverse order, then delete
   the created keys. *)

(* orphaning a block of rewards (any number of rewards per tranche, new and existing tranches, delegate
   changes) gives back EXACTLY the ledger before the block: no reward of an orphaned block stays
   accumulated, nothing of the surviving chain is lost *)
Theorem rollback_restores_rewards : forall ops L, Inv L -> Forall op_wf ops -> Forall no_claim ops ->
  undo_block (snd (collect L ops)) (fst (collect L ops)) = L.
Proof. exact rollback_restores_rewards_lemma. Qed.
Print Assumptions rollback_restores_rewards.

(* the two passes do not commute: with the created keys deleted first, the first reward of an orphaned
   block that created a tranche and added to it again survives the rollback *)
Theorem rollback_order_matters :
  Forall op_wf rw_ops /\ Forall no_claim rw_ops /\
  undo_block (snd (collect [] rw_ops)) (fst (collect [] rw_ops)) = [] /\
  r_bal (read (undo_block_swapped (snd (collect [] rw_ops)) (fst (collect [] rw_ops))) (add_key (rw_add 100))) = 100%Z.
Proof. exact rollback_order_matters_lemma. Qed.
Print Assumptions rollback_order_matters.

Example rollback_restores_nonvacuous :
  snd (collect [] rw_ops) = [ECreated (add_key (rw_add 100)); EDeleted (add_key (rw_add 100)) (mkRec 100 200000 1 zero_addr)] /\
  r_bal (read (fst (collect [] rw_ops)) (add_key (rw_add 100))) = 150%Z /\
  run_case [] [(CPrim (OAdd (rw_add 100)), RAdd true false None (mkRec 100 200000 1 zero_addr)); (CBlockEnd, RNone);
               (CRollback 1, RNone); (CPrim (OGet (a_owner (rw_add 1)) (a_miner (rw_add 1)) 0 1), RGet true empty_rec)] = true.
Proof. vm_compute. repeat split; reflexivity. Qed.

(* ---- post-fork share reward amounts: the time discount of a merged-mined share
        (core/headerchain.go CalculateTimeDiscountedShareReward, model time_discount; uint32 time arithmetic wraps) ---- *)

(* obligations on the generated constants: threshold < both liveness times, penalty <= divisor, no uint32 product wraps *)
Theorem params_time_discount_sane : discount_params_ok = true.
Proof. vm_compute. reflexivity. Qed.
Print Assumptions params_time_discount_sane.

(* the function never divides by zero, for every pow id, timestamp, signature time and reward *)
Theorem share_discount_total : forall pid ts sg reward, time_discount pid ts sg reward <> None.
Proof. exact td_total. Qed.
Print Assumptions share_discount_total.

(* "no more": the discounted amount never exceeds the share reward and never falls below the maximum-penalty amount *)
Theorem share_discount_bounds : forall pid ts sg reward v, (0 <= reward)%Z -> time_discount pid ts sg reward = Some v ->
  (max_penalty_amount reward <= v <= reward)%Z.
Proof. exact td_bounds. Qed.
Print Assumptions share_discount_bounds.

(* a share signed at most NoPenaltyTimeThreshold seconds before its header timestamp is paid in full *)
Theorem share_discount_fresh_is_full : forall pid ts sg reward, u32sub ts sg <= no_penalty_time_threshold ->
  time_discount pid ts sg reward = Some reward.
Proof. exact td_fresh. Qed.
Print Assumptions share_discount_fresh_is_full.

(* elapsed time (as the uint32 difference the code computes) at or beyond the liveness time of the share's
   algorithm: exactly reward * UnlivelySharePenalty / ShareRewardPenaltyDivisor *)
Theorem share_discount_stale_is_max_penalty : forall pid ts sg reward, liveness_of pid <= u32sub ts sg ->
  time_discount pid ts sg reward = Some (max_penalty_amount reward).
Proof. exact td_stale. Qed.
Print Assumptions share_discount_stale_is_max_penalty.

(* a signature time LATER than the header timestamp (post-dated template signature) is NOT fresh: the uint32
   difference wraps and the share gets the maximum penalty (all post-datings up to 2^32 - liveness seconds) *)
Theorem share_discount_postdated_is_max_penalty : forall pid ts sg reward,
  ts < sg -> sg < two32 -> sg - ts <= two32 - liveness_of pid ->
  time_discount pid ts sg reward = Some (max_penalty_amount reward).
Proof. exact td_postdated. Qed.
Print Assumptions share_discount_postdated_is_max_penalty.

(* an older share (larger elapsed uint32 time) is never paid more than a fresher one of the same algorithm *)
Theorem share_discount_monotone : forall pid ts sg ts' sg' reward v v', (0 <= reward)%Z ->
  u32sub ts sg <= u32sub ts' sg' ->
  time_discount pid ts sg reward = Some v -> time_discount pid ts' sg' reward = Some v' -> (v' <= v)%Z.
Proof. exact td_monotone. Qed.
Print Assumptions share_discount_monotone.

Example share_discount_nonvacuous :
  time_discount 1 110 100 1000 = Some 860%Z /\ time_discount 2 110 100 1000 = Some 922%Z /\
  time_discount 1 103 100 1000 = Some 1000%Z /\ time_discount 4 118 100 1000 = Some 700%Z /\
  time_discount 1 100 140 1234567000000000000 = Some 864196900000000000%Z /\
  time_discount 3 1 4294967295 1000 = Some 1000%Z /\ u32sub 100 140 = 4294967256.
Proof. vm_compute. repeat split; reflexivity. Qed.

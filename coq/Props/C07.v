(* C07 — Own blocks validate; any deviation from re-execution is rejected; a rejected block
   leaves no trace.
   Property theorems only: each is closed by [exact <lemma>] and followed by
   [Print Assumptions].  Model: Model/C07.v  Lemmas: Proofs/C07.v, Proofs/C07_Sel.v
   Generated data: Generated/C07Checks.v (comparison sites and write skeletons of the current source).

   Throughout: [exec] is ANY deterministic re-execution function (Process + the recomputations
   of ValidateState), [root]/[uroot]/[bhash] are ANY hash functions; nothing is assumed about
   them (collisions appear as explicit disjuncts). *)
From Coq Require Import List NArith Bool String.
From GQ Require Import Model.C07 Generated.C07Checks Proofs.C07 Proofs.C07_Sel Proofs.C07_Skip.
Import ListNotations.
Local Open Scope N_scope.

(* === liveness direction: the worker's block passes the node's own validation === *)

(* For every state, header context, selected transaction list and uncle list on which execution
   succeeds, the block the worker assembles (declared := recomputed) is accepted by
   ValidateBody + Process + ValidateState, with the very state the worker computed.
   (uncles_ok / scope_ok: the worker only commits verified work shares, the pool only admits
   Qi outputs to active chains.) *)
Theorem assembled_block_validates :
  forall tx uncle hdr state root uroot uncles_ok scope_ok exec st h txs uncles b,
  assemble tx uncle hdr state root uroot exec st h txs uncles = Some b ->
  uncles_ok st h uncles = true -> scope_ok txs = true ->
  exists st' x, exec st h txs uncles = Some (st', x)
    /\ validate tx uncle hdr state root uroot uncles_ok scope_ok exec st b = Ok state st'
    /\ b_decl _ _ _ b = recomputed tx uncle root uroot txs uncles x /\ b_etxs _ _ _ b = x_emitted _ x.
Proof. exact assembled_validates. Qed.
Print Assumptions assembled_block_validates.

(* The worker produces no block exactly when execution of the selected list fails. *)
Theorem assemble_fails_only_if_execution_fails :
  forall tx uncle hdr state root uroot exec st h txs uncles,
  assemble tx uncle hdr state root uroot exec st h txs uncles = None <-> exec st h txs uncles = None.
Proof. exact assemble_none_iff. Qed.
Print Assumptions assemble_fails_only_if_execution_fails.

(* Chain level: the node's own block, offered to its own validation path on its own head,
   becomes the new head with the state the worker computed. *)
Theorem own_block_extends_own_chain :
  forall tx uncle hdr state root uroot uncles_ok scope_ok exec bhash h_parent h_num d h txs uncles b,
  assemble tx uncle hdr state root uroot exec (d_state _ d) h txs uncles = Some b ->
  uncles_ok (d_state _ d) h uncles = true -> scope_ok txs = true ->
  h_parent h = d_head _ d -> hash_of tx uncle hdr bhash b <> d_head _ d ->
  let o := offer tx uncle hdr state root uroot uncles_ok scope_ok exec bhash h_parent h_num d b in
  exists st', snd o = SOk /\ d_state _ (fst o) = st' /\ d_head _ (fst o) = hash_of tx uncle hdr bhash b
    /\ d_headnum _ (fst o) = h_num h /\ exists x, exec (d_state _ d) h txs uncles = Some (st', x).
Proof. exact own_block_appends. Qed.
Print Assumptions own_block_extends_own_chain.

(* === safety direction: acceptance pins every commitment === *)

(* Acceptance is equivalent to: body lists hash to the declared roots, and re-execution succeeds
   and recomputes exactly the declared commitments. *)
Theorem validate_accepts_iff_recomputation_matches :
  forall tx uncle hdr state root uroot uncles_ok scope_ok exec st b st',
  validate tx uncle hdr state root uroot uncles_ok scope_ok exec st b = Ok state st' <->
  uncles_ok st (b_hdr _ _ _ b) (b_uncles _ _ _ b) = true /\ scope_ok (b_txs _ _ _ b) = true
  /\ root (b_etxs _ _ _ b) = c_etx_hash (b_decl _ _ _ b)
  /\ exists x, exec st (b_hdr _ _ _ b) (b_txs _ _ _ b) (b_uncles _ _ _ b) = Some (st', x)
            /\ recomputed tx uncle root uroot (b_txs _ _ _ b) (b_uncles _ _ _ b) x = b_decl _ _ _ b.
Proof. exact validate_ok_iff. Qed.
Print Assumptions validate_accepts_iff_recomputation_matches.

(* One conjunct per commitment field (the outbound ETX hash is pinned twice: to the list in the
   body and to the ETXs emitted by re-execution). *)
Theorem validate_pins_every_commitment :
  forall tx uncle hdr state root uroot uncles_ok scope_ok exec st b st',
  validate tx uncle hdr state root uroot uncles_ok scope_ok exec st b = Ok state st' ->
  exists x, exec st (b_hdr _ _ _ b) (b_txs _ _ _ b) (b_uncles _ _ _ b) = Some (st', x) /\
    let d := b_decl _ _ _ b in
    c_uncle_hash d = uroot (b_uncles _ _ _ b) /\
    c_tx_root d = root (b_txs _ _ _ b) /\
    c_etx_hash d = root (b_etxs _ _ _ b) /\
    c_etx_hash d = root (x_emitted _ x) /\
    c_receipt_root d = x_receipt_root _ x /\
    c_evm_root d = x_evm_root _ x /\
    c_utxo_root d = x_utxo_root _ x /\
    c_etxset_root d = x_etxset_root _ x /\
    c_gas_used d = x_gas_used _ x /\
    c_state_used d = x_state_used _ x /\
    c_state_size d = x_state_size _ x /\
    c_avg_fees d = x_avg_fees _ x /\
    c_total_fees d = x_total_fees _ x /\
    c_uncled_entropy d = x_uncled_entropy _ x.
Proof. exact validate_pins. Qed.
Print Assumptions validate_pins_every_commitment.

(* Every commitment field of the model has a comparison site in the CURRENT source
   (removing a comparison from ValidateBody / Process / ValidateState breaks this). *)
Theorem every_commitment_has_a_comparison_site : all_commitments_compared = true.
Proof. vm_compute. reflexivity. Qed.
Print Assumptions every_commitment_has_a_comparison_site.

(* ... and the comparison sites of the current source are exactly the reviewed ones: same
   functions, same order (the order of the model's checks), same compared operands. *)
Theorem comparison_sites_are_the_reviewed_ones : comparisons_as_reviewed = true.
Proof. vm_compute. reflexivity. Qed.
Print Assumptions comparison_sites_are_the_reviewed_ones.

Theorem reviewed_field_list_is_complete : forall f : field, In f all_fields.
Proof. exact all_fields_complete. Qed.
Print Assumptions reviewed_field_list_is_complete.

(* === single-component mutations === *)

(* Any change whatsoever of the declared commitments of an accepted block (one field or several)
   is rejected. *)
Theorem any_declared_deviation_is_rejected :
  forall tx uncle hdr state root uroot uncles_ok scope_ok exec st b st' d',
  validate tx uncle hdr state root uroot uncles_ok scope_ok exec st b = Ok state st' ->
  d' <> b_decl _ _ _ b ->
  exists c, validate tx uncle hdr state root uroot uncles_ok scope_ok exec st (with_decl tx uncle hdr b d') = Err state c.
Proof. exact any_declared_deviation_rejected. Qed.
Print Assumptions any_declared_deviation_is_rejected.

(* For each field: a block whose declared field differs from the recomputed value is rejected. *)
Theorem single_mutation_rejected :
  forall tx uncle hdr state root uroot uncles_ok scope_ok exec st b st' f v,
  validate tx uncle hdr state root uroot uncles_ok scope_ok exec st b = Ok state st' ->
  v <> get f (b_decl _ _ _ b) ->
  exists c, validate tx uncle hdr state root uroot uncles_ok scope_ok exec st
              (with_decl tx uncle hdr b (set f v (b_decl _ _ _ b))) = Err state c.
Proof. exact single_field_mutation_rejected. Qed.
Print Assumptions single_mutation_rejected.

(* Body mutations with the roots left as they are: any altered / dropped / reordered / added
   transaction (any different list) is rejected, or the two lists collide under the root hash. *)
Theorem transaction_list_mutation_rejected :
  forall tx uncle hdr state root uroot uncles_ok scope_ok exec st b st' txs',
  validate tx uncle hdr state root uroot uncles_ok scope_ok exec st b = Ok state st' ->
  txs' <> b_txs _ _ _ b ->
  (exists c, validate tx uncle hdr state root uroot uncles_ok scope_ok exec st (with_txs tx uncle hdr b txs') = Err state c)
  \/ root txs' = root (b_txs _ _ _ b).
Proof. exact tx_list_mutation_rejected. Qed.
Print Assumptions transaction_list_mutation_rejected.

Theorem outbound_etx_list_mutation_rejected :
  forall tx uncle hdr state root uroot uncles_ok scope_ok exec st b st' l,
  validate tx uncle hdr state root uroot uncles_ok scope_ok exec st b = Ok state st' ->
  l <> b_etxs _ _ _ b ->
  (exists c, validate tx uncle hdr state root uroot uncles_ok scope_ok exec st (with_etxs tx uncle hdr b l) = Err state c)
  \/ root l = root (b_etxs _ _ _ b).
Proof. exact etx_list_mutation_rejected. Qed.
Print Assumptions outbound_etx_list_mutation_rejected.

Theorem uncle_list_mutation_rejected_or_collides :
  forall tx uncle hdr state root uroot uncles_ok scope_ok exec st b st' l,
  validate tx uncle hdr state root uroot uncles_ok scope_ok exec st b = Ok state st' ->
  l <> b_uncles _ _ _ b ->
  (exists c, validate tx uncle hdr state root uroot uncles_ok scope_ok exec st (with_uncles tx uncle hdr b l) = Err state c)
  \/ uroot l = uroot (b_uncles _ _ _ b).
Proof. exact uncle_list_mutation_rejected. Qed.
Print Assumptions uncle_list_mutation_rejected_or_collides.

(* Body mutations with the root re-derived: the mutant is another candidate block. If it is
   accepted too, then re-execution of ITS list reproduces ITS declarations, hence wherever the
   two declarations agree (all fields but the transaction root, for a re-rooted mutant) the two
   blocks commit to the same recomputed results; and its hash differs or the header hash collides. *)
Theorem rerooted_mutant_accepted_only_with_same_results :
  forall tx uncle hdr state root uroot uncles_ok scope_ok exec st b st1 b' st2,
  validate tx uncle hdr state root uroot uncles_ok scope_ok exec st b = Ok state st1 ->
  validate tx uncle hdr state root uroot uncles_ok scope_ok exec st b' = Ok state st2 ->
  exists x x', exec st (b_hdr _ _ _ b) (b_txs _ _ _ b) (b_uncles _ _ _ b) = Some (st1, x)
    /\ exec st (b_hdr _ _ _ b') (b_txs _ _ _ b') (b_uncles _ _ _ b') = Some (st2, x')
    /\ forall f, get f (b_decl _ _ _ b') = get f (b_decl _ _ _ b) ->
         get f (recomputed tx uncle root uroot (b_txs _ _ _ b') (b_uncles _ _ _ b') x')
         = get f (recomputed tx uncle root uroot (b_txs _ _ _ b) (b_uncles _ _ _ b) x).
Proof. exact rederived_variant_accepted_only_if_equivalent. Qed.
Print Assumptions rerooted_mutant_accepted_only_with_same_results.

Theorem different_commitments_different_block_hash :
  forall hdr (bhash : hdr -> commitments -> N) h d d',
  d <> d' -> bhash h d <> bhash h d' \/ (bhash h d = bhash h d' /\ d <> d').
Proof. exact different_declaration_different_hash. Qed.
Print Assumptions different_commitments_different_block_hash.

(* === a rejected block leaves no trace === *)

(* BodyDb.Append: on error the database is the one before. *)
Theorem rejected_block_no_trace :
  forall tx uncle hdr state root exec d b c,
  snd (append tx uncle hdr state root exec d b) = Err state c -> fst (append tx uncle hdr state root exec d b) = d.
Proof. exact append_rejected_identity. Qed.
Print Assumptions rejected_block_no_trace.

(* HeaderChain.SetCurrentHeader writes the canonical hash BEFORE processing and deletes the
   record of that number on error: the net effect of a rejected block is the identity, provided
   there was no canonical record above the head (wf) and the block carries its parent's number + 1. *)
Theorem rejected_block_no_trace_set_current_header :
  forall tx uncle hdr state root exec bhash h_parent h_num d b c,
  wf state d -> child_numbered tx uncle hdr state h_parent h_num d b ->
  snd (set_current_header tx uncle hdr state root exec bhash h_parent h_num d b) = SErr c ->
  fst (set_current_header tx uncle hdr state root exec bhash h_parent h_num d b) = d.
Proof. exact sch_rejected_identity. Qed.
Print Assumptions rejected_block_no_trace_set_current_header.

(* The full path (ValidateBody, then SetCurrentHeader): whatever is not accepted changes nothing. *)
Theorem unaccepted_offer_changes_nothing :
  forall tx uncle hdr state root uroot uncles_ok scope_ok exec bhash h_parent h_num d b,
  wf state d -> child_numbered tx uncle hdr state h_parent h_num d b ->
  snd (offer tx uncle hdr state root uroot uncles_ok scope_ok exec bhash h_parent h_num d b) <> SOk ->
  fst (offer tx uncle hdr state root uroot uncles_ok scope_ok exec bhash h_parent h_num d b) = d.
Proof. exact offer_rejected_identity. Qed.
Print Assumptions unaccepted_offer_changes_nothing.

(* wf is an invariant of the path (accepted or not). *)
Theorem no_canonical_record_above_head_is_invariant :
  forall tx uncle hdr state root uroot uncles_ok scope_ok exec bhash h_parent h_num d b,
  wf state d -> child_numbered tx uncle hdr state h_parent h_num d b ->
  wf state (fst (offer tx uncle hdr state root uroot uncles_ok scope_ok exec bhash h_parent h_num d b)).
Proof. exact offer_wf. Qed.
Print Assumptions no_canonical_record_above_head_is_invariant.

(* The precondition is necessary: the modelled code deletes (does not restore) the canonical
   record, so with a stale record at that number a rejected block DOES leave a trace.
   Full statement without wf:  forall d b c, snd (sch d b) = SErr c -> fst (sch d b) = d  -- refuted: *)
Theorem rejected_block_no_trace_without_wf_refuted :
  ~ wf unit w_db /\ snd (w_sch w_db w_block) = SErr VExec /\ fst (w_sch w_db w_block) <> w_db
  /\ canon_get 1 (d_canon _ w_db) = Some 99 /\ canon_get 1 (d_canon _ (fst (w_sch w_db w_block))) = None.
Proof. exact stale_canonical_record_erased. Qed.
Print Assumptions rejected_block_no_trace_without_wf_refuted.

(* For every history of offered blocks: the final database is the one obtained by offering only
   the accepted ones (rejected blocks, duplicates and non-children are invisible), and the
   invariant holds at the end. *)
Theorem history_ignores_rejected_blocks :
  forall tx uncle hdr state root uroot uncles_ok scope_ok exec bhash h_parent h_num numof bs d,
  inv state numof d ->
  Forall (numbered tx uncle hdr bhash h_parent h_num numof) bs ->
  run tx uncle hdr state root uroot uncles_ok scope_ok exec bhash h_parent h_num d bs
  = run tx uncle hdr state root uroot uncles_ok scope_ok exec bhash h_parent h_num d
      (accepted tx uncle hdr state root uroot uncles_ok scope_ok exec bhash h_parent h_num d bs)
  /\ inv state numof
       (run tx uncle hdr state root uroot uncles_ok scope_ok exec bhash h_parent h_num d bs).
Proof. exact run_ignores_rejected. Qed.
Print Assumptions history_ignores_rejected_blocks.

(* === the write structure of the current source === *)

Theorem bodydb_append_writes_batch_only_after_apply : append_writes_batch_only_after_apply = true.
Proof. vm_compute. reflexivity. Qed.
Print Assumptions bodydb_append_writes_batch_only_after_apply.

Theorem set_current_header_deletes_canonical_hash_on_error : canonical_hash_deleted_on_error = true.
Proof. vm_compute. reflexivity. Qed.
Print Assumptions set_current_header_deletes_canonical_hash_on_error.

Theorem apply_validates_before_writing : apply_validates_before_any_write = true.
Proof. vm_compute. reflexivity. Qed.
Print Assumptions apply_validates_before_writing.

Theorem validation_path_writes_only_to_the_batch : no_direct_write_on_validation_path = true.
Proof. vm_compute. reflexivity. Qed.
Print Assumptions validation_path_writes_only_to_the_batch.

(* === the worker's arbitration between conflicting pool transactions ===
   (why execution of the selected list cannot fail on a spent outpoint: the hypothesis
   "exec succeeds" of assembled_block_validates, for the spend-once part of exec) *)

(* For EVERY committed UTXO set and EVERY pool content in every processing order (any number of
   mutually conflicting transactions, partial overlaps, transactions rejected for other reasons
   after they reserved inputs): the list selected by the worker's input loop names every outpoint at
   most once and only existing ones - under the code as it is (rejected transactions keep their
   reservations) and under a clean-up that releases exactly what the rejected transaction inserted. *)
Theorem worker_selection_spends_each_outpoint_once :
  forall p utxo pool, p = KeepAll \/ p = ReleaseOwn ->
  NoDup (spent_by (wselect p utxo pool)) /\ (forall x, In x (spent_by (wselect p utxo pool)) -> In x utxo).
Proof. exact wselect_spends_once. Qed.
Print Assumptions worker_selection_spends_each_outpoint_once.

(* ... hence the validator's sequential spend check (ProcessQiTx: look up, delete) accepts it. *)
Theorem worker_selection_passes_validator_spend_check :
  forall p utxo pool, p = KeepAll \/ p = ReleaseOwn -> vspend utxo (wselect p utxo pool) = true.
Proof. exact wselect_passes_vspend. Qed.
Print Assumptions worker_selection_passes_validator_spend_check.

(* Any body that names every outpoint once, and only existing ones, passes that check (what the
   harness monitor own-block/outpoint-spent-twice evaluates on the real block). *)
Theorem spend_once_body_passes_validator_spend_check :
  forall body utxo, NoDup (spent_by body) -> (forall x, In x (spent_by body) -> memN x utxo = true) ->
  vspend utxo body = true.
Proof. exact vspend_ok. Qed.
Print Assumptions spend_once_body_passes_validator_spend_check.

(* A clean-up that also releases the contested outpoint is refuted: with three pool transactions on
   one outpoint the worker selects two of them and the node rejects its own block (harness corpus
   chain qi-conflict-clusters replays this witness and its generalisations on the real worker). *)
Theorem release_of_contested_outpoint_refuted :
  exists utxo pool, vspend utxo (wselect ReleaseNamed utxo pool) = false
    /\ ~ NoDup (spent_by (wselect ReleaseNamed utxo pool)).
Proof. exact release_named_unsafe. Qed.
Print Assumptions release_of_contested_outpoint_refuted.

(* ... and it takes at least three: with two conflicting transactions that clean-up is harmless. *)
Theorem release_of_contested_outpoint_needs_three_conflicts :
  forall x r1 r2, vspend [x] (wselect ReleaseNamed [x] [mkP [x] r1; mkP [x] r2]) = true.
Proof. exact release_named_two_conflicts_harmless. Qed.
Print Assumptions release_of_contested_outpoint_needs_three_conflicts.

(* The CURRENT source is the KeepAll policy: env.deletedUtxos is created empty with the block
   environment, touched in processQiTx only, by a look-up that rejects followed by an insertion;
   nothing deletes from it, resets it or hands it to other code. *)
Theorem worker_reservation_set_is_insert_only : worker_reservation_insert_only = true.
Proof. vm_compute. reflexivity. Qed.
Print Assumptions worker_reservation_set_is_insert_only.

(* === third round: skipped pool transactions, minimum inclusion of the inbound ETX queue === *)

(* worker.commitTransaction with the snapshot / revert around ApplyTransaction: for ANY execution function
   (which may write to the state and then fail), ANY state and ANY pool content in ANY order, the worker's
   pending state after filling the block is exactly the state the validator reaches by re-executing the
   included transactions only, and none of them fails there. *)
Theorem worker_pending_state_is_reexecution_state :
  forall (S T : Type) (apply : S -> T -> S * bool) pool st,
  vexec S T apply st (snd (wfill S T apply Revert st pool)) = Some (fst (wfill S T apply Revert st pool)).
Proof. exact wfill_revert_vexec. Qed.
Print Assumptions worker_pending_state_is_reexecution_state.

(* the included list is a sub-list of the pool content (nothing is invented) *)
Theorem worker_includes_only_pool_transactions :
  forall (S T : Type) (apply : S -> T -> S * bool) p pool st, incl (snd (wfill S T apply p st pool)) pool.
Proof. exact wfill_included_sublist. Qed.
Print Assumptions worker_includes_only_pool_transactions.

(* without the revert the statement is false: buy gas, then fail on the value (state = (nonce, balance)) *)
Theorem skip_without_revert_refuted :
  exists (pool : list (N * N * N)) (st : N * N),
    vexec _ _ toy_apply st (snd (wfill _ _ toy_apply KeepEffects st pool))
    <> Some (fst (wfill _ _ toy_apply KeepEffects st pool)).
Proof. exact skip_without_revert_refuted_l. Qed.
Print Assumptions skip_without_revert_refuted.

(* … and invisible as long as no pool transaction fails in ApplyTransaction (why ordinary traffic and the
   existing tests do not see it) *)
Theorem skip_policies_agree_without_failures :
  forall (S T : Type) (apply : S -> T -> S * bool) pool st,
  (forall st' t, In t pool -> snd (apply st' t) = true) ->
  wfill S T apply KeepEffects st pool = wfill S T apply Revert st pool.
Proof. exact wfill_policies_agree_without_failures. Qed.
Print Assumptions skip_policies_agree_without_failures.

(* Process' range rule, gas regime, with the queue head probed after the block's pops: a block that includes
   the first k ETXs of the queue q passes iff it drains the queue or reaches the minimum, and stays below the
   maximum *)
Theorem accepted_block_drains_queue_or_reaches_minimum_gas :
  forall q k minG maxG, (k <= List.length q)%nat ->
  rule_gas AfterPops q k minG maxG = true ->
  (k = List.length q \/ minG <= gas_of q k) /\ gas_of q k <= maxG.
Proof. exact rule_gas_sound. Qed.
Print Assumptions accepted_block_drains_queue_or_reaches_minimum_gas.

Theorem block_draining_queue_or_reaching_minimum_gas_is_accepted :
  forall q k minG maxG, (k = List.length q \/ minG <= gas_of q k) -> gas_of q k <= maxG ->
  rule_gas AfterPops q k minG maxG = true.
Proof. exact rule_gas_complete. Qed.
Print Assumptions block_draining_queue_or_reaching_minimum_gas_is_accepted.

(* count regime (block number <= TimeToStartTx) *)
Theorem accepted_block_drains_queue_or_reaches_minimum_count :
  forall q k minC maxC, (k <= List.length q)%nat ->
  rule_count AfterPops q k minC maxC = true ->
  (k = List.length q \/ minC <= N.of_nat k) /\ N.of_nat k <= maxC.
Proof. exact rule_count_sound. Qed.
Print Assumptions accepted_block_drains_queue_or_reaches_minimum_count.

(* with the queue index read before the loop (the slot is deleted by the first pop) the lower bound is void
   for every block that pops at least one ETX, in both regimes; concrete: 1 of 4 queued ETXs *)
Theorem queue_probe_before_pops_refuted :
  exists q k minG maxG,
    (1 <= k < List.length q)%nat /\ gas_of q k < minG
    /\ rule_gas AfterPops q k minG maxG = false /\ rule_gas BeforePops q k minG maxG = true
    /\ rule_count AfterPops q k 50 100 = false /\ rule_count BeforePops q k 50 100 = true.
Proof. exact hoisted_probe_refuted_l. Qed.
Print Assumptions queue_probe_before_pops_refuted.

Theorem queue_probe_before_pops_accepts_any_nonempty_prefix :
  forall q k minG maxG minC maxC, (1 <= k)%nat -> gas_of q k <= maxG -> N.of_nat k <= maxC ->
  rule_gas BeforePops q k minG maxG = true /\ rule_count BeforePops q k minC maxC = true.
Proof. exact hoisted_probe_accepts_any_nonempty_prefix. Qed.
Print Assumptions queue_probe_before_pops_accepts_any_nonempty_prefix.

(* … while a block ignoring a non-empty queue altogether is rejected either way (why the simple negative
   test does not tell the two apart) *)
Theorem block_ignoring_nonempty_queue_rejected_under_both_probes :
  forall p q minG maxG minC maxC, q <> [] -> 0 < minG -> 0 < minC ->
  rule_gas p q 0 minG maxG = false /\ rule_count p q 0 minC maxC = false.
Proof. exact empty_block_rejected_under_both_probes. Qed.
Print Assumptions block_ignoring_nonempty_queue_rejected_under_both_probes.

(* generated from the current source: worker.commitTransaction takes a snapshot before ApplyTransaction and
   the error branch directly after the call reverts to that very snapshot before returning the error *)
Theorem worker_reverts_skipped_transaction : worker_skip_reverts = true.
Proof. vm_compute. reflexivity. Qed.
Print Assumptions worker_reverts_skipped_transaction.

(* generated from the current source: Process probes the queue head (GetOldestIndex, ReadETX) after the loop
   that pops the block's ETXs, directly before the two range rules, whose conditions are the reviewed ones *)
Theorem process_probes_queue_after_pops : queue_probed_after_pops = true.
Proof. vm_compute. reflexivity. Qed.
Print Assumptions process_probes_queue_after_pops.

(* === non-vacuity === *)

(* a concrete instance: transactions are numbers, the root of a list is its sum + length*1000,
   execution adds the transactions to the state and fails on a 0 transaction *)
Definition ex_root (l : list N) : N := fold_right N.add 0 l + 1000 * N.of_nat (List.length l).
Definition ex_exec (st : N) (h : N * N) (txs uncles : list N) : option (N * exec_out N) :=
  if existsb (N.eqb 0) txs then None
  else let s := st + fold_right N.add 0 txs in
       Some (s, mkX N (filter (fun t => 5 <? t) txs) (s + 1) (s + 2) (s + 3) (s + 4) (21000 * N.of_nat (List.length txs)) 7 s 11 (2 * s) 0).
Definition ex_validate := validate N N (N * N) N ex_root ex_root (fun _ _ _ => true) (fun _ => true) ex_exec.
Definition ex_block : block N N (N * N) :=
  match assemble N N (N * N) N ex_root ex_root ex_exec 100 (7, 1) [3; 9; 4] [] with
  | Some b => b
  | None => mkBlock N N (N * N) (0, 0) [] [] [] (mkC 0 0 0 0 0 0 0 0 0 0 0 0 0)
  end.

Example assembled_block_validates_nonvacuous :
  ex_validate 100 ex_block = Ok N 116 /\ b_etxs _ _ _ ex_block = [9] /\ c_gas_used (b_decl _ _ _ ex_block) = 63000.
Proof. vm_compute. repeat split; reflexivity. Qed.

Example single_mutation_rejected_nonvacuous :
  ex_validate 100 (with_decl N N (N * N) ex_block (set FGasUsed 63001 (b_decl _ _ _ ex_block))) = Err N VGas
  /\ ex_validate 100 (with_decl N N (N * N) ex_block (set FTotalFees 0 (b_decl _ _ _ ex_block))) = Err N VTotal
  /\ ex_validate 100 (with_decl N N (N * N) ex_block (set FEtxHash 5 (b_decl _ _ _ ex_block))) = Err N VEtxBody
  /\ ex_validate 100 (with_txs N N (N * N) ex_block [9; 3; 4]) = Ok N 116
  /\ ex_validate 100 (with_txs N N (N * N) ex_block [3; 9]) = Err N VTxRoot
  /\ ex_validate 100 (with_txs N N (N * N) ex_block [3; 9; 0; 4]) = Err N VTxRoot.
Proof. vm_compute. repeat split; reflexivity. Qed.

(* reordering [3;9;4] -> [9;3;4] collides under this toy root (sum): the collision disjunct of
   transaction_list_mutation_rejected is inhabited; with a re-derived root a dropped transaction is
   rejected by a recomputed commitment instead of the root *)
Example rerooted_drop_rejected_nonvacuous :
  ex_validate 100 (with_decl N N (N * N) (with_txs N N (N * N) ex_block [3; 9])
                     (set FTxRoot (ex_root [3; 9]) (b_decl _ _ _ ex_block))) = Err N VTotal.
Proof. vm_compute. reflexivity. Qed.

Example rejected_block_no_trace_nonvacuous :
  let d := mkDb N 100 [(0, 50)] 50 0 in
  let sch := set_current_header N N (N * N) N ex_root ex_exec (fun h c => 1 + fst h + c_evm_root c) fst snd in
  let bad := with_decl N N (N * N) (mkBlock N N (N * N) (50, 1) [3; 9; 4] [9] [] (b_decl _ _ _ ex_block)) (set FEvmRoot 1 (b_decl _ _ _ ex_block)) in
  let good := mkBlock N N (N * N) (50, 1) [3; 9; 4] [9] [] (b_decl _ _ _ ex_block) in
  sch d bad = (d, SErr VEvmRoot) /\ snd (sch d good) = SOk /\ d_canon _ (fst (sch d good)) = [(1, 169); (0, 50)].
Proof. vm_compute. repeat split; reflexivity. Qed.

(* the arbitration on a concrete pool: triple spend of 7, a partial overlap that keeps 9 reserved
   (the transaction naming 9 then 7 is rejected at 7; the later spend of 9 alone is then rejected
   too under KeepAll but selected under ReleaseOwn), an independent spend, a missing outpoint *)
Example worker_selection_nonvacuous :
  let pool := [mkP [7] true; mkP [7] true; mkP [9; 7] true; mkP [7] true; mkP [9] true; mkP [5] true; mkP [4] true; mkP [8] false; mkP [8] true] in
  map p_ins (wselect KeepAll [5; 7; 8; 9] pool) = [[7]; [5]]
  /\ map p_ins (wselect ReleaseOwn [5; 7; 8; 9] pool) = [[7]; [9]; [5]; [8]]
  /\ map p_ins (wselect ReleaseNamed [5; 7; 8; 9] pool) = [[7]; [9; 7]; [5]; [8]]
  /\ vspend [5; 7; 8; 9] (wselect KeepAll [5; 7; 8; 9] pool) = true
  /\ vspend [5; 7; 8; 9] (wselect ReleaseNamed [5; 7; 8; 9] pool) = false.
Proof. vm_compute. repeat split; reflexivity. Qed.

(* skipped transactions on a concrete pool: the second transaction can pay its gas but not its value after
   the first one; with the revert the pending state (1, 10) is what re-execution of [first] gives, without
   it the pending balance is 0 *)
Example worker_pending_state_nonvacuous :
  let pool := [(0, 10, 80); (1, 10, 50); (1, 5, 1)] in
  wfill _ _ toy_apply Revert (0, 100) pool = ((2, 4), [(0, 10, 80); (1, 5, 1)])
  /\ vexec _ _ toy_apply (0, 100) [(0, 10, 80); (1, 5, 1)] = Some (2, 4)
  /\ fst (wfill _ _ toy_apply KeepEffects (0, 100) pool) = (1, 0)
  /\ snd (wfill _ _ toy_apply KeepEffects (0, 100) pool) = [(0, 10, 80)].
Proof. vm_compute. repeat split; reflexivity. Qed.

Example minimum_inclusion_nonvacuous :
  rule_gas AfterPops [400000; 400000; 400000; 21000] 3 1000000 2000000 = true
  /\ rule_gas AfterPops [400000; 400000; 400000; 21000] 2 1000000 2000000 = false
  /\ rule_gas AfterPops [21000; 21000] 2 1000000 2000000 = true
  /\ rule_gas AfterPops [1500000; 600000] 2 1000000 2000000 = false.
Proof. vm_compute. repeat split; reflexivity. Qed.

(* C01 -- Qi ledger: each output spent at most once; no Qi created from nothing.
   Property theorems only: each is closed by [exact <lemma>] and followed by
   [Print Assumptions].  Model: Model/C01.v   Lemmas: Proofs/C01*.v
   A "view" is (database, write batch); view_ok v says the batch was made by
   db.NewBatch(); batch.SetPending(true) on a backend whose batch honours it (all of
   leveldb, pebble, memorydb, rawdb table since the F1 repair) -- StateProcessor.Process. *)
From Coq Require Import List NArith Bool.
From GQ Require Import Lib.Key Lib.SMap Generated.C01Params Model.C01 Proofs.C01_View Proofs.C01_Sim
     Proofs.C01_Steps Proofs.C01_Ledger Proofs.C01_Den Proofs.C01_Worker Proofs.C01_Worker2 Proofs.C01 Proofs.C01_Worker3 Proofs.C01_Pool Proofs.C01_Supply.
Import ListNotations.
Local Open Scope N_scope.

(* Side conditions on the constants generated from the repository (types.Denominations dense,
   positive, each dividing the next; MaxDenomination = last index; ETX type tags distinct). *)
Theorem qi_generated_params_ok :
  denoms_ok = true
  /\ (etx_conversion_type =? etx_default_type) = false /\ (etx_wrapping_qi_type =? etx_default_type) = false.
Proof. exact params_ok_all. Qed.
Print Assumptions qi_generated_params_ok.

(* The mechanism everything rests on: a batch with pending tracking answers GetUTXOWithBatch
   exactly as the database would after batch.Write(). *)
Theorem qi_tracking_view_reads_what_it_commits : forall v k,
  view_ok v -> v_get v k = get k (commit v).
Proof. exact v_get_commit. Qed.
Print Assumptions qi_tracking_view_reads_what_it_commits.

(* db.NewBatch(); SetPending(true) establishes the invariant and every accepted ProcessQiTx keeps it. *)
Theorem qi_tracking_invariant :
  (forall l : ledger, sorted l -> view_ok (view_of true l))
  /\ (forall c (b b' : bst (S:=view)) t r,
        view_ok (b_store b) -> process_qi view_store c b t = Ok (b', r) -> view_ok (b_store b')).
Proof. exact tracking_invariant. Qed.
Print Assumptions qi_tracking_invariant.

(* Conservation, every fork regime: value consumed (+ the value entered twice by a wrapped output
   before QiWrappingChangeBlock, where the output is both written to the UTXO set and carried by
   the wrapping ETX) = local outputs + value sent to other chains / converted / wrapped + fee.
   Also the supply counters: supplyRemoved - supplyAdded = value_of spent - value_of created. *)
Theorem qi_tx_conservation : forall c (b b' : bst (S:=view)) t r,
  view_ok (b_store b) -> process_qi view_store c b t = Ok (b', r) ->
  value_of (r_spent r) + double_entry c t = value_of (r_created r) + etxs_value (r_etxs r) + r_fee r.
Proof. exact conservation_view. Qed.
Print Assumptions qi_tx_conservation.

(* ... and exactly, from QiWrappingChangeBlock on. *)
Theorem qi_tx_conservation_exact_after_wrapping_fork : forall c (b b' : bst (S:=view)) t r,
  view_ok (b_store b) -> process_qi view_store c b t = Ok (b', r) -> qi_wrapping_change_block <= c_ptn c ->
  value_of (r_spent r) = value_of (r_created r) + etxs_value (r_etxs r) + r_fee r.
Proof. exact conservation_view_after_fork. Qed.
Print Assumptions qi_tx_conservation_exact_after_wrapping_fork.

(* Authorisation: every consumed entry is the one named by the input, owned by the address of the key
   the input carries (a Qi-ledger address), unlocked at this height, of a legal denomination; with
   checkSig the signature bit over exactly these keys is set.  (Schnorr/MuSig2 itself: abstract.) *)
Theorem qi_inputs_authorised : forall c (b b' : bst (S:=view)) t r,
  view_ok (b_store b) -> process_qi view_store c b t = Ok (b', r) ->
  Forall2 (in_ok c (t_checksig t)) (t_ins t) (r_spent r)
  /\ (t_checksig t = true -> t_sigok t = true) /\ t_ins t <> [].
Proof. exact authorised_view. Qed.
Print Assumptions qi_inputs_authorised.

(* Spent once inside one transaction: an accepted transaction names no outpoint twice and every
   outpoint it names is unspent in the view, with the right owner, before the transaction. *)
Theorem qi_spent_once_tx : forall c (b b' : bst (S:=view)) t r,
  view_ok (b_store b) -> process_qi view_store c b t = Ok (b', r) ->
  NoDup (map i_op (t_ins t))
  /\ Forall (fun i => exists u, v_get (b_store b) (i_op i) = Some u /\ u_owner u = i_pkaddr i /\ u_lock u <= c_height c) (t_ins t).
Proof. exact process_qi_view_nodup. Qed.
Print Assumptions qi_spent_once_tx.

(* Spent once across the transactions of a block (one shared batch): the accepted block is a strict
   run of its consume/create events from the ledger before to the ledger committed; between two
   consumptions of one outpoint lies a creation of it; every consumed outpoint was in the ledger
   before the block or was created earlier in the block. *)
Theorem qi_spent_once_block : forall (l : ledger) c txs rs l',
  sorted l -> run_block true l c txs = (rs, true, l') ->
  strict l (block_events rs) l' /\ no_double_consume (block_events rs) /\ consumed_existed l (block_events rs).
Proof. exact spent_once_block. Qed.
Print Assumptions qi_spent_once_block.

(* ... and across blocks, any chain of accepted and rejected blocks with a commit after each accepted one. *)
Theorem qi_spent_once_chain : forall (l : ledger) blocks, sorted l ->
  strict l (chain_events (run_chain true l blocks)) (final_ledger l (run_chain true l blocks))
  /\ no_double_consume (chain_events (run_chain true l blocks))
  /\ consumed_existed l (chain_events (run_chain true l blocks)).
Proof. exact spent_once_chain. Qed.
Print Assumptions qi_spent_once_chain.

(* Full statement "for every batch, tracking or not, an accepted block names no outpoint twice" is FALSE
   of the faithful model: without pending tracking (pebble / memorydb / table batches before the F1 repair,
   or any batch without SetPending(true)) one 1000-qit output named by both inputs of a transaction is
   accepted and 1500 qits of outputs are committed; the same block is rejected with tracking.
   The witness is replayed on the real code by the harness (corpus case F1-witness-untracked). *)
Theorem qi_spent_once_refuted_untracked :
  exists (l : ledger) c t rs l', sorted l /\ ~ NoDup (map i_op (t_ins t))
    /\ run_block false l c [t] = (rs, true, l') /\ value_of l < value_of l'
    /\ exists rs', run_block true l c [t] = (rs', false, l).
Proof. exact untracked_refuted. Qed.
Print Assumptions qi_spent_once_refuted_untracked.

(* Backend independence: with tracking, a block's verdict, per-transaction results and committed ledger
   depend only on the ledger -- they equal those of the flat reference ledger ... *)
Theorem qi_block_depends_only_on_ledger : forall (l : ledger) c txs,
  sorted l -> run_block true l c txs = run_block_ref l c txs.
Proof. exact run_block_tracked_ref. Qed.
Print Assumptions qi_block_depends_only_on_ledger.

(* ... so two batches in any state that would commit the same ledger are indistinguishable. *)
Theorem qi_backend_independent : forall c txs v1 v2,
  view_ok v1 -> view_ok v2 -> commit v1 = commit v2 ->
  fst (run_txs view_store c (init_bst c v1) txs) = fst (run_txs view_store c (init_bst c v2) txs)
  /\ match snd (run_txs view_store c (init_bst c v1) txs), snd (run_txs view_store c (init_bst c v2) txs) with
     | Some b1, Some b2 => commit (b_store b1) = commit (b_store b2)
     | None, None => True
     | _, _ => False
     end.
Proof. exact run_txs_views_agree. Qed.
Print Assumptions qi_backend_independent.

(* A rejected block commits nothing (any batch). *)
Theorem qi_rejected_block_changes_nothing : forall tr (l : ledger) c txs rs l',
  run_block tr l c txs = (rs, false, l') -> l' = l.
Proof. exact run_block_rejected. Qed.
Print Assumptions qi_rejected_block_changes_nothing.

(* CheckDenominations, exactly: while the input value fits 64 bits (MaxOutputIndex inputs of the largest
   denomination are far below), it accepts iff for every denomination d >= 1 the value of outputs of
   denomination >= d does not exceed the value of inputs of denomination >= d. *)
Theorem check_denominations_exact : forall ins outs, sum_den ins < two64 ->
  (check_denominations ins outs = true <->
   forall d, 1 <= d <= max_denomination -> vge d outs <= vge d ins).
Proof. exact check_denominations_iff. Qed.
Print Assumptions check_denominations_exact.

(* No merge-up: an accepted transaction that is not the first Qi transaction of its block moves no
   value to a higher denomination (outputs aggregated into a conversion/wrapping ETX are not counted,
   as in the code). *)
Theorem qi_no_merge_up : forall c (b b' : bst (S:=view)) t r,
  view_ok (b_store b) -> process_qi view_store c b t = Ok (b', r) -> b_first b = false ->
  value_of (r_spent r) < two64 ->
  forall d, 1 <= d <= max_denomination ->
    vge d (map o_den (filter (counted c t) (t_outs t))) <= vge d (map (fun ku => u_den (snd ku)) (r_spent r)).
Proof. exact no_merge_up_view. Qed.
Print Assumptions qi_no_merge_up.

(* Fee floor: the fee converted at the header's rate covers the intrinsic gas at the base fee. *)
Theorem qi_fee_floor : forall c (b b' : bst (S:=view)) t r,
  view_ok (b_store b) -> process_qi view_store c b t = Ok (b', r) ->
  t_intrinsic t * c_basefee c <= c_quai_reward c * r_fee r / c_qi_reward c.
Proof. exact fee_floor_view. Qed.
Print Assumptions qi_fee_floor.

(* Created records sit at tx.Hash() ++ index, index below the number of outputs, unlocked. *)
Theorem qi_created_outpoints : forall c (b b' : bst (S:=view)) t r,
  view_ok (b_store b) -> process_qi view_store c b t = Ok (b', r) ->
  Forall (created_by t 0 (len (t_outs t))) (r_created r).
Proof. exact created_view. Qed.
Print Assumptions qi_created_outpoints.

(* The pool's ValidateQiTxInputs establishes ownership of every input against the database. *)
Theorem pool_check_establishes_ownership : forall c l t, validate_inputs c l t = true ->
  pool_ok c l t
  /\ Forall (fun i => exists u, get (i_op i) l = Some u /\ u_owner u = i_pkaddr i /\ is_qi (i_pkaddr i) = true
                                /\ u_lock u <= c_height c /\ u_den u <= max_denomination) (t_ins t).
Proof. exact pool_establishes_ownership. Qed.
Print Assumptions pool_check_establishes_ownership.

(* A block the node assembles from its own pool: the transactions the worker accepts (explicit
   deletedUtxos set, committed database only, no key check, firstQiTx handling of commitTransactions),
   taken in order, are accepted as a block by ProcessQiTx on a tracking batch, with the same fee, ETXs,
   consumed and created outpoints -- provided each came through the pool's input check, its hash is new
   to the database, and its signature is not re-checked or is valid. *)
Theorem worker_block_accepted_qi : forall c (l : ledger) txs, sorted l ->
  Forall (fun t => pool_ok c l t /\ fresh l t /\ sig_fine t) txs ->
  exists rs l', run_block true l c (accepted_txs txs (fst (worker_txs c l true (init_wenv c) txs))) = (rs, true, l')
    /\ Forall2 res_agree (somes (fst (worker_txs c l true (init_wenv c) txs))) rs.
Proof. exact worker_block_accepted_view. Qed.
Print Assumptions worker_block_accepted_qi.

(* ... and, with NO hypothesis about the pool, keys or signatures: the pending block the worker assembles
   (any list of candidate transactions, any number of them conflicting, whatever is rejected in between and
   for whatever reason) names every outpoint at most once -- inside one transaction and across the included
   transactions -- and every outpoint it names is an unlocked record of the committed database.  It rests on
   env.deletedUtxos only ever growing inside one pending block: the model keeps the reservation of a
   rejected transaction, as worker.go does. *)
Theorem worker_block_spends_once : forall c (l : ledger) txs,
  NoDup (concat (map named (accepted_txs txs (fst (worker_txs c l true (init_wenv c) txs)))))
  /\ Forall (fun t => Forall (fun i => exists u, get (i_op i) l = Some u /\ u_lock u <= c_height c) (t_ins t))
            (accepted_txs txs (fst (worker_txs c l true (init_wenv c) txs))).
Proof. exact worker_block_spends_once_lemma. Qed.
Print Assumptions worker_block_spends_once.

(* ---- the pool's senders cache in the authorisation path (added after the third round of blind changes).
   StateProcessor.Process asks pool.senders for every Qi transaction of a block and calls ProcessQiTx with
   checkSig=false on a hit: a cache entry stands for "Schnorr/MuSig2 signature verified". *)

(* The cache is written only for admitted transactions, and the pool (addQiTxs / the re-injection after a
   reorganisation; output and fee rules abstract: any outs_ok) admits only transactions that pass
   ValidateQiTxInputs and whose signature bit is set: after ANY history of gossip phases -- each against its own
   head and ledger, any mixture of valid and forged transactions, copies, orders -- every cached hash is the
   hash of a seen transaction that is signed by the keys it carries. *)
Theorem qi_pool_cache_only_verified : forall outs_ok (hs : list (ctx * ledger * list tx)),
  forall h, In h (gossip_history outs_ok [] hs) ->
  exists t, In t (concat (map snd hs)) /\ t_hash t = h /\ t_sigok t = true.
Proof. exact cache_only_verified. Qed.
Print Assumptions qi_pool_cache_only_verified.

(* ... and each admission also established ownership of every input against the ledger of that phase. *)
Theorem qi_pool_admission_checks_owner_and_signature : forall outs_ok c l t,
  pool_admit outs_ok c l t = true -> validate_inputs c l t = true /\ t_sigok t = true.
Proof. exact pool_admit_facts. Qed.
Print Assumptions qi_pool_admission_checks_owner_and_signature.

(* A block processed behind a sound cache (checkSig derived from it as Process does): every transaction of an
   accepted block has inputs and is signed by the keys it carries -- or shares its hash with a different,
   signed transaction the pool saw (a collision of tx.Hash(), which covers the signature). *)
Theorem qi_authorised_behind_pool_cache : forall seen cache (l : ledger) c txs rs l',
  cache_sound seen cache -> run_block_via_pool cache l c txs = (rs, true, l') ->
  Forall (fun t => t_ins t <> [] /\ signed_or_collision seen t) txs.
Proof. exact via_pool_authorised. Qed.
Print Assumptions qi_authorised_behind_pool_cache.

(* End to end: whatever the pool saw before. *)
Theorem qi_authorised_whatever_the_pool_saw : forall outs_ok hs (l : ledger) c txs rs l',
  run_block_via_pool (gossip_history outs_ok [] hs) l c txs = (rs, true, l') ->
  Forall (fun t => t_ins t <> [] /\ signed_or_collision (concat (map snd hs)) t) txs.
Proof. exact authorised_whatever_pool_saw. Qed.
Print Assumptions qi_authorised_whatever_the_pool_saw.

(* The hypothesis cache_sound is necessary, not decoration: the same forged transaction (owner's public key,
   foreign signature) is rejected behind an empty cache and behind the cache any gossip history produces, and
   accepted -- the ledger changes -- behind a cache that holds its hash. *)
Theorem qi_unsound_cache_entry_admits_forged_refuted :
  run_block_via_pool [] w_ledger w_ctx [p_forged] = ([], false, w_ledger)
  /\ gossip_history (fun _ => true) [] [(w_ctx, w_ledger, [p_forged; x_tx1])] = [t_hash x_tx1]
  /\ run_block_via_pool [t_hash x_tx1] w_ledger w_ctx [p_forged] = ([], false, w_ledger)
  /\ (exists rs l', run_block_via_pool [t_hash x_tx1] w_ledger w_ctx [x_tx1] = (rs, true, l')
                    /\ map t_checksig (map (via_cache [t_hash x_tx1]) [x_tx1]) = [false])
  /\ exists rs l', run_block_via_pool [t_hash p_forged] w_ledger w_ctx [p_forged] = (rs, true, l')
                   /\ l' <> w_ledger.
Proof. exact forged_behind_cache. Qed.
Print Assumptions qi_unsound_cache_entry_admits_forged_refuted.

(* ---- block- and chain-level supply accounting (extension round): the statement's last clause, "Qi supply
   changes only through coinbase, conversion and trimming events", for the part of it that is the work of
   ProcessQiTx: processing Qi transactions never adds value to the 'ut' records. *)

(* rawdb.DeleteUTXO removes exactly the value of the record it finds; rawdb.CreateUTXO adds the value of the new
   record and drops the value of a record it overwrites (oval None = 0). *)
Theorem qi_create_delete_value : forall (l : ledger) k u,
  value_of (del k l) + oval (get k l) = value_of l
  /\ value_of (put k u l) + oval (get k l) = value_of l + uval u.
Proof. exact create_delete_value. Qed.
Print Assumptions qi_create_delete_value.

(* One accepted block on a tracking batch, every fork regime, EXACT: value of the records after the block + fees +
   value carried away by ETXs (other chains, conversion, wrapping) + value of records overwritten by a creation
   = value before + the pre-fork wrapping double entry. *)
Theorem qi_block_supply_exact : forall (l : ledger) c txs rs l', sorted l ->
  run_block true l c txs = (rs, true, l') ->
  value_of l' + block_outflow rs + overwritten l (block_events rs) = value_of l + block_dbl c txs.
Proof. exact block_supply. Qed.
Print Assumptions qi_block_supply_exact.

(* Any chain of blocks (accepted or rejected, each with its own header context), every fork regime: value held
   afterwards + everything that left <= value held before + the pre-fork double entries of the accepted blocks. *)
Theorem qi_chain_supply : forall blocks (l : ledger), sorted l ->
  value_of (final_ledger l (run_chain true l blocks)) + chain_outflow (run_chain true l blocks)
  <= value_of l + chain_dbl blocks (run_chain true l blocks).
Proof. exact chain_supply. Qed.
Print Assumptions qi_chain_supply.

(* From QiWrappingChangeBlock on, no hypothesis on the transactions: no sequence of blocks makes the ledger hold
   more than it held minus what it paid out -- no Qi from nothing, over all histories. *)
Theorem qi_chain_no_inflation_after_wrapping_fork : forall (l : ledger) blocks, sorted l ->
  Forall (fun b => qi_wrapping_change_block <= c_ptn (fst b)) blocks ->
  value_of (final_ledger l (run_chain true l blocks)) + chain_outflow (run_chain true l blocks) <= value_of l.
Proof. exact chain_no_inflation. Qed.
Print Assumptions qi_chain_no_inflation_after_wrapping_fork.

(* ... and the block the node assembles from its own pool balances in the same way when it is processed. *)
Theorem worker_block_supply_qi : forall c (l : ledger) txs, sorted l ->
  Forall (fun t => pool_ok c l t /\ fresh l t /\ sig_fine t) txs ->
  exists rs l', run_block true l c (accepted_txs txs (fst (worker_txs c l true (init_wenv c) txs))) = (rs, true, l')
    /\ value_of l' + block_outflow rs + overwritten l (block_events rs)
       = value_of l + block_dbl c (accepted_txs txs (fst (worker_txs c l true (init_wenv c) txs))).
Proof. exact worker_block_supply. Qed.
Print Assumptions worker_block_supply_qi.

(* ---- non-vacuity: concrete accepted / rejected instances of the hypotheses above *)

(* an accepted one-input transaction: 1000 -> 500 + 100, fee 400 *)
Example qi_accept_nonvacuous :
  exists rs l', run_block true w_ledger w_ctx [x_tx1] = (rs, true, l')
    /\ map r_fee rs = [400] /\ value_of l' = 600 /\ sorted w_ledger.
Proof. eexists; eexists. split; [vm_compute; reflexivity|]. split; [reflexivity|]. split; [reflexivity|]. apply sortedb_sorted; reflexivity. Qed.

(* two transactions of one block naming the same outpoint: rejected at the second, nothing committed *)
Example qi_block_double_spend_nonvacuous :
  exists rs, run_block true w_ledger w_ctx [x_tx1; x_tx2] = (rs, false, w_ledger) /\ length rs = 1%nat.
Proof. eexists. split; [vm_compute; reflexivity|reflexivity]. Qed.

(* an output created earlier in the block is spendable in the block (read through the batch) *)
Example qi_spend_created_in_block_nonvacuous :
  exists rs l', run_block true w_ledger w_ctx [x_tx1; x_tx3] = (rs, true, l') /\ length rs = 2%nat
    /\ run_block false w_ledger w_ctx [x_tx1; x_tx3] = ([hd (mkRes 0 [] 0 [] []) rs], false, w_ledger).
Proof. eexists; eexists. split; [vm_compute; reflexivity|]. split; [reflexivity|]. vm_compute. reflexivity. Qed.

(* merge-up is refused, splitting accepted *)
Example check_denominations_nonvacuous :
  check_denominations [5; 5; 5] [6] = false /\ check_denominations [6] [5; 5] = true
  /\ check_denominations [9] [8; 8] = true /\ check_denominations [8; 8; 8] [9] = false.
Proof. vm_compute. repeat split. Qed.

(* the worker accepts the first and refuses the second spender of one outpoint; hypotheses of
   worker_block_accepted_qi hold for both *)
Example worker_nonvacuous :
  map (fun o => match o with Some _ => true | None => false end)
      (fst (worker_txs w_ctx w_ledger true (init_wenv w_ctx) [x_tx1; x_tx2])) = [true; false]
  /\ validate_inputs w_ctx w_ledger x_tx1 = true /\ validate_inputs w_ctx w_ledger x_tx2 = true
  /\ fresh w_ledger x_tx1 /\ fresh w_ledger x_tx2.
Proof. split; [vm_compute; reflexivity|]. split; [vm_compute; reflexivity|]. split; [vm_compute; reflexivity|]. split; intros i; reflexivity. Qed.

(* three pool-valid spenders of one outpoint: the worker includes the first only (not the third) *)
Example worker_triple_spend_nonvacuous :
  map (fun o => match o with Some _ => true | None => false end)
      (fst (worker_txs w_ctx w_ledger true (init_wenv w_ctx) [x_tx1; x_tx2; x_tx2b])) = [true; false; false]
  /\ map (validate_inputs w_ctx w_ledger) [x_tx1; x_tx2; x_tx2b] = [true; true; true].
Proof. split; vm_compute; reflexivity. Qed.

(* ownership is per input: a key carried twice where the second occurrence names somebody else's record is
   refused by ProcessQiTx (signature bit set: the holder signed alone, validly; with and without checkSig)
   and by the pool check; the same transaction is accepted when both records are his *)
Example qi_repeated_key_nonvacuous :
  run_block true y_ledger_foreign w_ctx [y_tx true] = ([], false, y_ledger_foreign)
  /\ run_block true y_ledger_foreign w_ctx [y_tx false] = ([], false, y_ledger_foreign)
  /\ validate_inputs w_ctx y_ledger_foreign (y_tx true) = false
  /\ (exists rs l', run_block true y_ledger_own w_ctx [y_tx true] = (rs, true, l') /\ map r_fee rs = [500])
  /\ validate_inputs w_ctx y_ledger_own (y_tx true) = true.
Proof.
  split; [vm_compute; reflexivity|]. split; [vm_compute; reflexivity|]. split; [vm_compute; reflexivity|].
  split; [|vm_compute; reflexivity]. eexists; eexists. split; [vm_compute; reflexivity|reflexivity].
Qed.

(* the pool theorems' hypotheses are met by a real history: forged and valid twin gossiped, valid one cached,
   block with the valid one accepted behind that cache *)
Example qi_pool_cache_nonvacuous :
  pool_admit (fun _ => true) w_ctx w_ledger x_tx1 = true /\ pool_admit (fun _ => true) w_ctx w_ledger p_forged = false
  /\ cache_sound [p_forged; x_tx1] (gossip_history (fun _ => true) [] [(w_ctx, w_ledger, [p_forged; x_tx1])])
  /\ exists rs l', run_block_via_pool (gossip_history (fun _ => true) [] [(w_ctx, w_ledger, [p_forged; x_tx1])])
                                      w_ledger w_ctx [x_tx1] = (rs, true, l').
Proof.
  split; [vm_compute; reflexivity|]. split; [vm_compute; reflexivity|].
  split; [apply (cache_only_verified (fun _ => true) [(w_ctx, w_ledger, [p_forged; x_tx1])])|].
  eexists; eexists. vm_compute. reflexivity.
Qed.

(* supply accounting: 1000 before; 600 after + 400 fee, nothing overwritten; two blocks of a chain (the second one a
   rejected re-spend) leave 600 + 400 = 1000 *)
Example qi_supply_nonvacuous :
  (exists rs l', run_block true w_ledger w_ctx [x_tx1] = (rs, true, l')
     /\ value_of w_ledger = 1000 /\ value_of l' = 600 /\ block_outflow rs = 400
     /\ overwritten w_ledger (block_events rs) = 0 /\ block_dbl w_ctx [x_tx1] = 0)
  /\ (let os := run_chain true w_ledger [(w_ctx, [x_tx1]); (w_ctx, [x_tx2])] in
      value_of (final_ledger w_ledger os) = 600 /\ chain_outflow os = 400 /\ map (fun o => snd (fst o)) os = [true; false])
  /\ qi_wrapping_change_block <= c_ptn w_ctx.
Proof.
  split; [|split].
  - eexists; eexists. split; [vm_compute; reflexivity|]. repeat split; vm_compute; reflexivity.
  - vm_compute. repeat split; reflexivity.
  - vm_compute. discriminate.
Qed.

(* C14 — Encode/decode round trips preserve objects, bytes and identity.
   Property theorems only: each is closed by [exact <lemma>] and followed by
   [Print Assumptions].  Model: Model/C14.v, Lib/C14_{Varint,BigEndian,ProtoWire,RLP}.v
   Lemmas: Proofs/C14.v, Lib/C14_ProtoWireFacts.v.  Schemas: Generated/C14Schemas.v.
   Ownership inventories: Lib/C14_Sites.v, Proofs/C14_Sites.v, Generated/C14Sites.v. *)
From Coq Require Import List NArith Bool.
From GQ Require Import Lib.Key Lib.C14_Varint Lib.C14_BigEndian Lib.C14_ProtoWire Lib.C14_ProtoWireFacts
  Lib.C14_ProtoWireNF Lib.C14_RLP Generated.C14Schemas Model.C14 Proofs.C14
  Lib.C14_Sites Generated.C14Sites Proofs.C14_Sites Proofs.C14_Tx Proofs.C14_Tx2 Proofs.C14_Tx3.
Import ListNotations.
Local Open Scope N_scope.

(* ---- obligations on the generated schemas (a .proto edit re-checks these) ---- *)

(* every message of the four .proto files is inside the modelled fragment (uint32, uint64, bytes,
   message; optional / implicit / repeated; oneofs), field numbers are unique, positive, increasing in
   marshal order and below 2^29, nested references resolve *)
Theorem schemas_wf : schema_ok sc = true.
Proof. exact sc_ok. Qed.
Print Assumptions schemas_wf.

(* determinism: the only message with a map field (whose wire order Go does not fix) is
   ProtoTrimDepths, and no other message embeds it *)
Theorem schemas_no_maps :
  outside_fragment schemas = [id_block_ProtoTrimDepths] /\ refs_covered schemas = true.
Proof. split; [rewrite outside_is_listed; exact only_trim_depths_outside|exact refs_ok]. Qed.
Print Assumptions schemas_no_maps.

(* ---- ownership: obligations on the inventories generated from the source (Generated/C14Sites.v).
   The codec theorems below are about values; "the bytes obtained for A stay A's bytes" and "a decoded
   object is not changed by what happens to another decoded object" are about memory, and are checked
   dynamically by the retain / alias monitors of the harness and statically here. ---- *)

(* every function of core/types, core/rawdb, common, p2p/pb, rlp that takes a scratch value out of a
   sync.Pool keeps its bytes inside: none returns v.Bytes() of the pooled value (the encoding a caller
   holds is never recycled under it) *)
Theorem pooled_scratch_bytes_never_returned :
  forall s, In s C14Sites.pool_sites -> pool_escapes s = false.
Proof. exact pooled_bytes_stay_inside. Qed.
Print Assumptions pooled_scratch_bytes_never_returned.

(* full statement: no struct field is ever assigned a package-level *big.Int.
   Refuted on the current tree (finding alias/shared-between-decodes/QuaiTx.Value->common.Big0). *)
Theorem decoded_fields_never_share_globals_refuted :
  exists s, In s C14Sites.shared_stores /\ store_type s = ty_QuaiTx /\ store_field s = fd_Value.
Proof. exact some_field_shares_a_global. Qed.
Print Assumptions decoded_fields_never_share_globals_refuted.

(* ... and that one is the only one *)
Theorem shared_stores_reviewed_partial : stores_eqb C14Sites.shared_stores reviewed_stores = true.
Proof. exact stores_as_reviewed. Qed.
Print Assumptions shared_stores_reviewed_partial.

(* the methods that update a *big.Int field of their receiver in place are the reviewed ones *)
Theorem inplace_writers_reviewed : writers_eqb C14Sites.inplace_writers reviewed_writers = true.
Proof. exact writers_as_reviewed. Qed.
Print Assumptions inplace_writers_reviewed.

(* what keeps the shared store latent: no (type, field) is both handed a package-level integer and
   written in place *)
Theorem no_shared_integer_is_written_in_place :
  forall s w, In s C14Sites.shared_stores -> In w C14Sites.inplace_writers -> conflicts s w = false.
Proof. exact nothing_live. Qed.
Print Assumptions no_shared_integer_is_written_in_place.

(* ---- varint ---- *)
Theorem varint_roundtrip : forall n r, n < u64 -> C14_Varint.decode (C14_Varint.encode n ++ r) = Some (n, r).
Proof. exact C14_Varint.decode_encode. Qed.
Print Assumptions varint_roundtrip.

Theorem varint_injective : forall n n' r r', n < u64 -> n' < u64 ->
  C14_Varint.encode n ++ r = C14_Varint.encode n' ++ r' -> n = n' /\ r = r'.
Proof. exact C14_Varint.encode_prefix_inj. Qed.
Print Assumptions varint_injective.

(* the decoder accepts padded varints; the consumed prefix is the canonical one or strictly longer *)
Theorem varint_canonical : forall b n r c, wf_bytes b -> C14_Varint.decode b = Some (n, r) -> b = c ++ r ->
  c = C14_Varint.encode n \/ (length (C14_Varint.encode n) < length c)%nat.
Proof. exact C14_Varint.decode_minimal. Qed.
Print Assumptions varint_canonical.

(* ---- big.Int.Bytes / SetBytes ---- *)
Theorem bigint_bytes_roundtrip : forall n, be_dec (be_enc n) = n.
Proof. exact be_dec_enc. Qed.
Print Assumptions bigint_bytes_roundtrip.

Theorem bigint_bytes_canonical : forall b, wf_bytes b -> no_lead0 b -> be_enc (be_dec b) = b.
Proof. exact be_enc_dec. Qed.
Print Assumptions bigint_bytes_canonical.

(* ---- protobuf wire format, for every message type of the repository and any nesting depth ---- *)
Theorem proto_roundtrip : forall id m, wf_msg sc id m = true -> len (encode m) < u64 ->
  decode sc id (encode m) = Some m.
Proof. exact sc_roundtrip. Qed.
Print Assumptions proto_roundtrip.

Theorem proto_encode_injective : forall id m1 m2,
  wf_msg sc id m1 = true -> wf_msg sc id m2 = true -> len (encode m1) < u64 ->
  encode m1 = encode m2 -> m1 = m2.
Proof. exact sc_inj. Qed.
Print Assumptions proto_encode_injective.

(* canonical bytes re-encode to themselves (hence any hash of the bytes is stable across the round trip) *)
Theorem proto_reencode_canonical : forall id m' m, wf_msg sc id m' = true -> len (encode m') < u64 ->
  decode sc id (encode m') = Some m -> encode m = encode m'.
Proof. exact sc_reencode. Qed.
Print Assumptions proto_reencode_canonical.

(* the decoder (any field order, duplicates, padded varints, unknown fields) only returns normal forms *)
Theorem proto_decode_normal_form : forall id b m, wf_bytes b -> decode sc id b = Some m -> wf_msg sc id m = true.
Proof. exact sc_decode_wf. Qed.
Print Assumptions proto_decode_normal_form.

(* decode . encode . decode = decode: what was accepted re-encodes to canonical bytes of the same message *)
Theorem proto_decode_idempotent : forall id b m, wf_bytes b -> decode sc id b = Some m ->
  len (encode m) < u64 -> decode sc id (encode m) = Some m.
Proof. exact sc_decode_idempotent. Qed.
Print Assumptions proto_decode_idempotent.

(* encode (decode b) == b exactly for the canonical byte strings *)
Theorem proto_reencode_iff_canonical : forall id b m, wf_bytes b -> len b < u64 -> decode sc id b = Some m ->
  (encode m = b <-> exists m', wf_msg sc id m' = true /\ b = encode m').
Proof. exact sc_reencode_iff. Qed.
Print Assumptions proto_reencode_iff_canonical.

(* the generic theorem itself, for any schema that passes the check *)
Theorem proto_roundtrip_any_schema : forall s id m, schema_ok s = true -> wf_msg s id m = true ->
  len (encode m) < u64 -> decode s id (encode m) = Some m.
Proof. exact decode_encode. Qed.
Print Assumptions proto_roundtrip_any_schema.

(* ---- RLP ---- *)
Theorem rlp_roundtrip : forall t, wf_item t -> rlp_decode (rlp_encode t) = Some t.
Proof. exact C14_RLP.rlp_roundtrip. Qed.
Print Assumptions rlp_roundtrip.

Theorem rlp_canonical : forall b t, wf_bytes b -> rlp_decode b = Some t -> rlp_encode t = b.
Proof. exact C14_RLP.rlp_canonical. Qed.
Print Assumptions rlp_canonical.

Theorem rlp_injective : forall a b r r', wf_item a -> wf_item b ->
  rlp_encode a ++ r = rlp_encode b ++ r' -> a = b /\ r = r'.
Proof. exact rlp_encode_prefix_free. Qed.
Print Assumptions rlp_injective.

(* ---- Qi outputs: TxOut and UtxoEntry (same wire message ProtoTxOut) ---- *)
(* normal form: denomination < 256 (uint8), address bytes; a nil lock comes back as 0 *)
Theorem txout_roundtrip : forall o, txout_nf o -> len (encode (txout_encode o)) < u64 ->
  obj_decode id_block_ProtoTxOut txout_decode (encode (txout_encode o)) = DOk (txout_norm o).
Proof. exact txout_wire_roundtrip. Qed.
Print Assumptions txout_roundtrip.

Theorem utxo_roundtrip : forall o, txout_nf o -> len (encode (txout_encode o)) < u64 ->
  obj_decode id_block_ProtoTxOut utxo_decode (encode (txout_encode o)) = DOk (txout_norm o).
Proof. exact utxo_wire_roundtrip. Qed.
Print Assumptions utxo_roundtrip.

(* identity: the object read back encodes to the same tree, so to the same bytes and hash *)
Theorem txout_hash_stable : forall o, txout_encode (txout_norm o) = txout_encode o.
Proof. exact txout_reencode. Qed.
Print Assumptions txout_hash_stable.

Theorem txout_fields_injective : forall a b, to_denom a < 256 -> to_denom b < 256 ->
  txout_encode a = txout_encode b -> txout_norm a = txout_norm b.
Proof. exact Proofs.C14.txout_fields_injective. Qed.
Print Assumptions txout_fields_injective.

Theorem txout_rejects_wide_denomination : forall d rest, 255 < d -> txout_decode ((1, FInt d) :: rest) = DErr.
Proof. exact Proofs.C14.txout_rejects_wide_denomination. Qed.
Print Assumptions txout_rejects_wide_denomination.

(* ---- OutPoint ---- *)
Theorem outpoint_roundtrip : forall o, hash_nf (op_hash o) -> op_index o < 65536 ->
  len (encode (outpoint_encode o)) < u64 ->
  obj_decode id_block_ProtoOutPoint outpoint_decode (encode (outpoint_encode o)) = DOk o.
Proof. exact outpoint_wire_roundtrip. Qed.
Print Assumptions outpoint_roundtrip.

(* outside the normal form: uint32 on the wire, uint16 in the object, silently reduced mod 2^16 *)
Theorem outpoint_truncates : forall h i, outpoint_decode [(1, FMsg (hash_msg h)); (2, FInt i)] =
  DOk (mkOutPoint (hash_of_msg (hash_msg h)) (i mod 65536)).
Proof. exact Proofs.C14.outpoint_truncates. Qed.
Print Assumptions outpoint_truncates.

(* consequently two distinct well-formed wire messages decode to the same OutPoint
   (x == decode(encode x) holds, decode is not injective on the wire type) *)
Theorem outpoint_decode_not_injective_refuted :
  exists m1 m2, m1 <> m2 /\ wf_msg sc id_block_ProtoOutPoint m1 = true /\
                wf_msg sc id_block_ProtoOutPoint m2 = true /\ outpoint_decode m1 = outpoint_decode m2.
Proof. exact outpoint_decode_not_injective. Qed.
Print Assumptions outpoint_decode_not_injective_refuted.

(* ---- OutpointAndDenomination ---- *)
Theorem opd_roundtrip : forall o, length (od_hash o) = hash_len -> od_index o < 65536 -> od_denom o < 256 ->
  opd_decode (opd_encode o) = DOk (opd_norm o).
Proof. exact opd_tree_roundtrip. Qed.
Print Assumptions opd_roundtrip.

Theorem opd_truncates : forall h i d, opd_decode [(1, FMsg (hash_msg h)); (2, FInt i); (3, FInt d)] =
  DOk (mkOpd (hash_of_msg (hash_msg h)) (i mod 65536) (d mod 256) (Some 0)).
Proof. exact Proofs.C14.opd_truncates. Qed.
Print Assumptions opd_truncates.

(* ---- Termini ---- *)
(* normal form: both arrays have exactly MaxWidth 32-byte hashes (Termini.IsValid) *)
Theorem termini_roundtrip : forall t, termini_nf t -> termini_decode (termini_encode t) = DOk t.
Proof. exact termini_tree_roundtrip. Qed.
Print Assumptions termini_roundtrip.

(* outside it: shorter arrays are padded with zero hashes by the round trip *)
Theorem termini_pads : forall t,
  Forall (fun h => length h = hash_len) (t_dom t) -> Forall (fun h => length h = hash_len) (t_sub t) ->
  (length (t_dom t) <= max_width)%nat -> (length (t_sub t) <= max_width)%nat ->
  termini_decode (termini_encode t) = DOk (termini_padded t).
Proof. exact Proofs.C14.termini_pads. Qed.
Print Assumptions termini_pads.

(* ---- rawdb: UTXO keys and coinbase lockup records (fixed-width big-endian fields) ---- *)
Theorem utxokey_roundtrip : forall h i, length h = 32%nat -> i < 65536 ->
  reverse_utxo_key (utxo_key h i) = DOk (h, i).
Proof. exact utxo_key_roundtrip. Qed.
Print Assumptions utxokey_roundtrip.

Theorem utxokey_injective : forall h1 i1 h2 i2,
  length h1 = 32%nat -> length h2 = 32%nat -> i1 < 65536 -> i2 < 65536 ->
  utxo_key h1 i1 = utxo_key h2 i2 -> h1 = h2 /\ i1 = i2.
Proof. exact utxo_key_injective. Qed.
Print Assumptions utxokey_injective.

(* outside the normal form: ReverseUtxoKey checks the length only, any 2-byte prefix is accepted *)
Theorem utxokey_reverse_ignores_prefix : forall p1 p2 rest, length p1 = 2%nat -> length p2 = 2%nat ->
  reverse_utxo_key (p1 ++ rest) = reverse_utxo_key (p2 ++ rest).
Proof. exact reverse_utxo_key_ignores_prefix. Qed.
Print Assumptions utxokey_reverse_ignores_prefix.

(* normal form: amount < 2^256, uint32 height, uint16 elements, delegate absent or a non-zero 20-byte address *)
Theorem lockup_record_roundtrip : forall l, lockup_nf l ->
  exists b, lockup_encode l = DOk b /\ lockup_decode b = l /\
            length b = match lk_delegate l with Some _ => 58%nat | None => 38%nat end.
Proof. exact lockup_roundtrip. Qed.
Print Assumptions lockup_record_roundtrip.

Theorem lockup_rejects_wide_amount : forall l, 256 ^ 32 <= lk_amount l -> lockup_encode l = DErr.
Proof. exact Proofs.C14.lockup_rejects_wide_amount. Qed.
Print Assumptions lockup_rejects_wide_amount.

Theorem lockup_zero_delegate_dropped : forall a h e d, is_zero_bytes d = true ->
  lockup_encode (mkLockup a h e (Some d)) = lockup_encode (mkLockup a h e None).
Proof. exact Proofs.C14.lockup_zero_delegate_dropped. Qed.
Print Assumptions lockup_zero_delegate_dropped.

(* ---- Transaction.ProtoEncode / ProtoDecode, all three types, field by field (Model/C14.v section 3b) ---- *)
(* c, d: the curve operations on Qi public keys (compression 65 -> 33 on encode, decompression 33 -> 65 on
   decode), parameters of the model; tx_nf asks of them only that a key of the object compresses to 33 bytes
   that decompress back to it *)

(* generated obligation: the descriptor of ProtoTransaction the model was written against is the one the
   compiled package has now (22 fields: number, kind, explicit presence) *)
Theorem proto_transaction_descriptor : nth_error sc (N.to_nat id_block_ProtoTransaction) = Some txd.
Proof. exact tx_desc. Qed.
Print Assumptions proto_transaction_descriptor.

(* the encoding of every well-formed transaction exists, is a normal form of the generated schema (so every
   generic wire theorem applies to its bytes), and decodes to the same object (a nil TxOut lock reads back as 0) *)
Theorem tx_encoding_roundtrip : forall c d t, tx_nf c d t ->
  exists m, tx_encode c t = Some m /\ wf_msg sc id_block_ProtoTransaction m = true /\ tx_decode d m = DOk (tx_norm t).
Proof. exact tx_encodes. Qed.
Print Assumptions tx_encoding_roundtrip.

(* at the level of bytes: ProtoDecode(Unmarshal(Marshal(ProtoEncode t))) = t *)
Theorem tx_roundtrip : forall c d t, tx_nf c d t ->
  exists m, tx_encode c t = Some m /\
            (len (encode m) < u64 -> obj_decode id_block_ProtoTransaction (tx_decode d) (encode m) = DOk (tx_norm t)).
Proof. exact tx_wire_roundtrip. Qed.
Print Assumptions tx_roundtrip.

(* identity stability: re-encoding what came back gives the same tree, hence the same bytes and the same hash
   (Transaction.Hash is a hash of these bytes); holds for every transaction, well-formed or not *)
Theorem tx_hash_stable : forall c t, tx_encode c (tx_norm t) = tx_encode c t.
Proof. exact tx_reencode. Qed.
Print Assumptions tx_hash_stable.

(* two well-formed transactions with the same bytes are the same transaction: every field of every type is
   committed by the encoding -- in particular ParentHash, MixHash and WorkNonce independently of each other,
   the full width of a TxOut lock, the ETX sender / index / type *)
Theorem tx_identity_injective : forall c d t1 t2 m1 m2, tx_nf c d t1 -> tx_nf c d t2 ->
  tx_encode c t1 = Some m1 -> tx_encode c t2 = Some m2 -> len (encode m1) < u64 ->
  encode m1 = encode m2 -> tx_norm t1 = tx_norm t2.
Proof. exact Proofs.C14_Tx3.tx_identity_injective. Qed.
Print Assumptions tx_identity_injective.

(* the converse direction fails on the wire: "two distinct well-formed ProtoTransaction messages never decode to
   the same transaction" is refuted (ETX index narrowed uint32 -> uint16 silently; replayed on the real code by
   the harness mutation etx-index-width) *)
Theorem tx_decode_injective_refuted :
  exists m1 m2, m1 <> m2 /\ wf_msg sc id_block_ProtoTransaction m1 = true /\ wf_msg sc id_block_ProtoTransaction m2 = true /\
                tx_decode (fun _ => None) m1 = tx_decode (fun _ => None) m2 /\ tx_decode (fun _ => None) m1 <> DErr.
Proof. exact tx_decode_not_injective. Qed.
Print Assumptions tx_decode_injective_refuted.

(* access lists on their own *)
Theorem access_list_roundtrip : forall al, Forall at_nf al ->
  wf_msg sc id_block_ProtoAccessList (al_encode al) = true /\ al_decode (al_encode al) = al.
Proof. intros al H. split; [exact (al_wf al H)|exact (al_roundtrip al H)]. Qed.
Print Assumptions access_list_roundtrip.

(* ---- non-vacuity ---- *)
Example proto_roundtrip_nonvacuous :
  let m := [(1, FInt 2); (7, FBytes [1]); (15, FMsg [(1, FMsg [(1, FMsg [(1, FMsg [(1, FBytes (repeat 7 32))]); (2, FInt 65535)]); (2, FBytes (repeat 2 33))])]);
            (16, FMsg [(1, FMsg [(1, FInt 0); (2, FBytes (repeat 9 20)); (3, FBytes [])])]); (17, FBytes (repeat 1 64)); (6, FBytes [])] in
  wf_msg sc id_block_ProtoTransaction [(1, FInt 2); (6, FBytes []); (7, FBytes [1])] = true /\
  decode sc id_block_ProtoTransaction (encode [(1, FInt 2); (6, FBytes []); (7, FBytes [1])]) = Some [(1, FInt 2); (6, FBytes []); (7, FBytes [1])] /\
  wf_msg sc id_block_ProtoTransaction m = false.   (* out of marshal order: not a normal form *)
Proof. vm_compute. repeat split. Qed.

Example txout_roundtrip_nonvacuous :
  let o := mkTxOut 14 (Some (repeat 171 20)) None in
  txout_nf o /\ len (encode (txout_encode o)) < u64 /\
  encode (txout_encode o) = [8; 14; 18; 20] ++ repeat 171 20 ++ [26; 0].
Proof. split; [split; [reflexivity|repeat constructor]|split; reflexivity]. Qed.

Example outpoint_roundtrip_nonvacuous :
  let o := mkOutPoint (repeat 5 32) 65535 in
  hash_nf (op_hash o) /\ op_index o < 65536 /\
  obj_decode id_block_ProtoOutPoint outpoint_decode (encode (outpoint_encode o)) = DOk o.
Proof. split; [split; [reflexivity|repeat constructor]|split; [reflexivity|vm_compute; reflexivity]]. Qed.

Example termini_roundtrip_nonvacuous :
  termini_nf (mkTermini (repeat (repeat 1 32) 16) (repeat (repeat 2 32) 16)).
Proof. repeat split; repeat constructor. Qed.

Example rlp_roundtrip_nonvacuous :
  rlp_decode (rlp_encode (Lst [Str [1]; Str (repeat 200 60); Lst [Str []; Str [128]]])) =
  Some (Lst [Str [1]; Str (repeat 200 60); Lst [Str []; Str [128]]]).
Proof. vm_compute. reflexivity. Qed.

Example lockup_roundtrip_nonvacuous :
  let l := mkLockup (2 ^ 200 + 5) 1171500 365 (Some (repeat 9 20)) in
  lockup_nf l /\ (exists b, lockup_encode l = DOk b /\ length b = 58%nat /\ lockup_decode b = l).
Proof. split; [repeat split; vm_compute; reflexivity|eexists; vm_compute; repeat split]. Qed.

Example utxokey_roundtrip_nonvacuous :
  utxo_key (repeat 3 32) 513 = [117; 116] ++ repeat 3 32 ++ [2; 1].
Proof. vm_compute. reflexivity. Qed.


Example pool_sites_nonvacuous :
  existsb (fun s => String.eqb (pool_site_name s) site_tx_encode_rlp) C14Sites.pool_sites = true /\
  existsb (fun s => String.eqb (pool_site_name s) site_receipt_encode_rlp) C14Sites.pool_sites = true /\
  existsb (fun s => String.eqb (pool_site_name s) site_derive_sha) C14Sites.pool_sites = true.
Proof. vm_compute. repeat split. Qed.

(* the conflict test does fire on the shape of the blind change C14_2 (ExternalTx.Value := common.Big0) *)
Example conflicts_nonvacuous :
  live_shared [etx_value_store] C14Sites.inplace_writers <> [].
Proof. vm_compute. discriminate. Qed.

(* a Quai transaction carrying only a ParentHash (no WorkNonce) and the same transaction without work fields:
   both well-formed, different bytes (the shape of the blind change C14_4) *)
Example tx_work_fields_nonvacuous :
  let w0 := mkWork None None None in
  let w1 := mkWork (Some (repeat 7 32)) None None in
  let q w := mkQuai (Some (repeat 9 20)) 3 1000 21000 [1; 2] 9000 5 [mkAT (repeat 4 20) [repeat 6 32]] 0 0 0 w in
  tx_nf (fun _ => None) (fun _ => None) (TQuai (q w0)) /\ tx_nf (fun _ => None) (fun _ => None) (TQuai (q w1)) /\
  (exists m0 m1, tx_encode (fun _ => None) (TQuai (q w0)) = Some m0 /\ tx_encode (fun _ => None) (TQuai (q w1)) = Some m1 /\
                 encode m0 <> encode m1 /\
                 obj_decode id_block_ProtoTransaction (tx_decode (fun _ => None)) (encode m1) = DOk (TQuai (q w1))).
Proof.
  cbv zeta. split; [|split].
  - repeat split; try (vm_compute; reflexivity); try (left; repeat split); repeat constructor.
  - repeat split; try (vm_compute; reflexivity); try (left; repeat split); repeat constructor.
  - eexists. eexists. split; [reflexivity|]. split; [reflexivity|]. split; [vm_compute; discriminate|vm_compute; reflexivity].
Qed.

(* a Qi output lock above 2^64 is committed in full width (the shape of the blind change C14_3) *)
Example txout_wide_lock_nonvacuous :
  encode (txout_encode (mkTxOut 3 (Some (repeat 9 20)) (Some 0))) <>
  encode (txout_encode (mkTxOut 3 (Some (repeat 9 20)) (Some (2 ^ 64)))).
Proof. vm_compute. discriminate. Qed.

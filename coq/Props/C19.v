(* C19 -- The transaction pool stays internally consistent under any interleaving.
   Property theorems only: each is closed by [exact <lemma>] and followed by
   [Print Assumptions].  Model: Model/C19.v (sequential specification of TxPool at the
   granularity of quiescent points).  Lemmas: Proofs/C19*.v.

   Histories are lists of steps (operation, heartbeat order used by truncateQueue); the
   theorems hold for every heartbeat order, i.e. for every wall-clock schedule of the
   evictions. Interleavings of concurrent calls are serialised by pool.mu in the code;
   that the real pool behaves as SOME sequential history is observed by the harness,
   not proved (see design/C19.md). *)
From Coq Require Import List NArith Bool.
From GQ Require Import Model.C19 Proofs.C19_Lists Proofs.C19_Struct Proofs.C19_Ops Proofs.C19_Heap
  Proofs.C19_State Proofs.C19_Contig Proofs.C19_Limits Proofs.C19_QLimit Proofs.C19_Cache Proofs.C19_QPay Proofs.C19 Proofs.C19_Evict.
Import ListNotations.
Local Open Scope N_scope.

(* Every reachable state (any history of add batches, price changes, head events incl.
   reorganisations with re-injection, timer runs; any configuration; any genesis state)
   satisfies: per-account lists nonce-sorted and owned by the account; every pending
   transaction has a nonce >= the account's state nonce and a non-empty pending list
   holds the state nonce; every pending transaction is payable from the balance and
   fits the block gas limit; no nonce is both pending and queued; the hash index has no
   duplicates and holds exactly the transactions of the lists; every remote transaction
   of the index is in the price heaps; pendingNonces = last pending nonce + 1 (the state
   nonce when nothing is pending). *)
Theorem pool_invariant_reachable : forall c price_limit st h,
  pool_invariant (run_hist c (init price_limit st) h).
Proof. exact reachable_invariant. Qed.
Print Assumptions pool_invariant_reachable.

(* Inductive form: one step from ANY state satisfying the invariants (not only reachable ones). *)
Theorem pool_invariant_preserved : forall c p o qo,
  IWT p -> heap_ok p ->
  IWT (fst (step c p o qo)) /\ heap_ok (fst (step c p o qo)) /\ pool_invariant (fst (step c p o qo)).
Proof. exact preserved_lemma. Qed.
Print Assumptions pool_invariant_preserved.

(* Pending is nonce-contiguous from the state nonce, and pendingNonces = state nonce +
   number of pending transactions -- PARTIAL: along histories whose head events never
   lower an account's state nonce.  The full statement (all histories) is false, see
   pending_contiguous_refuted. *)
Theorem pending_contiguous_partial : forall c price_limit st h,
  monotone st h ->
  forall a, let p := run_hist c (init price_limit st) h in
  contig (st_nonce p a) (aget a (p_pend p)) /\ pn_get p a = st_nonce p a + len (aget a (p_pend p)).
Proof. exact contiguous_partial_lemma. Qed.
Print Assumptions pending_contiguous_partial.

(* A reorganisation that lowers the state nonce while one of the re-injected transactions
   is refused (here: below the pool's price limit) leaves pending = nonces [0; 2]. *)
Theorem pending_contiguous_refuted : exists c price_limit st h a,
  ~ contig (st_nonce (run_hist c (init price_limit st) h) a) (aget a (p_pend (run_hist c (init price_limit st) h))).
Proof. exact contiguity_refuted_lemma. Qed.
Print Assumptions pending_contiguous_refuted.

(* "affordable from its balance" is guaranteed per transaction ... *)
Theorem pending_affordable : forall c price_limit st h a t,
  let p := run_hist c (init price_limit st) h in
  In t (aget a (p_pend p)) -> cost t <= st_bal p a /\ t_gas t <= s_maxgas (p_st p).
Proof. exact affordable_lemma. Qed.
Print Assumptions pending_affordable.

(* ... not for the sum of an account's pending transactions (as in go-ethereum). *)
Theorem cumulative_affordability_refuted : exists c price_limit st h a,
  let p := run_hist c (init price_limit st) h in
  st_bal p a < fold_right (fun t s => cost t + s) 0 (aget a (p_pend p)).
Proof. exact cumulative_refuted_lemma. Qed.
Print Assumptions cumulative_affordability_refuted.

Theorem pending_queue_disjoint : forall c price_limit st h a x y,
  let p := run_hist c (init price_limit st) h in
  In x (aget a (p_pend p)) -> In y (aget a (p_queue p)) -> t_nonce x <> t_nonce y.
Proof. exact disjoint_lemma. Qed.
Print Assumptions pending_queue_disjoint.

Theorem hash_index_is_union_of_lists : forall c price_limit st h,
  let p := run_hist c (init price_limit st) h in
  NoDup (map fst (p_all p)) /\
  forall t, In t (map fst (p_all p)) <-> In t (aget (t_from t) (p_pend p)) \/ In t (aget (t_from t) (p_queue p)).
Proof. exact union_lemma. Qed.
Print Assumptions hash_index_is_union_of_lists.

Theorem price_index_covers_remotes : forall c price_limit st h t,
  let p := run_hist c (init price_limit st) h in In (t, false) (p_all p) -> In t (p_heap p).
Proof. exact priced_lemma. Qed.
Print Assumptions price_index_covers_remotes.

Theorem pending_nonce_is_next : forall c price_limit st h a,
  let p := run_hist c (init price_limit st) h in pn_get p a = last_next (st_nonce p a) (aget a (p_pend p)).
Proof. exact pnonce_lemma. Qed.
Print Assumptions pending_nonce_is_next.

(* An accepted same-nonce replacement carries the configured price bump (and a strictly
   higher price); the replaced transaction is gone from the hash index and both lists,
   the new one is indexed and listed. *)
Theorem replacement_requires_bump : forall c t loc p p',
  Inv0 p -> add c t loc p = (p', VOk, true) ->
  exists o, (In o (aget (t_from t) (p_pend p)) \/ In o (aget (t_from t) (p_queue p))) /\
    t_from o = t_from t /\ t_nonce o = t_nonce t /\ o <> t /\
    t_price o < t_price t /\ (100 + c_bump c) * t_price o / 100 <= t_price t /\
    ~ In o (map fst (p_all p')) /\ ~ In o (aget (t_from t) (p_pend p')) /\ ~ In o (aget (t_from t) (p_queue p')) /\
    In t (map fst (p_all p')) /\ (In t (aget (t_from t) (p_pend p')) \/ In t (aget (t_from t) (p_queue p'))).
Proof. exact replacement_rule. Qed.
Print Assumptions replacement_requires_bump.

(* Conversely a same-nonce transaction without the bump is refused and the pool is unchanged
   (VOverflow = the pool-full branch, outside the modelled domain). *)
Theorem underpriced_replacement_rejected : forall c t loc p o,
  Inv0 p -> In o (aget (t_from t) (p_pend p)) \/ In o (aget (t_from t) (p_queue p)) -> t_nonce o = t_nonce t ->
  t_price t <= t_price o \/ t_price t < (100 + c_bump c) * t_price o / 100 ->
  let '(p', v, r) := add c t loc p in (p' = p /\ v <> VOk /\ r = false) \/ v = VOverflow.
Proof. exact underpriced_replacement. Qed.
Print Assumptions underpriced_replacement_rejected.

(* Size limits inside the modelled domain: the hash index never exceeds
   GlobalSlots+GlobalQueue; promoteExecutables caps the queue of the processed account.
   (GlobalSlots after truncatePending: monitors only, see design/C19.md.) *)
Theorem index_size_limit : forall c price_limit st h,
  len (map fst (p_all (run_hist c (init price_limit st) h))) <= c_gslots c + c_gqueue c.
Proof. exact index_limit_lemma. Qed.
Print Assumptions index_size_limit.

Theorem account_queue_capped_by_promotion : forall c a p,
  len (aget a (p_queue (promote_one c a p))) <= N.max (c_aqueue c) 0 \/ aget a (p_queue p) = [].
Proof. exact promote_one_queue_cap. Qed.
Print Assumptions account_queue_capped_by_promotion.

(* truncateQueue re-establishes GlobalQueue on any reachable state, for EVERY eviction order
   that lists the accounts having queued transactions (the Go code builds the order from
   pool.queue itself and sorts it by heartbeat: the wall clock cannot break the bound). *)
Theorem queue_limit_after_truncation : forall c price_limit st h order,
  let p := run_hist c (init price_limit st) h in
  (forall b, aget b (p_queue p) <> [] -> In b order) ->
  atotal (p_queue (truncate_queue c order p)) <= c_gqueue c.
Proof. exact queue_limit_lemma. Qed.
Print Assumptions queue_limit_after_truncation.

(* The pool's chain state is the state of the last head event. *)
Theorem chain_state_follows_head : forall c p o qo,
  p_st (fst (step c p o qo)) = match o with OHead r => r_st r | _ => p_st p end.
Proof. exact step_st. Qed.
Print Assumptions chain_state_follows_head.

(* ---- the cached thresholds of txList (costcap / gascap) ----
   The pool model uses the plain nonce-sorted list; the real txList short-circuits Filter on
   two cached upper bounds.  cap_ok l: every transaction of the list costs <= costcap and uses
   <= gascap gas. *)

(* Under the cache invariant the short-circuiting Filter returns exactly what the plain
   Filter returns and leaves exactly the same list, and the invariant holds afterwards. *)
Theorem list_cache_filter_exact : forall strict bal maxgas l removed invalids l',
  cap_ok l -> cl_filter strict bal maxgas l = (removed, invalids, l') ->
  l_filter strict bal maxgas (cl_txs l) = (removed, invalids, cl_txs l') /\ cap_ok l'.
Proof. exact filter_step_lemma. Qed.
Print Assumptions list_cache_filter_exact.

(* Every operation of txList the pool uses (Add incl. same-nonce replacement, Filter, Forward,
   Remove, Cap, Ready; strict or not; any price bump) preserves the cache invariant, returns
   what the plain list returns and leaves the plain list's content. *)
Theorem list_cache_invariant_preserved : forall strict bump l o l' res,
  cap_ok l -> cl_step strict bump l o = (l', res) ->
  l_step strict bump (cl_txs l) o = (cl_txs l', res) /\ cap_ok l'.
Proof. exact cl_step_refines. Qed.
Print Assumptions list_cache_invariant_preserved.

(* Hence the cache is transparent on every list that evolves from newTxList: invariant, same
   content as the plain list after any operation sequence, same result of the next operation. *)
Theorem cached_list_transparent : forall strict bump ops o,
  let l := cl_run strict bump ops in
  cap_ok l /\ cl_txs l = l_run_ops strict bump ops /\
  snd (cl_step strict bump l o) = snd (l_step strict bump (cl_txs l) o) /\
  cl_txs (fst (cl_step strict bump l o)) = fst (l_step strict bump (cl_txs l) o) /\
  cap_ok (fst (cl_step strict bump l o)).
Proof. exact cached_list_transparent_lemma. Qed.
Print Assumptions cached_list_transparent.

(* What demoteUnexecutables / promoteExecutables rely on: after Filter(balance, gas limit) of
   any such list every remaining transaction is payable and within the gas limit. *)
Theorem filtered_list_payable : forall strict bump ops bal maxgas removed invalids l',
  cl_filter strict bal maxgas (cl_run strict bump ops) = (removed, invalids, l') ->
  forall t, In t (cl_txs l') -> cost t <= bal /\ t_gas t <= maxgas.
Proof. exact reachable_filter_sound_lemma. Qed.
Print Assumptions filtered_list_payable.

(* The invariant is necessary: on a list whose cost threshold was not raised by a more
   expensive replacement, Filter keeps a transaction the balance cannot pay. *)
Theorem stale_cache_filter_unsound :
  cap_okb stale_cap_witness = false /\
  exists strict bal maxgas removed invalids l' t,
    cl_filter strict bal maxgas stale_cap_witness = (removed, invalids, l') /\ In t (cl_txs l') /\ bal < cost t.
Proof. exact stale_cap_unsound_lemma. Qed.
Print Assumptions stale_cache_filter_unsound.

(* Every transaction the pool holds -- queued as well as pending -- is payable from its
   sender's balance and within the block gas limit, in every reachable state (validateTx on
   entry; on a head event promoteExecutables filters every queue and demoteUnexecutables
   re-queues only what passed its filter). *)
Theorem pooled_transactions_payable : forall c price_limit st h a t,
  let p := run_hist c (init price_limit st) h in
  In t (aget a (p_pend p)) \/ In t (aget a (p_queue p)) ->
  cost t <= st_bal p a /\ t_gas t <= s_maxgas (p_st p).
Proof. exact reachable_lists_payable. Qed.
Print Assumptions pooled_transactions_payable.

(* Inductive form: from any state satisfying the invariants in which every indexed
   transaction is payable, one step leads to such a state. *)
Theorem pooled_payable_preserved : forall c p o qo,
  IWT p /\ all_pay p -> IWT (fst (step c p o qo)) /\ all_pay (fst (step c p o qo)).
Proof. exact lists_payable_preserved. Qed.
Print Assumptions pooled_payable_preserved.

(* ---------- lifetime eviction (tx_pool.go:loop, case <-evict.C) ---------- *)
(* Histories extended by eviction ticks (run_xhist: every step is an operation of the
   histories above or a tick evicting ANY set of queue accounts and ANY set of pending
   accounts -- which ones have expired is wall clock): every reachable state satisfies the
   pool invariant, every pending and queued transaction is payable and within the block gas
   limit, and the hash index holds at most GlobalSlots+GlobalQueue transactions. *)
Theorem pool_invariant_with_evictions : forall c price_limit st h,
  let p := run_xhist c (init price_limit st) h in
  pool_invariant p /\
  (forall a t, In t (aget a (p_pend p)) \/ In t (aget a (p_queue p)) -> cost t <= st_bal p a /\ t_gas t <= s_maxgas (p_st p)) /\
  len (map fst (p_all p)) <= c_gslots c + c_gqueue c.
Proof. exact xreachable_invariant. Qed.
Print Assumptions pool_invariant_with_evictions.

(* Inductive form: an eviction tick from ANY state satisfying the invariants (any expired
   sets) leads to such a state, and never grows the hash index.  No reorg run follows a
   tick in the code: pendingNonces = last pending + 1 holds right after it although a single
   removeTx does not preserve that clause (the whole list is removed). *)
Theorem eviction_preserves_invariant : forall c qexp pexp p,
  IWT p -> heap_ok p -> all_pay p ->
  let p' := evict_tick c qexp pexp p in
  IWT p' /\ heap_ok p' /\ all_pay p' /\ pool_invariant p' /\ len (map fst (p_all p')) <= len (map fst (p_all p)).
Proof. exact evict_tick_preserved. Qed.
Print Assumptions eviction_preserves_invariant.

(* Exact effect of evicting the pending list of account a: the list is gone, every other
   pending list and every other account's pendingNonces are unchanged, EVERY queue --
   including a's own, through which the invalidated followers pass -- is unchanged, the
   hash index loses exactly the evicted transactions, the chain state is unchanged. *)
Theorem evict_pending_exact : forall c a p, Inv0 p ->
  aget a (p_pend (evict_pending c a p)) = [] /\
  (forall b, b <> a -> aget b (p_pend (evict_pending c a p)) = aget b (p_pend p) /\ pn_get (evict_pending c a p) b = pn_get p b) /\
  (forall b, aget b (p_queue (evict_pending c a p)) = aget b (p_queue p)) /\
  (forall x, in_all x (evict_pending c a p) <-> in_all x p /\ ~ In x (aget a (p_pend p))) /\
  p_st (evict_pending c a p) = p_st p.
Proof. exact evict_pending_spec. Qed.
Print Assumptions evict_pending_exact.

(* Exact effect of evicting the queue of account a: that queue is gone, every other queue,
   the whole pending map, pendingNonces and the chain state are unchanged, the hash index
   loses exactly the evicted transactions. *)
Theorem evict_queue_exact : forall c a p, Inv0 p ->
  aget a (p_queue (evict_queue c a p)) = [] /\
  (forall b, b <> a -> aget b (p_queue (evict_queue c a p)) = aget b (p_queue p)) /\
  p_pend (evict_queue c a p) = p_pend p /\ p_pn (evict_queue c a p) = p_pn p /\
  p_st (evict_queue c a p) = p_st p /\
  (forall x, in_all x (evict_queue c a p) <-> in_all x p /\ ~ In x (aget a (p_queue p))).
Proof. exact evict_queue_spec. Qed.
Print Assumptions evict_queue_exact.

(* removeTx removes exactly its transaction from the hash index (any state with the
   structural invariant; outofbound or not). *)
Theorem remove_tx_removes_exactly : forall c t ob p x, Inv0 p ->
  (in_all x (remove_tx c t ob p) <-> in_all x p /\ x <> t).
Proof. exact remove_tx_in_all. Qed.
Print Assumptions remove_tx_removes_exactly.

(* non-vacuity *)
Example pool_state_nonvacuous :
  map t_nonce (aget 0 (p_pend nv_pool)) = [0; 1] /\ map t_nonce (aget 0 (p_queue nv_pool)) = [3]
  /\ map t_nonce (aget 1 (p_queue nv_pool)) = [2] /\ pn_get nv_pool 0 = 2 /\ len (map fst (p_all nv_pool)) = 4.
Proof. exact nv_state. Qed.
Example replacement_nonvacuous :
  snd (add w_cfg (T 0 1 11 21000 0) false nv_pool) = true
  /\ snd (fst (add w_cfg (T 0 1 11 21000 0) false nv_pool)) = VOk
  /\ snd (fst (add w_cfg (T 0 3 10 21000 5) false nv_pool)) = VReplaceUnderpriced.
Proof. exact nv_replacement. Qed.
Example monotone_history_nonvacuous :
  monotone nv_st [(OAdd false [w_A], []); (OHead (Reset w_st2 [] [w_A; w_B]), []); (OTick, [])].
Proof. exact nv_monotone. Qed.
Example queue_truncation_nonvacuous :
  let c := Cfg 10 16 64 16 2 in
  let p := fst (fst (add_txs c [T 0 1 5 21000 0; T 0 2 5 21000 0; T 1 3 5 21000 0; T 1 4 5 21000 0; T 2 9 5 21000 0] false
                     (init 1 (St [] [(0,1000000000);(1,1000000000);(2,1000000000)] 1 5000000)))) in
  atotal (p_queue p) = 5 /\ atotal (p_queue (truncate_queue c [2;1;0] p)) = 2 /\ atotal (p_queue (truncate_queue c [0;1;2] p)) = 2.
Proof. exact queue_limit_nonvacuous. Qed.
Example gap_witness_nonvacuous :
  map t_nonce (aget 0 (p_pend (run_hist w_cfg (init 5 w_st0) w_gap_history))) = [0; 2].
Proof. exact gap_witness. Qed.
Example list_cache_nonvacuous :
  cl_run true 10 cache_history = CL [T 0 0 10 21000 4000000; T 0 1 20 21000 6000000] 6420000 21000
  /\ cap_okb (cl_run true 10 cache_history) = true
  /\ cl_filter true 5790000 5000000 (cl_run true 10 cache_history)
     = ([T 0 1 20 21000 6000000], [], CL [T 0 0 10 21000 4000000] 5790000 5000000)
  /\ cl_filter true 6420000 5000000 (cl_run true 10 cache_history) = ([], [], cl_run true 10 cache_history).
Proof. exact cache_nonvacuous_lemma. Qed.
Example queued_payable_nonvacuous :
  aget 0 (p_queue (run_hist qp_cfg (init 1 (St [] [(0,10000000)] 1 5000000)) (qp_hist 420500))) = [T 0 2 10 21000 1000; T 0 3 20 21000 500]
  /\ aget 0 (p_queue (run_hist qp_cfg (init 1 (St [] [(0,10000000)] 1 5000000)) (qp_hist 420499))) = [T 0 2 10 21000 1000].
Proof. exact qp_nonvacuous_lemma. Qed.
Example eviction_nonvacuous :
  let p1 := evict_tick w_cfg [] [0] nv_pool in
  let p2 := evict_tick w_cfg [1] [] nv_pool in
  aget 0 (p_pend nv_pool) <> [] /\ aget 0 (p_pend p1) = [] /\ map t_nonce (aget 0 (p_queue p1)) = [3] /\ pn_get p1 0 = 0 /\
  len (map fst (p_all p1)) = 2 /\ aget 1 (p_queue p2) = [] /\ map t_nonce (aget 0 (p_pend p2)) = [0; 1] /\ len (map fst (p_all p2)) = 3.
Proof. exact nv_evict. Qed.

(* C11 — A crash at any point leaves a database the node can restart and continue from.
   Property theorems only: each is closed by [exact <lemma>] and followed by [Print Assumptions].
   Model: Model/C11.v   Lemmas: Proofs/C11.v   Generated call order: Generated/C11Gen.v

   Trusted, stated explicitly: a batch commit is atomic (and durable) inside leveldb/pebble and
   there are no torn writes below the engine — [crash] cuts the write sequence only between
   top-level operations (first theorem).

   Vocabulary: [Good d bs] = the node restarted on database d reports the tip of chain bs as its
   head, the flat UTXO/lockup key space is exactly the content implied by bs, and the state
   (tries, multiset, undo records) of every block of bs is present.  A script is any sequence of
   store / forward (append) / rollback steps, i.e. appends of whole chains and reorgs. *)
From Coq Require Import List NArith Bool Arith PeanoNat.
From GQ Require Import Model.C11 Generated.C11Gen Proofs.C11.
Import ListNotations.
Local Open Scope N_scope.

(* The crash model: the surviving image is the replay of a prefix of the top-level writes;
   a batch is never split (assumption about the engines, made visible here). *)
Theorem crash_cuts_between_top_level_writes : forall k ws d,
  crash k ws d = apply_all (firstn k ws) d.
Proof. exact (fun k ws d => eq_refl). Qed.
Print Assumptions crash_cuts_between_top_level_writes.

(* Rollback: the batch carries undo + head + canonical together, so every crash point inside a
   rollback step leaves either the old or the new consistent state. *)
Theorem crash_safe_rollback_step : forall d bs b pnum k,
  Good d (bs ++ [b]) -> valid_eff (content bs) b ->
  Good (crash k (back_writes b (last_id bs) pnum) d) (if (k =? 0)%nat then bs ++ [b] else bs).
Proof. exact back_crash. Qed.
Print Assumptions crash_safe_rollback_step.

(* The undo the rollback loop performs (recreate spent, delete created) restores the flat space
   of every valid block. *)
Theorem rollback_undo_restores_flat : forall f b, valid_eff f b ->
  forall u, undo_block (apply_block f b) b u = f u.
Proof. exact undo_apply. Qed.
Print Assumptions rollback_undo_restores_flat.

(* FULL STATEMENT (crash_safe_append): for all k, the image after the first k writes of an append
   is Good for the parent chain or for the extended chain.  It is FALSE for the code as it is:
   concrete witness at "block batch committed, head hash not yet written". *)
Theorem crash_safe_append_refuted :
  exists d bs b k, Good d bs /\ valid_next bs b
    /\ ~ (Good (crash k (script_writes false (append_script b)) d) bs
          \/ Good (crash k (script_writes false (append_script b)) d) (bs ++ [b])).
Proof. exact refuted_lemma. Qed.
Print Assumptions crash_safe_append_refuted.

(* Strongest true statement for the current write order: every crash point except the one between
   the block batch (write 10 of 11) and the head put is safe. *)
Theorem crash_safe_append_partial : forall d bs b k,
  Good d bs -> valid_next bs b -> k <> 10%nat ->
  Good (crash k (script_writes false (append_script b)) d) bs
  \/ Good (crash k (script_writes false (append_script b)) d) (bs ++ [b]).
Proof.
  exact (fun d bs b k G V Hk => append_crash_partial false d bs b k G V
           (eq_trans (windowb_append b k) (proj2 (PeanoNat.Nat.eqb_neq k 10) Hk))).
Qed.
Print Assumptions crash_safe_append_partial.

(* Whole histories (appends of chains, reorgs = rollbacks then forwards), any crash point outside
   the windows: the image is Good for one of the chains the script passes through.
   Stated for the write order of the tree under check (generated flag). *)
Theorem crash_safe_script_partial : forall ss d bs k,
  Good d bs -> script_ok bs ss -> windowb head_in_batch ss k = false ->
  exists bs', In bs' (chains bs ss) /\ Good (crash k (script_writes head_in_batch ss) d) bs'.
Proof. exact (script_crash head_in_batch). Qed.
Print Assumptions crash_safe_script_partial.

(* What the window looks like: head = parent, flat space = child's content, child's state present. *)
Theorem crash_window_state : forall d bs b,
  Good d bs ->
  AfterBatch false (crash 10 (script_writes false (append_script b)) d) bs b.
Proof. exact window_state. Qed.
Print Assumptions crash_window_state.

(* ... which is consistent with the reported head iff the block does not change the flat space
   (blocks without Qi activity are insensitive). *)
Theorem crash_window_consistent_iff_no_flat_effect : forall d bs b,
  AfterBatch false d bs b -> (Good d bs <-> forall u, content (bs ++ [b]) u = content bs u).
Proof. exact window_consistent_iff. Qed.
Print Assumptions crash_window_consistent_iff_no_flat_effect.

(* Consequence 1: after restart the interrupted block is rejected (it spends entries that its own
   committed batch already deleted); the node stays at the parent. *)
Theorem crash_window_redo_rejected : forall d bs b u v,
  AfterBatch false d bs b -> In (u, v) (bspent b) -> memk u (bcreated b) = false ->
  check (apply_all (fwd_pre b) (apply_all (store_writes b) d)) b = false
  /\ head_id (exec false d (append_script b)) = last_id bs.
Proof. exact window_redo_rejected. Qed.
Print Assumptions crash_window_redo_rejected.

(* Consequence 2: so is every other child of that parent that spends one of the same entries. *)
Theorem crash_window_conflicting_sibling_rejected : forall d bs b s u v w,
  AfterBatch false d bs b -> In (u, v) (bspent s) -> memk u (bcreated s) = false -> In (u, w) (bspent b) ->
  head_id (exec false d (append_script s)) = last_id bs.
Proof. exact window_conflicting_sibling_rejected. Qed.
Print Assumptions crash_window_conflicting_sibling_rejected.

(* Repair: with the head hash inside the block batch there is no unsafe crash point at all —
   the full statement holds for every script (chains and reorgs). *)
Theorem crash_safe_script_fixed : forall ss d bs k,
  Good d bs -> script_ok bs ss ->
  exists bs', In bs' (chains bs ss) /\ Good (crash k (script_writes true ss) d) bs'.
Proof. exact (fun ss d bs k G Hok => script_crash true ss d bs k G Hok (windowb_fixed ss k)). Qed.
Print Assumptions crash_safe_script_fixed.

(* No double application: after a crash at any point before the block batch, restarting and
   appending the interrupted block again ends in exactly the state of an uninterrupted append
   (effects applied once). *)
Theorem no_double_apply : forall hib d bs b k,
  Good d bs -> valid_next bs b -> (k <= 9)%nat ->
  Good (exec hib (crash k (script_writes hib (append_script b)) d) (append_script b)) (bs ++ [b]).
Proof. exact no_double_apply_lemma. Qed.
Print Assumptions no_double_apply.

(* Uninterrupted scripts end Good, and on Good states the code's checks (parent state present,
   inputs present) pass, i.e. executing = replaying the write list. *)
Theorem script_complete_good : forall hib ss d bs,
  Good d bs -> script_ok bs ss -> Good (apply_all (script_writes hib ss) d) (chain_end bs ss).
Proof. exact script_complete. Qed.
Print Assumptions script_complete_good.

Theorem exec_refines_writes : forall hib ss d bs,
  Good d bs -> script_ok bs ss -> exec hib d ss = apply_all (script_writes hib ss) d.
Proof. exact exec_apply. Qed.
Print Assumptions exec_refines_writes.

(* Restart (loadLastState) starts from the stored head block hash (first call site, generated)
   and consults only that key; the ProcessedState marker written by the block batch has no
   reader in the tree under check (generated count). *)
Theorem restart_reads_only_head_key :
  hd 0 load_calls = 40 /\ processed_state_read_sites = 0
  /\ forall d d', d KHead = d' KHead -> head_id d = head_id d'.
Proof. exact restart_lemma. Qed.
Print Assumptions restart_reads_only_head_key.

(* Static tie: the ORDER of the write call sites read from the source (generated) is the order
   of the model's write sequences, for the extension branch, the roll-forward loop and the
   rollback loop (one batch with head + canonical + undo, a single Write). *)
Theorem static_order_extension : forall b,
  static_fwd_classes ext_calls = map class_of (fwd_writes head_in_batch b).
Proof. exact static_ext_lemma. Qed.
Print Assumptions static_order_extension.

Theorem static_order_roll_forward : forall b,
  static_fwd_classes forward_calls = map class_of (fwd_writes head_in_batch b).
Proof. exact static_fwd_lemma. Qed.
Print Assumptions static_order_roll_forward.

Theorem static_rollback_is_one_batch :
  rollback_atomic = true /\ forall b pid pnum, map class_of (back_writes b pid pnum) = [CBatchRollback].
Proof. exact static_rollback_lemma. Qed.
Print Assumptions static_rollback_is_one_batch.

(* One commit per block (the predicate of the harness' structural write-log monitor, on the model):
   in any script the keys a block owns in the unversioned part of the database (flat UTXO/lockup
   entries, undo records, multiset, set size, processed marker) are written by batch commits only,
   each either the block batch of a forwarded block or the rollback batch of a rolled-back block,
   exactly one per such step. A size-triggered early flush of the block batch, or a direct write of
   such a key, is a top-level write outside this shape. *)
Theorem owned_keys_only_in_block_and_rollback_batches : forall hib ss,
  (forall w, In w (script_writes hib ss) -> touches_owned w = true ->
             is_block_batch w = true \/ is_rollback_batch w = true)
  /\ length (filter is_block_batch (script_writes hib ss)) = length (filter is_fwd_step ss)
  /\ length (filter is_rollback_batch (script_writes hib ss)) = length (filter is_back_step ss).
Proof. exact (fun hib ss => conj (owned_script hib ss) (owned_count hib ss)). Qed.
Print Assumptions owned_keys_only_in_block_and_rollback_batches.

(* Static tie for it (generated from the AST on every run): none of the functions the block batch is
   handed to (every function of core/ with an ethdb.Batch parameter, every function of core/vm, the
   EVM.Batch field) calls Write / Reset / Replay on it, none of them passes another destination to
   a rawdb writer, BodyDb.Append creates one batch and commits it once, after Apply; and the model's
   append touches the owned keys in exactly one top-level write, the block batch. *)
Theorem static_block_batch_committed_once :
  static_single_commit = true
  /\ forall hib b, filter touches_owned (store_writes b ++ fwd_writes hib b) = [WBatch (block_batch hib b)].
Proof. exact static_single_commit_lemma. Qed.
Print Assumptions static_block_batch_committed_once.

(* ---- non-vacuity ---- *)
(* a concrete Good database with a UTXO, a valid child spending it, and the witness behaviour *)
Example good_nonvacuous : Good wd1 [wb1] /\ valid_next [wb1] wb2.
Proof. exact (conj wd1_good wb2_valid). Qed.

Example window_witness_nonvacuous :
  head_id (exec false (crash 10 (script_writes false (append_script wb2)) wd1) (append_script wb2)) = 1
  /\ head_id (apply_all (script_writes false (append_script wb2)) wd1) = 2.
Proof. exact witness_stuck. Qed.

Example fixed_witness_nonvacuous :
  Good (crash 10 (script_writes true (append_script wb2)) wd1) ([wb1] ++ [wb2]).
Proof. exact witness_fixed. Qed.

(* a concrete valid reorg script (rollback of a spending block, forward of a conflicting sibling) *)
Example reorg_script_nonvacuous : Good wd2 [wb1; wb2] /\ script_ok [wb1; wb2] wreorg.
Proof. exact (conj wd2_good wreorg_ok). Qed.

Example no_double_apply_nonvacuous :
  Good (exec false (crash 7 (script_writes false (append_script wb2)) wd1) (append_script wb2)) ([wb1] ++ [wb2]).
Proof. exact (no_double_apply_lemma false wd1 [wb1] wb2 7 wd1_good wb2_valid (le_S _ _ (le_S _ _ (le_n 7)))). Qed.

(* a script with forward and rollback steps that really touch owned keys *)
Example owned_keys_nonvacuous :
  length (filter touches_owned (script_writes false (SFwd wb2 :: wreorg))) = 3%nat.
Proof. vm_compute. reflexivity. Qed.

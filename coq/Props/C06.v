(* C06 — Block execution is deterministic and header commitments equal stored state.
   Property theorems only: each is closed by [exact <lemma>] (or a computation for witnesses) and followed
   by [Print Assumptions].  Model: Model/C06.v   Lemmas: Proofs/C06_Acc.v, Proofs/C06_Db.v, Proofs/C06.v, Proofs/C06_Sto.v, Proofs/C06_R3.v *)
From Coq Require Import List NArith ZArith Bool Permutation Lia.
From GQ Require Import Model.C06 Proofs.C06_Acc Proofs.C06_Db Proofs.C06 Proofs.C06_Sto Proofs.C06_R3 Proofs.C06_Sw.
Import ListNotations.
Local Open Scope N_scope.

(* ---- 1. order independence: the algebraic reason goroutine completion order cannot matter ---- *)

(* The accumulator after a block is the same element of the free abelian group for ANY permutation of the
   created list, ANY permutation of the deleted list and ANY interleaving of the per-denomination TrimBlock
   result lists (each goroutine appends under the mutex in an arbitrary global order). *)
Theorem acc_order_independent : forall a cr cr' de de' trs tr',
  Permutation cr cr' -> Permutation de de' -> interleave trs tr' ->
  ceq (acc_removes (acc_adds a cr) (de ++ concat trs)) (acc_removes (acc_adds a cr') (de' ++ tr')).
Proof.
  intros a cr cr' de de' trs tr' P1 P2 Hi.
  exact (block_acc_perm a cr cr' de de' (concat trs) tr' P1 P2 (interleave_perm _ trs tr' Hi)).
Qed.
Print Assumptions acc_order_independent.

(* Equal in the free abelian group implies equal under every homomorphism into an abelian group; MuHash
   (multiSet.Add = multiply by H(e), multiSet.Remove = multiply by its inverse, in the multiplicative group modulo a prime) is one. *)
Theorem accumulator_value_respects_group_equality :
  forall (G : Type) (op : G -> G -> G) (inv : G -> G) (one : G) (H : elem -> G),
  (forall x y z, op x (op y z) = op (op x y) z) -> (forall x y, op x y = op y x) ->
  (forall x, op one x = x) -> (forall x, op (inv x) x = one) ->
  forall a b, ceq a b -> mu G op inv one H a = mu G op inv one H b.
Proof. exact mu_ceq. Qed.
Print Assumptions accumulator_value_respects_group_equality.

(* hence the UTXO root computed by Finalize does not depend on list order or goroutine interleaving *)
Theorem root_order_independent :
  forall (G : Type) (op : G -> G -> G) (inv : G -> G) (one : G) (H : elem -> G),
  (forall x y z, op x (op y z) = op (op x y) z) -> (forall x y, op x y = op y x) ->
  (forall x, op one x = x) -> (forall x, op (inv x) x = one) ->
  forall a cr cr' de de' trs tr',
  Permutation cr cr' -> Permutation de de' -> interleave trs tr' ->
  mu G op inv one H (acc_removes (acc_adds a cr) (de ++ concat trs))
  = mu G op inv one H (acc_removes (acc_adds a cr') (de' ++ tr')).
Proof.
  intros G op inv one H A C O I a cr cr' de de' trs tr' P1 P2 Hi.
  exact (mu_ceq G op inv one H A C O I _ _ (acc_order_independent a cr cr' de de' trs tr' P1 P2 Hi)).
Qed.
Print Assumptions root_order_independent.

(* the database content and the set size after trimming do not depend on the interleaving either *)
Theorem trim_interleaving_irrelevant : forall trs tr' d, db_ok d -> interleave trs tr' ->
  dels (concat trs) d = dels tr' d /\ length (concat trs) = length tr'.
Proof. exact dels_interleave. Qed.
Print Assumptions trim_interleaving_irrelevant.

(* all of Finalize's outputs at once: for any interleaving tr' of the goroutines' (key, element) results the
   content written, the set size decrement and the accumulator (as a group element) are the same *)
Theorem finalize_schedule_independent : forall s ops (trs : list (list (key * elem))) tr',
  db_ok (s_db s) -> interleave trs tr' ->
  let d1 := fst (fst (run_ops (s_db s) ops)) in
  let cr := snd (fst (run_ops (s_db s) ops)) in
  let de := snd (run_ops (s_db s) ops) in
  dels (concat trs) d1 = dels tr' d1
  /\ length (concat trs) = length tr'
  /\ ceq (acc_removes (acc_adds (s_acc s) cr) (de ++ map snd (concat trs)))
         (acc_removes (acc_adds (s_acc s) cr) (de ++ map snd tr')).
Proof. exact finalize_schedule_indep. Qed.
Print Assumptions finalize_schedule_independent.

Example interleave_nonvacuous :
  interleave [[1; 2]; [3]; [4; 5]] [4; 1; 3; 5; 2] /\ [4; 1; 3; 5; 2] <> concat [[1; 2]; [3]; [4; 5]].
Proof.
  split; [|discriminate].
  apply (il_step [[1; 2]; [3]] 4 [5] []).
  apply (il_step [] 1 [2] [[3]; [5]]).
  apply (il_step [[2]] 3 [] [[5]]).
  apply (il_step [[2]; []] 5 [] []).
  apply (il_step [] 2 [] [[]; []]).
  apply il_done. repeat constructor.
Qed.

(* ---- 2. commitment = content ---- *)

(* One block: if the parent commitment describes the parent content (accumulator = sum of live elements,
   size = their number) and the block's lists are exactly its database delta (created keys fresh, candidate
   keys distinct, NO ELEMENT BOTH TRIMMED AND TOUCHED BY THE BLOCK'S OWN OPERATIONS), the child commitment
   describes the child content. *)
Theorem commitment_equals_content_step : forall s ops cands,
  Inv s -> creates_fresh (s_db s) ops -> NoDup (map fst (concat cands)) ->
  trim_disjoint s ops cands -> fits64 ParentDb s ops cands ->
  exists s', finalize ParentDb s ops cands = Some (s', map fst (trimmed ParentDb s ops cands)) /\ Inv s'.
Proof. exact step_faithful. Qed.
Print Assumptions commitment_equals_content_step.

(* Every chain of faithful blocks from genesis. *)
Theorem commitment_equals_content : forall bs,
  chain_faithful ParentDb genesis bs ->
  exists s, run_chain ParentDb genesis bs = Some s /\ Inv s.
Proof. intros bs H. exact (chain_inv ParentDb bs genesis genesis_inv H). Qed.
Print Assumptions commitment_equals_content.

(* ... and the stored root is then the MuHash of exactly the live entries *)
Theorem root_is_muhash_of_content :
  forall (G : Type) (op : G -> G -> G) (inv : G -> G) (one : G) (H : elem -> G),
  (forall x y z, op x (op y z) = op (op x y) z) -> (forall x y, op x y = op y x) ->
  (forall x, op one x = x) -> (forall x, op (inv x) x = one) ->
  forall s, Inv s -> mu G op inv one H (s_acc s) = mu G op inv one H (of_content (content (s_db s))).
Proof.
  intros G op inv one H A C O I s [_ [Hc _]]. exact (mu_ceq G op inv one H A C O I _ _ Hc).
Qed.
Print Assumptions root_is_muhash_of_content.

(* the boolean the correspondence check evaluates is exactly the commitment part of Inv *)
Theorem commit_ok_decides_commitment : forall s, commit_ok s = true <->
  (ceq (s_acc s) (of_content (content (s_db s))) /\ s_size s = N.of_nat (length (s_db s))).
Proof. exact commit_ok_spec. Qed.
Print Assumptions commit_ok_decides_commitment.

Definition ex_s : st := mkSt [(1, 10); (2, 20); (3, 30)] (of_content [10; 20; 30]) 3.
Definition ex_ops : list op := [Spend 1; Create 4 40; Update 5 50; Update 5 51].
Definition ex_cands : list (list cand) := [[(2, true); (9, true)]; [(3, false)]].

Lemma ex_inv : Inv ex_s.
Proof.
  split; [cbn; repeat split; reflexivity|]. apply commit_ok_spec. vm_compute. reflexivity.
Qed.

Example commitment_step_nonvacuous :
  Inv ex_s /\ creates_fresh (s_db ex_s) ex_ops /\ NoDup (map fst (concat ex_cands))
  /\ trim_disjoint ex_s ex_ops ex_cands /\ fits64 ParentDb ex_s ex_ops ex_cands
  /\ trimmed ParentDb ex_s ex_ops ex_cands = [(2, 20)]
  /\ exists s' tr, finalize ParentDb ex_s ex_ops ex_cands = Some (s', tr)
       /\ s_db s' = [(3, 30); (4, 40); (5, 51)] /\ s_size s' = 3 /\ tr = [2].
Proof.
  split; [exact ex_inv|]. split; [cbn; repeat split; reflexivity|].
  split; [cbn; repeat constructor; cbn; intuition discriminate|].
  split.
  { intros kv Hi. vm_compute in Hi. destruct Hi as [<-|[]]. vm_compute. reflexivity. }
  split; [split; vm_compute; reflexivity|].
  split; [vm_compute; reflexivity|].
  eexists _, _. split; [vm_compute; reflexivity|]. repeat split; reflexivity.
Qed.

Example chain_nonvacuous :
  chain_faithful ParentDb genesis
    [([Create 1 10; Create 2 20; Create 3 30], []); (ex_ops, ex_cands)].
Proof.
  cbn [chain_faithful].
  split.
  { split; [cbn; repeat split; reflexivity|]. split; [constructor|]. split; [intros kv []|].
    split; vm_compute; reflexivity. }
  vm_compute finalize. cbn [fst snd].
  split.
  { split; [cbn; repeat split; reflexivity|].
    split; [cbn; repeat constructor; cbn; intuition discriminate|].
    split.
    { intros kv Hi. vm_compute in Hi. destruct Hi as [<-|[]]. vm_compute. reflexivity. }
    split; vm_compute; reflexivity. }
  vm_compute finalize. exact I.
Qed.

(* ---- 3. the set-size counter ---- *)

(* Under the same hypotheses Finalize's uint64 arithmetic is exact: the "size < deletes" error cannot
   fire and no decrement wraps around. *)
Theorem size_never_underflows : forall s ops cands,
  Inv s -> creates_fresh (s_db s) ops -> NoDup (map fst (concat cands)) ->
  trim_disjoint s ops cands -> fits64 ParentDb s ops cands ->
  exists s' tr, finalize ParentDb s ops cands = Some (s', tr)
    /\ (Z.of_nat (length (ops_deleted s ops)) <= Z.of_N (s_size s) + Z.of_nat (length (ops_created s ops)))%Z
    /\ (Z.of_nat (length tr) <= Z.of_N (s_size s) + Z.of_nat (length (ops_created s ops)) - Z.of_nat (length (ops_deleted s ops)))%Z
    /\ Z.of_N (s_size s') = (Z.of_N (s_size s) + Z.of_nat (length (ops_created s ops))
                             - Z.of_nat (length (ops_deleted s ops)) - Z.of_nat (length tr))%Z.
Proof. exact step_faithful_size. Qed.
Print Assumptions size_never_underflows.

(* ---- 4. the converse: trimmed and spent in the same block (finding F5) ---- *)

(* FULL STATEMENT that one would want and that is FALSE for the code as it is (TrimBlock reads the
   committed parent database, not the block's batch):
     forall s ops cands, Inv s -> creates_fresh (s_db s) ops -> NoDup (map fst (concat cands)) ->
       fits64 ParentDb s ops cands -> exists s' tr, finalize ParentDb s ops cands = Some (s', tr) /\ Inv s'.
   Witness: content {1->10, 2->20}; the block spends key 1, and key 1 (unlocked, trimmable denomination)
   was created at height number - depth, so TrimBlock of the same block trims it as well. *)
Definition f5_s : st := mkSt [(1, 10); (2, 20)] (of_content [10; 20]) 2.
Definition f5_ops : list op := [Spend 1].
Definition f5_cands : list (list cand) := [[(1, true)]].

Theorem trim_and_spend_same_block_refuted :
  exists s ops cands,
    Inv s /\ creates_fresh (s_db s) ops /\ NoDup (map fst (concat cands)) /\ fits64 ParentDb s ops cands
    /\ exists s' tr, finalize ParentDb s ops cands = Some (s', tr)
         /\ s_db s' = [(2, 20)]                 (* one live entry ... *)
         /\ s_size s' = 0                       (* ... but the committed size is 0 *)
         /\ count (s_acc s') 10 = (-1)%Z        (* ... and the spent element was removed twice *)
         /\ commit_ok s' = false /\ ~ Inv s'.
Proof.
  exists f5_s, f5_ops, f5_cands.
  split. { split; [cbn; repeat split; reflexivity|]. apply commit_ok_spec. vm_compute. reflexivity. }
  split; [cbn; repeat split|].
  split; [cbn; repeat constructor; cbn; intuition|].
  split; [split; vm_compute; reflexivity|].
  eexists _, _. split; [vm_compute; reflexivity|].
  split; [reflexivity|]. split; [reflexivity|]. split; [vm_compute; reflexivity|].
  split; [vm_compute; reflexivity|].
  intros [_ [_ Hs]]. vm_compute in Hs. discriminate.
Qed.
Print Assumptions trim_and_spend_same_block_refuted.

(* with a single live entry the second decrement wraps the uint64 counter *)
Theorem size_wraps_refuted :
  exists s ops cands,
    Inv s /\ creates_fresh (s_db s) ops /\ NoDup (map fst (concat cands)) /\ fits64 ParentDb s ops cands
    /\ exists s' tr, finalize ParentDb s ops cands = Some (s', tr)
         /\ s_db s' = [] /\ s_size s' = 18446744073709551615.
Proof.
  exists (mkSt [(1, 10)] (of_content [10]) 1), [Spend 1], [[(1, true)]].
  split. { split; [cbn; repeat split|]. apply commit_ok_spec. vm_compute. reflexivity. }
  split; [cbn; repeat split|].
  split; [cbn; repeat constructor; cbn; intuition|].
  split; [split; vm_compute; reflexivity|].
  eexists _, _. split; [vm_compute; reflexivity|]. split; reflexivity.
Qed.
Print Assumptions size_wraps_refuted.

(* Strongest true statement about the code as it is (_partial): for every block whose operations do not
   re-write a candidate key, the child accumulator is the child content MINUS exactly the elements that
   were both spent and trimmed ([doubled]), and the child size is the number of live entries minus their
   number, modulo 2^64.  [commitment_equals_content_step] is the case doubled = []. *)
Theorem commitment_divergence_exact_partial : forall s ops cands,
  Inv s -> creates_fresh (s_db s) ops -> NoDup (map fst (concat cands)) ->
  (forall c, In c (concat cands) -> ~ In (fst c) (put_keys ops)) ->
  fits64 ParentDb s ops cands ->
  exists s', finalize ParentDb s ops cands = Some (s', map fst (trimmed ParentDb s ops cands))
    /\ db_ok (s_db s')
    /\ (forall x, count (s_acc s') x = (occ (content (s_db s')) x - occ (doubled ParentDb s ops cands) x)%Z)
    /\ Z.of_N (s_size s')
       = ((Z.of_nat (length (s_db s')) - Z.of_nat (length (doubled ParentDb s ops cands))) mod W64z)%Z.
Proof. exact step_parentdb_exact. Qed.
Print Assumptions commitment_divergence_exact_partial.

Example divergence_nonvacuous :
  doubled ParentDb f5_s f5_ops f5_cands = [10]
  /\ (forall c, In c (concat f5_cands) -> ~ In (fst c) (put_keys f5_ops)).
Proof. split; [vm_compute; reflexivity|]. intros c _ []. Qed.

(* ---- 5. the proposed repair ---- *)

(* If TrimBlock looks the candidates up in the state AFTER the block's own operations (skips what the
   block already deleted), commitment = content holds for every block with fresh created keys, with no
   disjointness hypothesis, and so for every chain. *)
Theorem repaired_trim_restores_commitment : forall s ops cands,
  Inv s -> creates_fresh (s_db s) ops -> NoDup (map fst (concat cands)) ->
  fits64 AfterOps s ops cands ->
  exists s', finalize AfterOps s ops cands = Some (s', map fst (trimmed AfterOps s ops cands)) /\ Inv s'.
Proof. exact step_after_ops. Qed.
Print Assumptions repaired_trim_restores_commitment.

Theorem repaired_trim_chain : forall bs,
  chain_faithful AfterOps genesis bs ->
  exists s, run_chain AfterOps genesis bs = Some s /\ Inv s.
Proof. intros bs H. exact (chain_inv AfterOps bs genesis genesis_inv H). Qed.
Print Assumptions repaired_trim_chain.

Example repaired_nonvacuous :
  exists s' tr, finalize AfterOps f5_s f5_ops f5_cands = Some (s', tr)
    /\ tr = [] /\ s_db s' = [(2, 20)] /\ s_size s' = 1 /\ commit_ok s' = true.
Proof. eexists _, _. split; [vm_compute; reflexivity|]. repeat split; vm_compute; reflexivity. Qed.

(* ---- 6. state commitments do not depend on the snapshot configuration / cache warmth ---- *)

(* One block on one account: any sequence of SLOADs, SSTOREs and re-creations of the account (CreateAccount over
   the existing or self-destructed object) followed by the single updateTrie of IntermediateRoot.  Whether
   state.New found a snapshot layer for the parent root (words read from the layer, zero word for an account
   destructed in this block), found one whose reads fail because the generator is still running after a restart
   (fall back to the trie), or found none (words read from the trie): the storage content committed, the account's
   Size field and every word the EVM read are the same.  [p] = storage of the account in the parent state, which
   is also what the layer holds for it; [sz] = its Size there. *)
Theorem storage_commitment_independent_of_snapshot_layer : forall src p sz pre,
  forallb not_root pre = true ->
  sto_block src p sz (pre ++ [SRoot]) = sto_block NoSnap p sz (pre ++ [SRoot]).
Proof. exact sto_block_source_independent. Qed.
Print Assumptions storage_commitment_independent_of_snapshot_layer.

(* deployment at a pre-existing account with storage, old slots overwritten, a fresh slot set and cleared again *)
Example storage_independent_nonvacuous :
  let p := [(1, 9); (2, 8)] in
  let pre := [SGet 1; SSet 3 4; SCreate true; SSet 1 5; SSet 2 6; SGet 3; SSet 3 7; SSet 3 0; SGet 9] in
  forallb not_root pre = true
  /\ sto_block SnapLayer p 2%Z (pre ++ [SRoot]) = ([(1, 5); (2, 6)], 4%Z, [9; 0; 0])
  /\ sto_block SnapFails p 2%Z (pre ++ [SRoot]) = ([(1, 5); (2, 6)], 4%Z, [9; 0; 0])
  /\ sto_block NoSnap p 2%Z (pre ++ [SRoot]) = ([(1, 5); (2, 6)], 4%Z, [9; 0; 0]).
Proof. repeat split; vm_compute; reflexivity. Qed.

(* The hypothesis "one updateTrie per StateDB" is needed by the code as it is: with a second IntermediateRoot
   in the lifetime of the same StateDB the Size of a re-created account depends on the layer (the destructed
   early return of GetCommittedState does not cache the zero word in originStorage; after uniqueNewKeysStorage was
   reset the slot is probed and counted again, while the run without a layer answers from originStorage and does
   not count it).  Process / ValidateState / the worker call IntermediateRoot once, after the last transaction;
   the harness replays this witness on the real StateDB (storage corpus, kind "two-epochs").
   Full statement (refuted): forall src p sz ops, sto_block src p sz ops = sto_block NoSnap p sz ops. *)
Theorem storage_second_update_depends_on_layer_refuted :
  exists p sz ops, sto_block SnapLayer p sz ops <> sto_block NoSnap p sz ops.
Proof.
  exists [], 0%Z, two_epoch_ops. destruct sto_two_epochs_differ as (A & B). rewrite A, B. discriminate.
Qed.
Print Assumptions storage_second_update_depends_on_layer_refuted.

(* ---- 8. after the node switched its head BACK: the header of the new head describes the stored state ---- *)

(* One iteration of the rollback loop of HeaderChain.SetCurrentHeader (restore ReadSpentUTXOs ++ ReadTrimmedUTXOs, then
   delete ReadCreatedUTXOKeys, both into one batch) applied to the database the block left gives back EXACTLY the
   parent's UTXO set - hence the parent header's UTXORoot / set size, which described that set, describe the database
   again.  For every block of Qi operations whose created keys are new (fresh transaction hashes), INCLUDING blocks in
   which a transaction spends an output created earlier in the same block (listed in both undo records), and with the
   outputs the block trimmed. *)
Theorem head_switch_restores_parent_utxo_set : forall s ops cands d',
  db_ok (s_db s) -> forallb is_ut ops = true -> creates_new (s_db s) ops ->
  rollback_block RestoreThenDelete ParentDb s ops cands = Some d' -> d' = s_db s.
Proof. exact rollback_block_restores. Qed.
Print Assumptions head_switch_restores_parent_utxo_set.

(* the same for any trimmed record whose entries are entries of the parent's set (covers the repaired trim view) *)
Theorem rollback_restores_committed_content : forall d ops tr,
  db_ok d -> forallb is_ut ops = true -> creates_new d ops ->
  (forall kv, In kv tr -> db_get d (fst kv) = Some (snd kv)) ->
  let '(d1, _, _) := run_ops d ops in
  let '(sp, cr) := undo_records d ops in
  undo RestoreThenDelete (sp ++ tr) cr (dels tr d1) = d.
Proof. exact rollback_restores. Qed.
Print Assumptions rollback_restores_committed_content.

(* parent {1->10, 2->20}; the block spends 1, creates 3, spends 3 again (intra-block chain), creates 4; output 2 is trimmed *)
Example head_switch_nonvacuous :
  let s := mkSt [(1, 10); (2, 20)] (of_content [10; 20]) 2 in
  let ops := [Spend 1; Create 3 30; Spend 3; Create 4 40] in
  let cands := [[(2, true)]] in
  db_ok (s_db s) /\ forallb is_ut ops = true /\ creates_new (s_db s) ops
  /\ undo_records (s_db s) ops = ([(1, 10); (3, 30)], [3; 4])
  /\ option_map (fun r => s_db (fst r)) (finalize ParentDb s ops cands) = Some [(4, 40)]
  /\ rollback_block RestoreThenDelete ParentDb s ops cands = Some [(1, 10); (2, 20)].
Proof.
  cbn zeta. split; [cbn; repeat split; lia|]. split; [reflexivity|]. split.
  - intros k e [H|[H|[H|[H|[]]]]]; inversion H; reflexivity.
  - repeat split; vm_compute; reflexivity.
Qed.

(* The order of the two loops is part of the property.  Full statement for the swapped order (refuted):
     forall d ops, db_ok d -> forallb is_ut ops = true -> creates_new d ops ->
       undo DeleteThenRestore (spent records) (created keys) (database after the block) = d.
   Witness: empty parent set, a block that creates an output and spends it again: the swapped order resurrects it. *)
Theorem swapped_rollback_order_resurrects_output_refuted :
  exists d ops, db_ok d /\ forallb is_ut ops = true /\ creates_new d ops /\
    let '(d1, _, _) := run_ops d ops in
    let '(sp, cr) := undo_records d ops in
    undo RestoreThenDelete sp cr d1 = d /\ undo DeleteThenRestore sp cr d1 = [(1, 10)] /\ d = [].
Proof.
  exists [], [Create 1 10; Spend 1]. split; [exact I|]. split; [reflexivity|]. split; [intros k e _; reflexivity|].
  vm_compute. repeat split.
Qed.
Print Assumptions swapped_rollback_order_resurrects_output_refuted.

(* strongest true statement about the swapped order: it agrees with the source order exactly when no key is in both
   undo records, i.e. it is only wrong for outputs created and spent / trimmed inside the rolled-back block *)
Theorem rollback_order_only_matters_for_intra_block_chains_partial : forall sp cr d, db_ok d ->
  (forall k, In k cr -> ~ In k (map fst sp)) ->
  undo DeleteThenRestore sp cr d = undo RestoreThenDelete sp cr d.
Proof. exact undo_orders_agree. Qed.
Print Assumptions rollback_order_only_matters_for_intra_block_chains_partial.

(* ---- 9. the block batch shared by the TrimBlock goroutines ---- *)

(* With every batch.Delete inside the trim lock (the source as it is) the batch hands exactly the trimmed keys to
   the database: for ANY attribution of the deletes to goroutines and ANY order in which the goroutines get the
   lock the database after the block is the one [finalize] computes (so theorems 4/4b/5 speak about what is stored). *)
Theorem locked_trim_deletes_schedule_independent : forall d tr ks,
  db_ok d -> Permutation (map snd ks) (map fst tr) ->
  sched_wf [] (locked_sched ks) = true
  /\ delks (written (run_sched empty_buf [] (locked_sched ks))) d = dels tr d.
Proof. intros d tr ks Hok P. split; [apply locked_sched_wf|apply locked_trim_deletes; assumption]. Qed.
Print Assumptions locked_trim_deletes_schedule_independent.

Example locked_trim_deletes_nonvacuous :
  let ks := [(5, 7); (0, 1); (5, 9); (3, 4)] in
  written (run_sched empty_buf [] (locked_sched ks)) = [7; 1; 9; 4]
  /\ delks [7; 1; 9; 4] [(1, 10); (4, 40); (6, 60); (7, 70); (9, 90)] = [(6, 60)].
Proof. split; vm_compute; reflexivity. Qed.

(* The lock is part of the property.  Full statement without it (refuted): for every well-formed schedule of the
   goroutines' read-length / write-record steps the committed state describes the database.  Witness: two
   denominations with one output each; both goroutines read the buffer length before either writes: the second record
   overwrites the first, one Delete never reaches the database, while multiset and set size (updated under the
   lock) account for both: UTXO root and set size no longer describe the stored set. *)
Theorem unlocked_batch_loses_delete_refuted :
  exists s ops cands sched s' trk,
    commit_ok s = true /\ finalize ParentDb s ops cands = Some (s', trk) /\ commit_ok s' = true /\
    sched_wf [] sched = true /\ ewrites sched = trk /\
    let d1 := fst (fst (run_ops (s_db s) ops)) in
    commit_ok (mkSt (delks (written (run_sched empty_buf [] sched)) d1) (s_acc s') (s_size s')) = false.
Proof. exact unlocked_loses_delete. Qed.
Print Assumptions unlocked_batch_loses_delete_refuted.

(* ---- 10. extension round (model growth): the WHOLE rollback loop of SetCurrentHeader, any number of blocks ---- *)

(* [switch_back o tv s bs]: the blocks bs are appended on s, then the loop of SetCurrentHeader undoes them newest
   first, one batch per block, every iteration applied to the database the previous one left.  For every branch of
   blocks of Qi operations whose created keys are new when the block is appended (intra-block chains, trimmed outputs,
   outputs spent and trimmed in one block (F5), outputs created in one block of the branch and spent or trimmed in a
   later one) the loop ends with exactly the UTXO set of the common ancestor. *)
Theorem head_switch_restores_ancestor_utxo_set : forall bs s d,
  db_ok (s_db s) -> chain_rollbackable s bs ->
  switch_back RestoreThenDelete ParentDb s bs = Some d -> d = s_db s.
Proof. exact switch_back_restores. Qed.
Print Assumptions head_switch_restores_ancestor_utxo_set.

(* "undo . do = id" for the commitment: the header of the common ancestor (accumulator = UTXORoot, set size, both
   stored per block hash and not rewritten by the loop) describes the database again after the switch *)
Theorem head_switch_ancestor_header_describes_database : forall bs s d,
  Inv s -> chain_rollbackable s bs ->
  switch_back RestoreThenDelete ParentDb s bs = Some d ->
  commit_ok (mkSt d (s_acc s) (s_size s)) = true.
Proof. exact switch_back_commitment. Qed.
Print Assumptions head_switch_ancestor_header_describes_database.

(* one iteration is theorem 18's rollback_block; the loop is defined for every branch that could be appended *)
Theorem head_switch_loop_generalises_one_iteration : forall o tv s,
  (forall b, switch_back o tv s [b] = rollback_block o tv s (fst b) (snd b))
  /\ (forall bs s', run_chain tv s bs = Some s' -> exists d, switch_back o tv s bs = Some d).
Proof. intros o tv s. split; [apply switch_back_one|intros bs s' R; exact (switch_back_defined o tv bs s s' R)]. Qed.
Print Assumptions head_switch_loop_generalises_one_iteration.

(* the swapped loop order over a branch of two blocks: the newer block is undone correctly, the output created and
   spent inside the OLDER block is resurrected (full statement for the swapped order refuted for branches too) *)
Theorem swapped_rollback_order_two_blocks_refuted :
  exists s bs, Inv s /\ chain_rollbackable s bs /\ length bs = 2%nat /\
    switch_back RestoreThenDelete ParentDb s bs = Some (s_db s) /\
    switch_back DeleteThenRestore ParentDb s bs = Some (s_db s ++ [(3, 30)]).
Proof. exact swapped_order_two_blocks. Qed.
Print Assumptions swapped_rollback_order_two_blocks_refuted.

(* parent {1,2,6}; block A spends 1, creates 3 and spends it again, creates 4, output 2 is trimmed; block B spends 4
   (created by A), creates 5, output 6 is trimmed; block C spends 5: three iterations of the loop *)
Example head_switch_three_blocks_nonvacuous :
  let s := mkSt [(1, 10); (2, 20); (6, 60)] (of_content [10; 20; 60]) 3 in
  let bs := [([Spend 1; Create 3 30; Spend 3; Create 4 40], [[(2, true)]]);
             ([Spend 4; Create 5 50], [[(6, true)]]);
             ([Spend 5], [])] in
  Inv s /\ chain_rollbackable s bs
  /\ option_map s_db (run_chain ParentDb s bs) = Some []
  /\ switch_back RestoreThenDelete ParentDb s bs = Some [(1, 10); (2, 20); (6, 60)].
Proof.
  cbn zeta. split.
  - split; [cbn; repeat split; lia|]. split; [intros e; reflexivity|reflexivity].
  - split.
    + cbn [chain_rollbackable fst snd]. split; [reflexivity|]. split.
      * intros k e [H|[H|[H|[H|[]]]]]; inversion H; reflexivity.
      * vm_compute finalize. cbn [chain_rollbackable fst snd]. split; [reflexivity|]. split.
        -- intros k e [H|[H|[]]]; inversion H; reflexivity.
        -- vm_compute finalize. cbn [chain_rollbackable fst snd]. split; [reflexivity|]. split.
           ++ intros k e [H|[]]; inversion H.
           ++ vm_compute finalize. exact I.
    + split; vm_compute; reflexivity.
Qed.

(* Inverse laws of the sorted association maps of Lib/SMap.v used by the journal proofs (C12).
   get/put/del walk the list in the same way (they stop at the first key >= k), therefore
   "undo the last write" laws hold for arbitrary lists; only re-inserting a deleted key needs
   sortedness. *)
From Coq Require Import List NArith ZArith Bool Lia.
From GQ Require Import Lib.Key Lib.SMap.
Import ListNotations.

Section Laws.
Context {V : Type}.
Implicit Types m : smap V.

Lemma put_put_same k (v w : V) m : put k v (put k w m) = put k v m.
Proof.
  induction m as [|[k' v'] m IH]; cbn.
  - rewrite kcmp_refl. reflexivity.
  - destruct (kcmp k k') eqn:E; cbn.
    + rewrite kcmp_refl. reflexivity.
    + rewrite kcmp_refl. reflexivity.
    + rewrite E. f_equal. exact IH.
Qed.

(* L1: overwrite, then write the old value back *)
Lemma put_restore k (old new : V) m : get k m = Some old -> put k old (put k new m) = m.
Proof.
  induction m as [|[k' v'] m IH]; cbn; [discriminate|].
  destruct (kcmp k k') eqn:E; cbn.
  - intros H; inversion H; subst. apply kcmp_eq in E; subst. rewrite kcmp_refl. reflexivity.
  - discriminate.
  - intros H. rewrite E. f_equal. apply IH. exact H.
Qed.

Lemma put_same_id k (v : V) m : get k m = Some v -> put k v m = m.
Proof.
  induction m as [|[k' v'] m IH]; cbn; [discriminate|].
  destruct (kcmp k k') eqn:E.
  - intros H; inversion H; subst. apply kcmp_eq in E; subst. reflexivity.
  - discriminate.
  - intros H. f_equal. apply IH. exact H.
Qed.

(* L2: insert a fresh key, then delete it *)
Lemma del_put_absent k (v : V) m : get k m = None -> del k (put k v m) = m.
Proof.
  induction m as [|[k' v'] m IH]; cbn.
  - intros _. rewrite kcmp_refl. reflexivity.
  - destruct (kcmp k k') eqn:E; cbn.
    + discriminate.
    + intros _. rewrite kcmp_refl. reflexivity.
    + intros H. rewrite E. f_equal. apply IH. exact H.
Qed.

Lemma del_absent k m : get k m = None -> del k m = m.
Proof.
  induction m as [|[k' v'] m IH]; cbn; [reflexivity|].
  destruct (kcmp k k') eqn:E.
  - discriminate.
  - reflexivity.
  - intros H. f_equal. apply IH. exact H.
Qed.

(* L3: delete, then re-insert the old value (needs the sorted order to find the place again) *)
Lemma put_del_restore k (old : V) m : sorted m -> get k m = Some old -> put k old (del k m) = m.
Proof.
  induction m as [|[k' v'] m IH]; cbn; [discriminate|].
  intros [L S]. destruct (kcmp k k') eqn:E; cbn.
  - intros H; inversion H; subst. apply kcmp_eq in E; subst k'.
    destruct m as [|[k2 v2] m2]; cbn; [reflexivity|].
    specialize (L k2 v2 (or_introl eq_refl)). unfold kltb in L.
    destruct (kcmp k k2); try discriminate. reflexivity.
  - discriminate.
  - intros H. rewrite E. f_equal. apply IH; assumption.
Qed.

Lemma get_put_eq_dec k k0 (v : V) m :
  get k0 (put k v m) = if keqb k0 k then Some v else get k0 m.
Proof.
  destruct (keqb k0 k) eqn:E.
  - apply keqb_eq in E; subst. apply get_put_same.
  - apply keqb_neq in E. apply get_put_other. exact E.
Qed.

End Laws.

(* lists *)
Lemma firstn_length_app {A} (l l' : list A) : firstn (length l) (l ++ l') = l.
Proof. induction l as [|x l IH]; cbn; [destruct l'; reflexivity|]. f_equal. exact IH. Qed.

Lemma nth_error_app_length {A} (l : list A) x : nth_error (l ++ [x]) (length l) = Some x.
Proof. induction l as [|y l IH]; cbn; auto. Qed.

Lemma nth_error_app_lt {A} (l l' : list A) n y : nth_error l n = Some y -> nth_error (l ++ l') n = Some y.
Proof.
  revert n; induction l as [|x l IH]; intros [|n]; cbn; try discriminate; auto.
Qed.

(* C14_RLP — RLP item trees (rlp/encode.go, rlp/decode.go of the repository).

   INTERFACE
     item := Str (b : bytes) | Lst (l : list item)
     rlp_encode : item -> bytes                   canonical encoding (rlp.EncodeToBytes of []byte / []interface{})
     rlp_decode : bytes -> option item            STRICT decoder (rlp.DecodeBytes into interface{}): rejects
                                                  non-canonical sizes, single bytes wrapped in a string header,
                                                  leading zeros in a length, trailing bytes
     dec        : nat -> bytes -> option (item * bytes)     one item and the rest (fuel = 2*length+2 is enough)
     wf_item    : item -> Prop                    bytes < 256 and every payload shorter than 2^64
     item_eqb   : item -> item -> bool
   Theorems (this file):
     rlp_roundtrip      : wf_item t -> rlp_decode (rlp_encode t) = Some t
     dec_encode         : wf_item t -> enough fuel -> dec fuel (rlp_encode t ++ r) = Some (t, r)
     rlp_canonical      : rlp_decode b = Some t -> rlp_encode t = b          (every accepted input is canonical)
     rlp_encode_inj     : wf_item a -> wf_item b -> rlp_encode a = rlp_encode b -> a = b
     rlp_encode_prefix_free : ... rlp_encode a ++ r = rlp_encode b ++ r' -> a = b /\ r = r'
   No axioms. *)
From Coq Require Import List Arith NArith Lia Bool ZifyBool ZifyNat ZifyN.
From GQ Require Import Lib.Key Lib.C14_Varint Lib.C14_BigEndian.
Import ListNotations.
Local Open Scope N_scope.

Local Arguments N.mul : simpl never.
Local Arguments N.add : simpl never.
Local Arguments N.sub : simpl never.
Local Arguments N.div : simpl never.
Local Arguments N.modulo : simpl never.
Local Arguments N.pow : simpl never.
Local Arguments N.ltb : simpl never.
Local Arguments N.eqb : simpl never.

Inductive item := Str (b : bytes) | Lst (l : list item).

(* header for a payload of length n: short form below 56, else length of length *)
Definition header (base : N) (n : N) : bytes :=
  if n <? 56 then [base + n] else (base + 55 + len (be_enc n)) :: be_enc n.

Fixpoint rlp_encode (t : item) : bytes :=
  match t with
  | Str b =>
      match b with
      | [x] => if x <? 128 then [x] else header 128 1 ++ b
      | _ => header 128 (len b) ++ b
      end
  | Lst l =>
      let p := (fix go (l : list item) : bytes :=
                  match l with [] => [] | x :: t => rlp_encode x ++ go t end) l in
      header 192 (len p) ++ p
  end.

Fixpoint encode_list (l : list item) : bytes :=
  match l with [] => [] | x :: t => rlp_encode x ++ encode_list t end.

Definition take (n : N) (b : bytes) : option (bytes * bytes) :=
  if len b <? n then None else Some (firstn (N.to_nat n) b, skipn (N.to_nat n) b).

(* size of a long-form payload: ll length bytes, no leading zero, value >= 56 *)
Definition read_size (ll : N) (r : bytes) : option (N * bytes) :=
  match take ll r with
  | None => None
  | Some (lb, r1) =>
      if no_lead0b lb && (56 <=? be_dec lb) then Some (be_dec lb, r1) else None
  end.

Fixpoint dec (fuel : nat) (b : bytes) : option (item * bytes) :=
  match fuel with
  | O => None
  | S f =>
      match b with
      | [] => None
      | x :: r =>
          if x <? 128 then Some (Str [x], r)
          else if x <? 184 then
            match take (x - 128) r with
            | None => None
            | Some (s, r') =>
                match s with
                | [y] => if y <? 128 then None else Some (Str s, r')
                | _ => Some (Str s, r')
                end
            end
          else if x <? 192 then
            match read_size (x - 183) r with
            | None => None
            | Some (n, r1) =>
                match take n r1 with
                | None => None
                | Some (s, r') => Some (Str s, r')
                end
            end
          else if x <? 248 then
            match take (x - 192) r with
            | None => None
            | Some (p, r') =>
                match dec_list f p with
                | Some l => Some (Lst l, r')
                | None => None
                end
            end
          else
            match read_size (x - 247) r with
            | None => None
            | Some (n, r1) =>
                match take n r1 with
                | None => None
                | Some (p, r') =>
                    match dec_list f p with
                    | Some l => Some (Lst l, r')
                    | None => None
                    end
                end
            end
      end
  end
with dec_list (fuel : nat) (p : bytes) : option (list item) :=
  match fuel with
  | O => None
  | S f =>
      match p with
      | [] => Some []
      | _ :: _ =>
          match dec f p with
          | None => None
          | Some (t, rest) =>
              match dec_list f rest with
              | Some l => Some (t :: l)
              | None => None
              end
          end
      end
  end.

Definition rlp_decode (b : bytes) : option item :=
  match dec (2 * length b + 2) b with
  | Some (t, []) => Some t
  | _ => None
  end.

Fixpoint item_eqb (a b : item) : bool :=
  match a, b with
  | Str x, Str y => keqb x y
  | Lst x, Lst y =>
      (fix go (l1 l2 : list item) : bool :=
         match l1, l2 with
         | [], [] => true
         | a1 :: t1, a2 :: t2 => item_eqb a1 a2 && go t1 t2
         | _, _ => false
         end) x y
  | _, _ => false
  end.

(* well-formed items: real bytes, payload sizes representable in 8 bytes *)
Fixpoint wf_item (t : item) : Prop :=
  match t with
  | Str b => wf_bytes b /\ len b < u64
  | Lst l => (fix all (l : list item) : Prop := match l with [] => True | x :: t => wf_item x /\ all t end) l
             /\ len (encode_list l) < u64
  end.
Fixpoint wf_items (l : list item) : Prop := match l with [] => True | x :: t => wf_item x /\ wf_items t end.

(* ------------------------------------------------------------------ *)
(* facts                                                              *)

Lemma encode_inner_eq l :
  (fix go (l : list item) : bytes := match l with [] => [] | x :: t => rlp_encode x ++ go t end) l = encode_list l.
Proof. induction l as [|x l IH]; [reflexivity|]. cbn [encode_list]. rewrite IH. reflexivity. Qed.

Lemma rlp_encode_lst l : rlp_encode (Lst l) = header 192 (len (encode_list l)) ++ encode_list l.
Proof. cbn [rlp_encode]. rewrite encode_inner_eq. reflexivity. Qed.

Lemma wf_inner_eq l :
  (fix all (l : list item) : Prop := match l with [] => True | x :: t => wf_item x /\ all t end) l = wf_items l.
Proof. induction l as [|x l IH]; [reflexivity|]. cbn [wf_items]. rewrite IH. reflexivity. Qed.

Lemma wf_item_lst l : wf_item (Lst l) <-> wf_items l /\ len (encode_list l) < u64.
Proof. cbn [wf_item]. rewrite wf_inner_eq. tauto. Qed.

Lemma take_app (a r : bytes) : take (len a) (a ++ r) = Some (a, r).
Proof.
  unfold take. assert (E : len (a ++ r) <? len a = false) by (rewrite len_app; lia). rewrite E.
  unfold len. rewrite Nnat.Nat2N.id. rewrite firstn_app, Nat.sub_diag, firstn_all, skipn_app, Nat.sub_diag, skipn_all.
  cbn. rewrite app_nil_r. reflexivity.
Qed.

Lemma take_spec n b a r : take n b = Some (a, r) -> b = a ++ r /\ len a = n.
Proof.
  unfold take. destruct (len b <? n) eqn:E; [discriminate|]. intros H. injection H as <- <-.
  split; [symmetry; apply firstn_skipn|]. unfold len in *. rewrite firstn_length. lia.
Qed.

Lemma header_nonempty base n : header base n <> [].
Proof. unfold header. destruct (n <? 56); discriminate. Qed.

Lemma rlp_encode_nonempty t : rlp_encode t <> [].
Proof.
  destruct t as [b|l].
  - cbn [rlp_encode]. destruct b as [|x [|y b]].
    + discriminate.
    + destruct (x <? 128); discriminate.
    + unfold header. destruct (len (x :: y :: b) <? 56); discriminate.
  - rewrite rlp_encode_lst. pose proof (header_nonempty 192 (len (encode_list l))).
    destruct (header 192 (len (encode_list l))); [congruence|discriminate].
Qed.

Lemma rlp_encode_length_pos t : (1 <= length (rlp_encode t))%nat.
Proof. pose proof (rlp_encode_nonempty t). destruct (rlp_encode t); [congruence|cbn; lia]. Qed.

Lemma u64_pow : u64 = 256 ^ N.of_nat 8.
Proof. reflexivity. Qed.

(* the long header: first byte base+55+ll with 1 <= ll <= 8, then the minimal size bytes *)
Lemma be_enc_len_bounds n : 56 <= n -> n < u64 -> 1 <= len (be_enc n) <= 8.
Proof.
  intros H1 H2. unfold len. split.
  - pose proof (be_enc_nonzero n ltac:(lia)). destruct (be_enc n); [congruence|cbn; lia].
  - rewrite u64_pow in H2. pose proof (be_enc_length n 8 H2). lia.
Qed.

Lemma read_size_enc n rest : 56 <= n -> n < u64 ->
  read_size (len (be_enc n)) (be_enc n ++ rest) = Some (n, rest).
Proof.
  intros H1 H2. unfold read_size. rewrite take_app.
  assert (L : no_lead0b (be_enc n) = true).
  { destruct (be_enc n) as [|x l] eqn:E; [reflexivity|]. cbn. pose proof (be_enc_head _ _ _ E). lia. }
  rewrite L, be_dec_enc. assert (E : 56 <=? n = true) by lia. rewrite E. reflexivity.
Qed.

Lemma rlp_encode_str b : (forall x, b = [x] -> 128 <= x) -> rlp_encode (Str b) = header 128 (len b) ++ b.
Proof.
  intros H. cbn [rlp_encode]. destruct b as [|x [|y b']]; try reflexivity.
  specialize (H x eq_refl). assert (E : x <? 128 = false) by lia. rewrite E. reflexivity.
Qed.

Lemma dec_str fuel b r : wf_bytes b -> len b < u64 -> (forall x, b = [x] -> 128 <= x) ->
  dec (S fuel) ((header 128 (len b) ++ b) ++ r) = Some (Str b, r).
Proof.
  intros Wb Wl H. unfold header. destruct (len b <? 56) eqn:E.
  - cbn [app dec].
    assert (E1 : 128 + len b <? 128 = false) by lia.
    assert (E2 : 128 + len b <? 184 = true) by lia. rewrite E1, E2.
    replace (128 + len b - 128) with (len b) by lia. rewrite take_app.
    destruct b as [|y [|z b']]; try reflexivity.
    specialize (H y eq_refl). assert (E3 : y <? 128 = false) by lia. rewrite E3. reflexivity.
  - assert (Hn : 56 <= len b) by lia. pose proof (be_enc_len_bounds _ Hn Wl) as [L1 L2].
    cbn [app dec].
    assert (E1 : 128 + 55 + len (be_enc (len b)) <? 128 = false) by lia.
    assert (E2 : 128 + 55 + len (be_enc (len b)) <? 184 = false) by lia.
    assert (E3 : 128 + 55 + len (be_enc (len b)) <? 192 = true) by lia.
    rewrite E1, E2, E3.
    replace (128 + 55 + len (be_enc (len b)) - 183) with (len (be_enc (len b))) by lia.
    rewrite <- app_assoc. rewrite read_size_enc by assumption. rewrite take_app. reflexivity.
Qed.

Lemma dec_encode_all : forall fuel,
  (forall t r, wf_item t -> (2 * length (rlp_encode t) <= fuel)%nat -> dec fuel (rlp_encode t ++ r) = Some (t, r)) /\
  (forall l, wf_items l -> (2 * length (encode_list l) + 1 <= fuel)%nat -> dec_list fuel (encode_list l) = Some l).
Proof.
  induction fuel as [|f [IHd IHl]].
  - split.
    + intros t r _ H. pose proof (rlp_encode_length_pos t). lia.
    + intros l _ H. lia.
  - split.
    + intros t r W Hf. destruct t as [b|l].
      * destruct W as [Wb Wl].
        destruct b as [|x [|y b']].
        -- rewrite rlp_encode_str by (intros; discriminate). apply dec_str; [assumption|assumption|intros; discriminate].
        -- destruct (x <? 128) eqn:E.
           ++ cbn [rlp_encode]. rewrite E. cbn [app dec]. rewrite E. reflexivity.
           ++ rewrite rlp_encode_str by (intros ? H; injection H as <-; lia).
              apply dec_str; [assumption|assumption|intros ? H; injection H as <-; lia].
        -- rewrite rlp_encode_str by (intros; discriminate). apply dec_str; [assumption|assumption|intros; discriminate].
      * apply wf_item_lst in W as [Wl Ws]. rewrite rlp_encode_lst in *.
        set (p := encode_list l) in *. unfold header in *. destruct (len p <? 56) eqn:E.
        -- cbn [app dec] in *.
           assert (E1 : 192 + len p <? 128 = false) by lia.
           assert (E2 : 192 + len p <? 184 = false) by lia.
           assert (E3 : 192 + len p <? 192 = false) by lia.
           assert (E4 : 192 + len p <? 248 = true) by lia.
           rewrite E1, E2, E3, E4. replace (192 + len p - 192) with (len p) by lia.
           rewrite take_app. unfold p in *. rewrite IHl; [reflexivity|assumption|]. cbn [length] in Hf. rewrite ?app_length in Hf. lia.
        -- assert (Hn : 56 <= len p) by lia. pose proof (be_enc_len_bounds _ Hn Ws) as [L1 L2].
           cbn [app dec] in *.
           assert (E1 : 192 + 55 + len (be_enc (len p)) <? 128 = false) by lia.
           assert (E2 : 192 + 55 + len (be_enc (len p)) <? 184 = false) by lia.
           assert (E3 : 192 + 55 + len (be_enc (len p)) <? 192 = false) by lia.
           assert (E4 : 192 + 55 + len (be_enc (len p)) <? 248 = false) by lia.
           rewrite E1, E2, E3, E4.
           replace (192 + 55 + len (be_enc (len p)) - 247) with (len (be_enc (len p))) by lia.
           rewrite <- app_assoc. rewrite read_size_enc by assumption. rewrite take_app. unfold p in *.
           rewrite IHl; [reflexivity|assumption|]. cbn [length] in Hf. rewrite ?app_length in Hf. lia.
    + intros l W Hf. destruct l as [|x t]; [reflexivity|].
      destruct W as [Wx Wt]. cbn [encode_list] in *. rewrite app_length in Hf.
      pose proof (rlp_encode_length_pos x) as Hp.
      cbn [dec_list].
      destruct (rlp_encode x ++ encode_list t) as [|z zs] eqn:Ez.
      { apply (f_equal (@length N)) in Ez. rewrite app_length in Ez. cbn in Ez. lia. }
      rewrite <- Ez. rewrite IHd by (assumption || lia). rewrite IHl by (assumption || lia). reflexivity.
Qed.

Theorem dec_encode t r fuel : wf_item t -> (2 * length (rlp_encode t) <= fuel)%nat ->
  dec fuel (rlp_encode t ++ r) = Some (t, r).
Proof. intros. apply (proj1 (dec_encode_all fuel)); assumption. Qed.

Theorem rlp_roundtrip t : wf_item t -> rlp_decode (rlp_encode t) = Some t.
Proof.
  intros W. unfold rlp_decode. rewrite <- (app_nil_r (rlp_encode t)) at 2.
  rewrite dec_encode; [reflexivity|assumption|lia].
Qed.

Theorem rlp_encode_prefix_free a b r r' : wf_item a -> wf_item b ->
  rlp_encode a ++ r = rlp_encode b ++ r' -> a = b /\ r = r'.
Proof.
  intros Wa Wb E.
  set (fuel := (2 * length (rlp_encode a) + 2 * length (rlp_encode b))%nat).
  pose proof (dec_encode a r fuel Wa ltac:(unfold fuel; lia)) as Da.
  pose proof (dec_encode b r' fuel Wb ltac:(unfold fuel; lia)) as Db.
  rewrite E in Da. rewrite Da in Db. injection Db as -> ->. split; reflexivity.
Qed.

Theorem rlp_encode_inj a b : wf_item a -> wf_item b -> rlp_encode a = rlp_encode b -> a = b.
Proof.
  intros Wa Wb E. apply (rlp_encode_prefix_free a b [] [] Wa Wb). rewrite E. reflexivity.
Qed.

(* ------------------------------------------------------------------ *)
(* every accepted input is the canonical encoding of its value         *)

Lemma no_lead0b_spec b : no_lead0b b = true -> no_lead0 b.
Proof. destruct b as [|x b]; cbn; [trivial|]. intros H. lia. Qed.

Lemma read_size_spec ll r n r1 : wf_bytes r -> read_size ll r = Some (n, r1) ->
  exists lb, r = lb ++ r1 /\ len lb = ll /\ be_enc n = lb /\ 56 <= n.
Proof.
  intros W. unfold read_size. destruct (take ll r) as [[lb r1']|] eqn:T; [|discriminate].
  apply take_spec in T as [-> L].
  destruct (no_lead0b lb && (56 <=? be_dec lb)) eqn:E; [|discriminate].
  intros H. injection H as <- <-. apply andb_prop in E as [E1 E2].
  apply Forall_app in W as [Wl _].
  exists lb. repeat split; try assumption.
  - apply be_enc_dec; [assumption|apply no_lead0b_spec; assumption].
  - lia.
Qed.

Lemma dec_canonical_all : forall fuel,
  (forall b t r, wf_bytes b -> dec fuel b = Some (t, r) -> b = rlp_encode t ++ r) /\
  (forall p l, wf_bytes p -> dec_list fuel p = Some l -> p = encode_list l).
Proof.
  induction fuel as [|f [IHd IHl]]; [split; intros; discriminate|]. split.
  - intros b t r W H. cbn [dec] in H. destruct b as [|x r0]; [discriminate|].
    inversion W as [|? ? Hx W0]; subst.
    destruct (x <? 128) eqn:E1.
    { injection H as <- <-. cbn [rlp_encode]. rewrite E1. reflexivity. }
    destruct (x <? 184) eqn:E2.
    { destruct (take (x - 128) r0) as [[s r']|] eqn:T; [|discriminate].
      apply take_spec in T as [-> L].
      assert (Hs : (forall y, s = [y] -> 128 <= y) /\ t = Str s /\ r = r').
      { destruct s as [|y [|z s']].
        - injection H as <- <-. repeat split. intros; discriminate.
        - destruct (y <? 128) eqn:Ey; [discriminate|]. injection H as <- <-. repeat split.
          intros ? Hy. injection Hy as <-. lia.
        - injection H as <- <-. repeat split. intros; discriminate. }
      destruct Hs as (Hs & -> & ->). rewrite rlp_encode_str by assumption.
      unfold header. assert (E : len s <? 56 = true) by lia. rewrite E. cbn [app]. f_equal. lia. }
    destruct (x <? 192) eqn:E3.
    { destruct (read_size (x - 183) r0) as [[n r1]|] eqn:R; [|discriminate].
      destruct (take n r1) as [[s r']|] eqn:T; [|discriminate]. injection H as <- <-.
      apply read_size_spec in R as (lb & -> & Ll & Hbe & Hn); [|assumption].
      apply take_spec in T as [-> Ls].
      rewrite rlp_encode_str.
      2:{ intros y ->. cbn in Ls. lia. }
      unfold header. assert (E : len s <? 56 = false) by lia. rewrite E. rewrite Ls, Hbe.
      cbn [app]. rewrite <- app_assoc. f_equal. lia. }
    destruct (x <? 248) eqn:E4.
    { destruct (take (x - 192) r0) as [[p r']|] eqn:T; [|discriminate].
      destruct (dec_list f p) as [l|] eqn:D; [|discriminate]. injection H as <- <-.
      apply take_spec in T as [-> L]. apply Forall_app in W0 as [Wp _].
      apply IHl in D; [|assumption]. subst p. rewrite rlp_encode_lst.
      unfold header. assert (E : len (encode_list l) <? 56 = true) by lia. rewrite E. cbn [app]. f_equal. lia. }
    destruct (read_size (x - 247) r0) as [[n r1]|] eqn:R; [|discriminate].
    destruct (take n r1) as [[p r']|] eqn:T; [|discriminate].
    destruct (dec_list f p) as [l|] eqn:D; [|discriminate]. injection H as <- <-.
    apply read_size_spec in R as (lb & -> & Ll & Hbe & Hn); [|assumption].
    apply take_spec in T as [-> Ls].
    apply Forall_app in W0 as [_ W1]. apply Forall_app in W1 as [Wp _].
    apply IHl in D; [|assumption]. subst p. rewrite rlp_encode_lst.
    unfold header. assert (E : len (encode_list l) <? 56 = false) by lia. rewrite E. rewrite Ls, Hbe.
    cbn [app]. rewrite <- app_assoc. f_equal. lia.
  - intros p l W H. cbn [dec_list] in H. destruct p as [|x p']; [injection H as <-; reflexivity|].
    destruct (dec f (x :: p')) as [[t rest]|] eqn:D; [|discriminate].
    destruct (dec_list f rest) as [l'|] eqn:DL; [|discriminate]. injection H as <-.
    apply IHd in D; [|assumption]. rewrite D in W. apply Forall_app in W as [_ Wr].
    apply IHl in DL; [|assumption]. cbn [encode_list]. rewrite D, DL. reflexivity.
Qed.

Theorem dec_canonical fuel b t r : wf_bytes b -> dec fuel b = Some (t, r) -> b = rlp_encode t ++ r.
Proof. apply (proj1 (dec_canonical_all fuel)). Qed.

(* The decoder accepts only canonical encodings: re-encoding gives the input back. *)
Theorem rlp_canonical b t : wf_bytes b -> rlp_decode b = Some t -> rlp_encode t = b.
Proof.
  intros W. unfold rlp_decode.
  destruct (dec (2 * length b + 2) b) as [[t' [|y r]]|] eqn:D; try discriminate.
  intros H. injection H as <-. apply dec_canonical in D; [|assumption]. rewrite app_nil_r in D. auto.
Qed.

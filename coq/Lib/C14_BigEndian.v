(* C14_BigEndian — minimal big-endian byte strings of naturals: Go's big.Int.Bytes()
   / new(big.Int).SetBytes(b), and the length prefix of RLP.

   INTERFACE
     be_enc n : bytes            minimal big-endian bytes, be_enc 0 = []
     be_dec b : N                value of any byte string (leading zeros allowed)
     be_dec_enc     : be_dec (be_enc n) = n
     be_enc_wf      : wf_bytes (be_enc n)
     be_enc_head    : be_enc n = x :: r -> x <> 0                 (no leading zero)
     be_enc_dec     : wf_bytes b -> no_lead0 b -> be_enc (be_dec b) = b      (canonical strings are fixed points)
     be_enc_inj     : be_enc a = be_enc b -> a = b
     be_enc_length  : n < 256 ^ k -> length (be_enc n) <= k
     be_dec_bound   : wf_bytes b -> be_dec b < 256 ^ length b
   No axioms. *)
From Coq Require Import List Arith NArith Lia Bool ZifyBool ZifyNat ZifyN.
From GQ Require Import Lib.Key Lib.C14_Varint.
Import ListNotations.
Local Open Scope N_scope.

Local Arguments N.mul : simpl never.
Local Arguments N.add : simpl never.
Local Arguments N.div : simpl never.
Local Arguments N.modulo : simpl never.
Local Arguments N.pow : simpl never.
Local Arguments N.eqb : simpl never.

Fixpoint be_fuel (fuel : nat) (n : N) (acc : bytes) : bytes :=
  match fuel with
  | O => acc
  | S f => if n =? 0 then acc else be_fuel f (n / 256) (n mod 256 :: acc)
  end.
Definition be_enc (n : N) : bytes := be_fuel (N.to_nat (N.size n)) n [].
Definition be_dec (b : bytes) : N := fold_left (fun acc x => acc * 256 + x) b 0.
Definition no_lead0 (b : bytes) : Prop := match b with [] => True | x :: _ => x <> 0 end.
Definition no_lead0b (b : bytes) : bool := match b with [] => true | x :: _ => negb (x =? 0) end.

Lemma be_fuel_acc f : forall n acc, be_fuel f n acc = be_fuel f n [] ++ acc.
Proof.
  induction f as [|f IH]; intros n acc; [reflexivity|]. cbn [be_fuel].
  destruct (n =? 0); [reflexivity|]. rewrite (IH _ (n mod 256 :: acc)), (IH _ [n mod 256]).
  rewrite <- app_assoc. reflexivity.
Qed.

Lemma size_div256 n : n <> 0 -> (N.to_nat (N.size (n / 256)) < N.to_nat (N.size n))%nat.
Proof.
  intros Hn. destruct (N.eq_dec (n / 256) 0) as [E|E].
  - rewrite E. destruct n; [congruence|]. cbn. lia.
  - assert (Hs : N.size (n / 256) < N.size n).
    { rewrite !N.size_log2 by assumption. change 256 with (2 ^ 8). rewrite <- N.shiftr_div_pow2.
      rewrite N.log2_shiftr.
      assert (256 <= n).
      { destruct (N.ltb_spec n 256); [|assumption]. rewrite N.div_small in E by assumption. congruence. }
      assert (8 <= N.log2 n) by (change 8 with (N.log2 256); apply N.log2_le_mono; assumption).
      lia. }
    lia.
Qed.

Lemma be_fuel_enough f1 : forall f2 n, (N.to_nat (N.size n) <= f1)%nat -> (N.to_nat (N.size n) <= f2)%nat ->
  be_fuel f1 n [] = be_fuel f2 n [].
Proof.
  induction f1 as [|f1 IH]; intros f2 n H1 H2.
  - assert (n = 0) by (destruct n; [reflexivity|cbn in H1; lia]). subst. destruct f2; reflexivity.
  - destruct f2 as [|f2].
    + assert (n = 0) by (destruct n; [reflexivity|cbn in H2; lia]). subst. reflexivity.
    + cbn [be_fuel]. destruct (n =? 0) eqn:E; [reflexivity|].
      rewrite (be_fuel_acc f1), (be_fuel_acc f2). f_equal.
      assert (n <> 0) by lia. pose proof (size_div256 n H). apply IH; lia.
Qed.

Lemma be_enc_0 : be_enc 0 = [].
Proof. reflexivity. Qed.

Lemma be_enc_step n : n <> 0 -> be_enc n = be_enc (n / 256) ++ [n mod 256].
Proof.
  intros H. unfold be_enc. pose proof (size_div256 n H).
  destruct (N.to_nat (N.size n)) as [|f] eqn:E; [lia|]. cbn [be_fuel].
  assert (n =? 0 = false) by lia. rewrite H1. rewrite be_fuel_acc. f_equal.
  apply be_fuel_enough; lia.
Qed.

Lemma N_ind256 (P : N -> Prop) : P 0 -> (forall n, n <> 0 -> P (n / 256) -> P n) -> forall n, P n.
Proof.
  intros H0 Hs n. induction n as [n IH] using (well_founded_induction N.lt_wf_0).
  destruct (N.eq_dec n 0) as [->|Hn]; [exact H0|]. apply Hs; [exact Hn|]. apply IH. apply N.div_lt; lia.
Qed.

Lemma be_dec_app a x : be_dec (a ++ [x]) = be_dec a * 256 + x.
Proof. unfold be_dec. rewrite fold_left_app. reflexivity. Qed.

Theorem be_dec_enc n : be_dec (be_enc n) = n.
Proof.
  induction n as [|n Hn IH] using N_ind256; [reflexivity|].
  rewrite be_enc_step by assumption. rewrite be_dec_app, IH.
  pose proof (N.div_mod n 256 ltac:(lia)). lia.
Qed.

Theorem be_enc_inj a b : be_enc a = be_enc b -> a = b.
Proof. intros H. rewrite <- (be_dec_enc a), <- (be_dec_enc b), H. reflexivity. Qed.

Theorem be_enc_wf n : wf_bytes (be_enc n).
Proof.
  unfold wf_bytes. induction n as [|n Hn IH] using N_ind256; [constructor|].
  rewrite be_enc_step by assumption. apply Forall_app. split; [exact IH|].
  constructor; [|constructor]. apply N.mod_upper_bound. lia.
Qed.

Theorem be_enc_head n x r : be_enc n = x :: r -> x <> 0.
Proof.
  revert x r. induction n as [|n Hn IH] using N_ind256; intros x r H; [discriminate|].
  rewrite be_enc_step in H by assumption.
  destruct (be_enc (n / 256)) as [|y l] eqn:E.
  - cbn in H. injection H as <- _. intros Hm.
    assert (n / 256 = 0) by (apply be_enc_inj; rewrite E; reflexivity).
    pose proof (N.div_mod n 256 ltac:(lia)). lia.
  - cbn in H. injection H as <- _. eapply IH. reflexivity.
Qed.

Lemma be_enc_snoc v x : x < 256 -> v <> 0 -> be_enc (v * 256 + x) = be_enc v ++ [x].
Proof.
  intros Hx Hv. rewrite be_enc_step by lia.
  replace ((v * 256 + x) / 256) with v by (apply N.div_unique with x; lia).
  replace ((v * 256 + x) mod 256) with x by (apply N.mod_unique with v; lia).
  reflexivity.
Qed.

Lemma be_dec_lead b x : x <> 0 -> be_dec (x :: b) <> 0.
Proof.
  intros Hx. unfold be_dec. cbn [fold_left]. replace (0 * 256 + x) with x by lia.
  revert x Hx. induction b as [|y b IH]; intros x Hx; cbn [fold_left]; [exact Hx|]. apply IH. lia.
Qed.

Theorem be_enc_dec b : wf_bytes b -> no_lead0 b -> be_enc (be_dec b) = b.
Proof.
  induction b as [|y b IH] using rev_ind; intros W L; [reflexivity|].
  apply Forall_app in W as [Wb Wy]. inversion Wy as [|? ? Hy _]; subst.
  rewrite be_dec_app. destruct b as [|x b].
  - cbn in L. cbn [be_dec fold_left app]. replace (0 * 256 + y) with y by lia.
    rewrite be_enc_step by assumption. rewrite N.div_small, N.mod_small by assumption. reflexivity.
  - cbn in L. rewrite be_enc_snoc; [|assumption|apply be_dec_lead; assumption].
    rewrite IH; [reflexivity|assumption|exact L].
Qed.

Theorem be_dec_bound b : wf_bytes b -> be_dec b < 256 ^ N.of_nat (length b).
Proof.
  induction b as [|y b IH] using rev_ind; intros W; [cbn; lia|].
  apply Forall_app in W as [Wb Wy]. inversion Wy as [|? ? Hy _]; subst.
  rewrite be_dec_app, app_length. cbn [length].
  replace (N.of_nat (length b + 1)) with (N.succ (N.of_nat (length b))) by lia.
  rewrite N.pow_succ_r'. specialize (IH Wb). lia.
Qed.

Theorem be_enc_length n : forall k, n < 256 ^ N.of_nat k -> (length (be_enc n) <= k)%nat.
Proof.
  induction n as [|n Hn IH] using N_ind256; intros k Hk; [cbn; lia|].
  rewrite be_enc_step by assumption. rewrite app_length. cbn [length].
  destruct k as [|k]; [cbn in Hk; lia|].
  assert ((length (be_enc (n / 256)) <= k)%nat); [|lia].
  apply IH. replace (N.of_nat (S k)) with (N.succ (N.of_nat k)) in Hk by lia.
  rewrite N.pow_succ_r' in Hk. apply N.div_lt_upper_bound; lia.
Qed.

Lemma be_enc_nonzero n : n <> 0 -> be_enc n <> [].
Proof. intros H E. apply H. apply be_enc_inj. rewrite E. reflexivity. Qed.

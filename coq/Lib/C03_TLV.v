(* C03 — self-contained tag/length/value wire encoding (the protobuf wire format
   restricted to varint and length-delimited fields) with its uniqueness facts:
   base-128 varints are prefix-free, hence a concatenation of fields parses in
   at most one way; minimal big-endian byte strings (math/big Int.Bytes) are
   injective on naturals.  Bytes are [N]; nothing below needs them to be < 256
   except where stated.  Deliberately independent of Lib/C14_*. *)
From Coq Require Import List NArith Bool Lia ZifyBool ZifyNat ZifyN.
Import ListNotations.
Local Open Scope N_scope.

(* ---------- base-128 varint (protowire.AppendVarint) ---------- *)

(* fuel-driven; [varint] supplies enough fuel for every N *)
Fixpoint varint_f (f : nat) (n : N) : list N :=
  match f with
  | O => [n]
  | S f' => if n <? 128 then [n] else (128 + n mod 128) :: varint_f f' (n / 128)
  end.

Definition varint (n : N) : list N := varint_f (N.size_nat n) n.

(* ---------- fields and messages ---------- *)

Inductive fval := VInt (n : N) | VBytes (b : list N).
Definition field := (N * fval)%type.               (* field number, value *)

Definition len (b : list N) : N := N.of_nat (length b).

Definition encode_field (f : field) : list N :=
  match snd f with
  | VInt n => varint (fst f * 8) ++ varint n
  | VBytes b => varint (fst f * 8 + 2) ++ varint (len b) ++ b
  end.

Definition encode_msg (fs : list field) : list N := concat (map encode_field fs).

(* proto3 implicit-presence bytes field: omitted when empty *)
Definition opt_bytes_field (tag : N) (b : list N) : list field :=
  match b with [] => [] | _ => [(tag, VBytes b)] end.

(* explicit-presence (optional) field carried by an option *)
Definition opt_field (tag : N) (o : option fval) : list field :=
  match o with None => [] | Some v => [(tag, v)] end.

(* ---------- minimal big-endian bytes of a natural (big.Int.Bytes) ---------- *)

Fixpoint le_bytes_f (f : nat) (n : N) : list N :=
  match f with
  | O => []
  | S f' => if n =? 0 then [] else (n mod 256) :: le_bytes_f f' (n / 256)
  end.

Definition be_bytes (n : N) : list N := rev (le_bytes_f (N.size_nat n) n).

Fixpoint from_le (l : list N) : N :=
  match l with
  | [] => 0
  | b :: l' => b + 256 * from_le l'
  end.

(* list-of-bytes equality (decidable) *)
Fixpoint bytes_eqb (a b : list N) : bool :=
  match a, b with
  | [], [] => true
  | x :: a', y :: b' => (x =? y) && bytes_eqb a' b'
  | _, _ => false
  end.

(* A small expression language for the guard conditions that the C04 generator
   copies out of core/state_processor.go (Process): unsigned arithmetic and
   boolean connectives over a handful of named quantities.  Definitions only. *)
From Coq Require Import List NArith Bool.
Import ListNotations.
Local Open Scope N_scope.

(* arithmetic variables *)
Definition V_NUM : N := 0.       (* block.NumberU64(common.ZONE_CTX) *)
Definition V_COUNT : N := 1.     (* etxCount *)
Definition V_GAS : N := 2.       (* totalEtxGas *)
Definition V_GASLIMIT : N := 3.  (* header.GasLimit() *)
(* boolean variables *)
Definition B_AVAIL : N := 0.     (* etxAvailable *)

Inductive aexp :=
| AVar (v : N)
| AConst (c : N)
| ADiv (a b : aexp)
| AMul (a b : aexp)
| AAdd (a b : aexp)
| ASub (a b : aexp).

Inductive bexp :=
| BVar (v : N)
| BLe (a b : aexp)
| BLt (a b : aexp)
| BGe (a b : aexp)
| BGt (a b : aexp)
| BEq (a b : aexp)
| BAnd (x y : bexp)
| BOr (x y : bexp)
| BNot (x : bexp).

Fixpoint aeval (ea : N -> N) (a : aexp) : N :=
  match a with
  | AVar v => ea v
  | AConst c => c
  | ADiv x y => aeval ea x / aeval ea y
  | AMul x y => aeval ea x * aeval ea y
  | AAdd x y => aeval ea x + aeval ea y
  | ASub x y => aeval ea x - aeval ea y
  end.

Fixpoint beval (ea : N -> N) (eb : N -> bool) (b : bexp) : bool :=
  match b with
  | BVar v => eb v
  | BLe x y => aeval ea x <=? aeval ea y
  | BLt x y => aeval ea x <? aeval ea y
  | BGe x y => aeval ea y <=? aeval ea x
  | BGt x y => aeval ea y <? aeval ea x
  | BEq x y => aeval ea x =? aeval ea y
  | BAnd x y => beval ea eb x && beval ea eb y
  | BOr x y => beval ea eb x || beval ea eb y
  | BNot x => negb (beval ea eb x)
  end.

Fixpoint aexp_eqb (a b : aexp) : bool :=
  match a, b with
  | AVar x, AVar y => x =? y
  | AConst x, AConst y => x =? y
  | ADiv a1 a2, ADiv b1 b2 => aexp_eqb a1 b1 && aexp_eqb a2 b2
  | AMul a1 a2, AMul b1 b2 => aexp_eqb a1 b1 && aexp_eqb a2 b2
  | AAdd a1 a2, AAdd b1 b2 => aexp_eqb a1 b1 && aexp_eqb a2 b2
  | ASub a1 a2, ASub b1 b2 => aexp_eqb a1 b1 && aexp_eqb a2 b2
  | _, _ => false
  end.

Fixpoint bexp_eqb (a b : bexp) : bool :=
  match a, b with
  | BVar x, BVar y => x =? y
  | BLe a1 a2, BLe b1 b2 => aexp_eqb a1 b1 && aexp_eqb a2 b2
  | BLt a1 a2, BLt b1 b2 => aexp_eqb a1 b1 && aexp_eqb a2 b2
  | BGe a1 a2, BGe b1 b2 => aexp_eqb a1 b1 && aexp_eqb a2 b2
  | BGt a1 a2, BGt b1 b2 => aexp_eqb a1 b1 && aexp_eqb a2 b2
  | BEq a1 a2, BEq b1 b2 => aexp_eqb a1 b1 && aexp_eqb a2 b2
  | BAnd a1 a2, BAnd b1 b2 => bexp_eqb a1 b1 && bexp_eqb a2 b2
  | BOr a1 a2, BOr b1 b2 => bexp_eqb a1 b1 && bexp_eqb a2 b2
  | BNot a1, BNot b1 => bexp_eqb a1 b1
  | _, _ => false
  end.

Lemma aexp_eqb_eq a : forall b, aexp_eqb a b = true -> a = b.
Proof.
  induction a; intros [] H; cbn in H; try discriminate;
    try (apply N.eqb_eq in H; subst; reflexivity);
    apply andb_prop in H as [H1 H2]; f_equal; auto.
Qed.

Lemma bexp_eqb_eq a : forall b, bexp_eqb a b = true -> a = b.
Proof.
  induction a; intros [] H; cbn in H; try discriminate;
    try (apply N.eqb_eq in H; subst; reflexivity);
    try (apply andb_prop in H as [H1 H2]; f_equal; auto using aexp_eqb_eq);
    f_equal; auto.
Qed.

(* C14_ProtoWireFacts — theorems about Lib/C14_ProtoWire.v (see its header for the interface).

   decode_encode            : schema_ok sc -> wf_msg sc id m -> len (encode m) < 2^64 ->
                              decode sc id (encode m) = Some m
   encode_inj               : ... wf m1 -> wf m2 -> encode m1 = encode m2 -> m1 = m2
   parse_encode             : parse (encode m) = Some (map rec_of m)
   encode_wf_bytes          : wf_msg sc id m -> wf_bytes (encode m)
   No axioms. *)
From Coq Require Import List Arith NArith Lia Bool ZifyBool ZifyNat ZifyN.
From GQ Require Import Lib.Key Lib.C14_Varint Lib.C14_ProtoWire.
Import ListNotations.
Local Open Scope N_scope.

Local Arguments N.mul : simpl never.
Local Arguments N.add : simpl never.
Local Arguments N.sub : simpl never.
Local Arguments N.div : simpl never.
Local Arguments N.modulo : simpl never.
Local Arguments N.pow : simpl never.
Local Arguments N.ltb : simpl never.
Local Arguments N.leb : simpl never.
Local Arguments N.eqb : simpl never.
Local Arguments C14_Varint.encode : simpl never.
Local Arguments C14_Varint.decode : simpl never.

(* ------------------------------------------------------------------ *)
(* encoder shape                                                      *)

Lemma enc_inner_eq m :
  (fix go (l : list (N * fval)) : bytes :=
     match l with
     | [] => []
     | e :: t => (let '(wt, pl) := enc_fval (snd e) in tag (fst e) wt ++ pl) ++ go t
     end) m = encode m.
Proof. induction m as [|e t IH]; [reflexivity|]. cbn [encode]. unfold enc_entry. rewrite IH. reflexivity. Qed.

Lemma enc_fval_msg m : enc_fval (FMsg m) = (2, C14_Varint.encode (len (encode m)) ++ encode m).
Proof. cbn [enc_fval]. rewrite enc_inner_eq. reflexivity. Qed.

Lemma encode_app a b : encode (a ++ b) = encode a ++ encode b.
Proof. induction a as [|e a IH]; [reflexivity|]. cbn [app encode]. rewrite IH, app_assoc. reflexivity. Qed.

Definition wval_of (v : fval) : wval :=
  match v with
  | FInt n => WVarint n
  | FBytes b => WBytes b
  | FMsg m => WBytes (encode m)
  end.
Definition rec_of (e : N * fval) : record := (fst e, wval_of (snd e)).

Definition wt_of (v : fval) : N := match v with FInt _ => 0 | _ => 2 end.
Definition payload_of (v : fval) : bytes :=
  match v with
  | FInt n => C14_Varint.encode n
  | FBytes b => C14_Varint.encode (len b) ++ b
  | FMsg m => C14_Varint.encode (len (encode m)) ++ encode m
  end.

Lemma enc_entry_eq k v : enc_entry (k, v) = tag k (wt_of v) ++ payload_of v.
Proof.
  unfold enc_entry. cbn [fst snd]. destruct v as [n|b|m].
  - reflexivity.
  - reflexivity.
  - rewrite enc_fval_msg. reflexivity.
Qed.

Lemma tag_nonempty k wt : tag k wt <> [].
Proof. apply C14_Varint.encode_nonempty. Qed.

Lemma enc_entry_length_pos e : (1 <= length (enc_entry e))%nat.
Proof.
  destruct e as [k v]. rewrite enc_entry_eq, app_length.
  pose proof (tag_nonempty k (wt_of v)). destruct (tag k (wt_of v)); [congruence|cbn; lia].
Qed.

Lemma encode_in_length e m : In e m -> (length (enc_entry e) <= length (encode m))%nat.
Proof.
  induction m as [|x m IH]; [intros []|]. intros [->|H]; cbn [encode]; rewrite app_length; [lia|].
  specialize (IH H). lia.
Qed.

Lemma nested_shorter k sub m : In (k, FMsg sub) m -> (length (encode sub) < length (encode m))%nat.
Proof.
  intros H. apply encode_in_length in H. rewrite enc_entry_eq in H. cbn [payload_of] in H.
  rewrite !app_length in H. pose proof (tag_nonempty k (wt_of (FMsg sub))).
  destruct (tag k (wt_of (FMsg sub))); [congruence|]. cbn [length] in H. lia.
Qed.

Lemma bytes_shorter k b m : In (k, FBytes b) m -> (length b < length (encode m))%nat.
Proof.
  intros H. apply encode_in_length in H. rewrite enc_entry_eq in H. cbn [payload_of] in H.
  rewrite !app_length in H. pose proof (tag_nonempty k (wt_of (FBytes b))).
  destruct (tag k (wt_of (FBytes b))); [congruence|]. cbn [length] in H. lia.
Qed.

(* ------------------------------------------------------------------ *)
(* wire-level round trip                                              *)

Definition val_small (v : fval) : Prop :=
  match v with
  | FInt n => n < u64
  | FBytes b => len b < u64
  | FMsg m => len (encode m) < u64
  end.
Definition entry_small (e : N * fval) : Prop := 1 <= fst e <= max_field /\ val_small (snd e).

Lemma firstn_len_app (a b : bytes) : firstn (N.to_nat (len a)) (a ++ b) = a.
Proof.
  unfold len. rewrite Nnat.Nat2N.id. rewrite firstn_app, Nat.sub_diag, firstn_all. cbn. apply app_nil_r.
Qed.
Lemma skipn_len_app (a b : bytes) : skipn (N.to_nat (len a)) (a ++ b) = b.
Proof.
  unfold len. rewrite Nnat.Nat2N.id. rewrite skipn_app, Nat.sub_diag, skipn_all. reflexivity.
Qed.

Lemma parse_record_entry e rest : entry_small e ->
  parse_record (enc_entry e ++ rest) = Some (rec_of e, rest).
Proof.
  destruct e as [k v]. intros [[Hk1 Hk2] Hv]. cbn [fst snd] in *.
  rewrite enc_entry_eq, <- app_assoc. unfold parse_record, tag.
  assert (Hmax : max_field = 536870911) by reflexivity.
  assert (Hwt : wt_of v = 0 \/ wt_of v = 2) by (destruct v; cbn; auto).
  rewrite C14_Varint.decode_encode by (unfold u64; lia).
  assert (Hd : (k * 8 + wt_of v) / 8 = k) by (symmetry; apply N.div_unique with (wt_of v); lia).
  assert (Hm : (k * 8 + wt_of v) mod 8 = wt_of v) by (symmetry; apply N.mod_unique with k; lia).
  rewrite Hd, Hm.
  assert (E1 : (k =? 0) || (max_field <? k) = false) by lia. rewrite E1.
  unfold rec_of. cbn [fst snd].
  destruct v as [n|b|m]; cbn [wt_of payload_of wval_of val_small] in *.
  - change (0 =? 0) with true. cbv iota. rewrite C14_Varint.decode_encode by assumption. reflexivity.
  - change (2 =? 0) with false. change (2 =? 1) with false. change (2 =? 2) with true. cbv iota.
    rewrite <- app_assoc. rewrite C14_Varint.decode_encode by assumption.
    assert (E2 : len (b ++ rest) <? len b = false) by (rewrite len_app; lia). rewrite E2.
    rewrite firstn_len_app, skipn_len_app. reflexivity.
  - change (2 =? 0) with false. change (2 =? 1) with false. change (2 =? 2) with true. cbv iota.
    rewrite <- app_assoc. rewrite C14_Varint.decode_encode by assumption.
    assert (E2 : len (encode m ++ rest) <? len (encode m) = false) by (rewrite len_app; lia). rewrite E2.
    rewrite firstn_len_app, skipn_len_app. reflexivity.
Qed.

Lemma parse_records_encode m : Forall entry_small m ->
  forall fuel, (length (encode m) <= fuel)%nat -> parse_records fuel (encode m) = Some (map rec_of m).
Proof.
  induction m as [|e m IH]; intros HF fuel Hf.
  - destruct fuel; reflexivity.
  - inversion HF as [|? ? He Hm]; subst. cbn [encode] in *.
    pose proof (enc_entry_length_pos e) as Hpos. rewrite app_length in Hf.
    destruct (enc_entry e ++ encode m) as [|x l] eqn:E.
    { apply (f_equal (@length N)) in E. rewrite app_length in E. cbn in E. lia. }
    destruct fuel as [|fuel]; [lia|]. cbn [parse_records]. rewrite <- E.
    rewrite parse_record_entry by assumption.
    rewrite IH by (assumption || lia). reflexivity.
Qed.

Theorem parse_encode m : Forall entry_small m -> parse (encode m) = Some (map rec_of m).
Proof. intros H. unfold parse. apply parse_records_encode; [assumption|lia]. Qed.

(* ------------------------------------------------------------------ *)
(* schema facts                                                       *)

Lemma nums_increasing_spec d : forall prev, nums_increasing prev d = true ->
  forall fd, In fd d -> prev < f_num fd <= max_field.
Proof.
  induction d as [|x d IH]; intros prev H fd Hin; [destruct Hin|].
  cbn [nums_increasing] in H. apply andb_prop in H as [H H3]. apply andb_prop in H as [H1 H2].
  destruct Hin as [->|Hin]; [lia|]. specialize (IH _ H3 _ Hin). lia.
Qed.

Lemma find_field_some desc k fd : find_field desc k = Some fd -> In fd desc /\ f_num fd = k.
Proof.
  unfold find_field. intros H. apply find_some in H as [H1 H2]. split; [assumption|lia].
Qed.

Lemma find_field_unique d : forall prev, nums_increasing prev d = true ->
  forall fd, In fd d -> find_field d (f_num fd) = Some fd.
Proof.
  induction d as [|x d IH]; intros prev H fd Hin; [destruct Hin|].
  cbn [nums_increasing] in H. apply andb_prop in H as [H H3]. apply andb_prop in H as [H1 H2].
  unfold find_field. cbn [find]. destruct Hin as [->|Hin].
  - rewrite N.eqb_refl. reflexivity.
  - pose proof (nums_increasing_spec _ _ H3 _ Hin) as Hlt.
    assert (E : f_num x =? f_num fd = false) by lia. rewrite E. exact (IH _ H3 _ Hin).
Qed.

Lemma schema_ok_desc sc id desc : schema_ok sc = true -> nth_error sc (N.to_nat id) = Some desc ->
  nums_increasing 0 desc = true /\ forallb (field_ok (N.of_nat (length sc))) desc = true.
Proof.
  unfold schema_ok. intros H Hn. rewrite forallb_forall in H. apply nth_error_In in Hn.
  specialize (H _ Hn). unfold desc_ok in H. apply andb_prop in H. exact H.
Qed.

Lemma wf_msg_unfold sc id m : wf_msg sc id m = true ->
  exists desc, nth_error sc (N.to_nat id) = Some desc /\
    (forall e, In e m -> exists fd, find_field desc (fst e) = Some fd /\
                          wf_val sc (f_kind fd) (snd e) = true /\ nonzero_ok fd (snd e) = true) /\
    ordered desc m = true /\ oneof_ok desc m = true.
Proof.
  unfold wf_msg. cbn [wf_val]. destruct (nth_error sc (N.to_nat id)) as [desc|]; [|discriminate].
  intros H. apply andb_prop in H as [H H3]. apply andb_prop in H as [H1 H2].
  exists desc. split; [reflexivity|]. split; [|split; assumption].
  intros e He. rewrite forallb_forall in H1. specialize (H1 _ He).
  destruct (find_field desc (fst e)) as [fd|]; [|discriminate].
  apply andb_prop in H1 as [Ha Hb]. exists fd. auto.
Qed.

Lemma wf_val_wt_ok sc k v : wf_val sc k v = true -> wt_ok k (wval_of v) = true.
Proof. destruct k, v; cbn; intros H; try discriminate; reflexivity. Qed.

Lemma wf_val_msg sc k sub : wf_val sc k (FMsg sub) = true -> exists ref, k = KMsg ref /\ wf_msg sc ref sub = true.
Proof. destruct k; cbn [wf_val]; intros H; try discriminate. exists ref. split; [reflexivity|exact H]. Qed.

(* ------------------------------------------------------------------ *)
(* collect                                                            *)

Lemma collect_no_reset fd others rs :
  (forall r, In r rs -> existsb (fun o => matches o r) others = false) ->
  forall acc, collect fd others rs acc = acc ++ map snd (filter (matches fd) rs).
Proof.
  induction rs as [|r rs IH]; intros H acc; cbn [collect filter map].
  - rewrite app_nil_r. reflexivity.
  - assert (Hr := H r (or_introl eq_refl)).
    assert (Hrs : forall r0, In r0 rs -> existsb (fun o => matches o r0) others = false)
      by (intros; apply H; right; assumption).
    destruct (matches fd r) eqn:E.
    + rewrite IH by assumption. cbn [map]. rewrite <- app_assoc. reflexivity.
    + rewrite Hr. apply IH. assumption.
Qed.

Lemma collect_none fd others rs :
  (forall r, In r rs -> matches fd r = false) -> collect fd others rs [] = [].
Proof.
  induction rs as [|r rs IH]; intros H; cbn [collect]; [reflexivity|].
  rewrite (H r (or_introl eq_refl)).
  destruct (existsb (fun o => matches o r) others); apply IH; intros; apply H; right; assumption.
Qed.

(* ------------------------------------------------------------------ *)
(* order                                                              *)

Definition nondec (m : msg) : Prop :=
  forall a b t1 t2, m = t1 ++ a :: b :: t2 -> fst a <= fst b.

Fixpoint nondecb (m : msg) : Prop :=
  match m with
  | [] => True
  | e :: t => (forall e', In e' t -> fst e <= fst e') /\ nondecb t
  end.

Lemma ordered_nondecb desc m : ordered desc m = true -> nondecb m.
Proof.
  induction m as [|e t IH]; intros H; [exact I|].
  cbn [ordered] in H. destruct t as [|e1 t'].
  - split; [intros ? []|exact I].
  - apply andb_prop in H as [H1 H2]. specialize (IH H2). split; [|exact IH].
    intros e' [<-|Hin]; [lia|]. destruct IH as [IHa _]. specialize (IHa _ Hin). lia.
Qed.

(* a singular field occurs at most once *)
Lemma ordered_dup_rep desc m : ordered desc m = true ->
  forall e t, m = e :: t -> forall e', In e' t -> fst e' = fst e -> rep_num desc (fst e) = true.
Proof.
  intros H e t -> e' Hin Heq.
  destruct t as [|e1 t']; [destruct Hin|].
  pose proof (ordered_nondecb _ _ H) as [Hle [Hle1 _]].
  cbn [ordered] in H. apply andb_prop in H as [H1 _].
  assert (fst e1 = fst e).
  { pose proof (Hle e1 (or_introl eq_refl)). destruct Hin as [<-|Hin]; [lia|]. specialize (Hle1 _ Hin). lia. }
  destruct (fst e <? fst e1) eqn:E; [lia|]. cbn [orb] in H1. apply andb_prop in H1 as [_ H1]. exact H1.
Qed.

Lemma ordered_tail desc e t : ordered desc (e :: t) = true -> ordered desc t = true.
Proof. cbn [ordered]. destruct t; [reflexivity|]. intros H. apply andb_prop in H as [_ H]. exact H. Qed.

Lemma ordered_singular desc m k : ordered desc m = true -> rep_num desc k = false ->
  (length (filter (fun e => fst e =? k) m) <= 1)%nat.
Proof.
  induction m as [|e t IH]; intros H Hk; cbn [filter]; [cbn; lia|].
  pose proof (ordered_tail _ _ _ H) as Ht. specialize (IH Ht Hk).
  destruct (fst e =? k) eqn:E; [|exact IH].
  assert (fst e = k) by lia. subst k.
  assert (filter (fun e0 => fst e0 =? fst e) t = []) as ->; [|cbn; lia].
  destruct (filter (fun e0 => fst e0 =? fst e) t) as [|x l] eqn:F; [reflexivity|].
  assert (Hx : In x (filter (fun e0 => fst e0 =? fst e) t)) by (rewrite F; left; reflexivity).
  apply filter_In in Hx as [Hx1 Hx2].
  pose proof (ordered_dup_rep _ _ H e t eq_refl x Hx1 ltac:(lia)). congruence.
Qed.

Lemma nondecb_filter f m : nondecb m -> nondecb (filter f m).
Proof.
  induction m as [|e t IH]; intros H; [exact I|]. destruct H as [Ha Hb]. cbn [filter].
  destruct (f e); [|apply IH; exact Hb]. split; [|apply IH; exact Hb].
  intros e' He'. apply filter_In in He' as [He' _]. apply Ha. exact He'.
Qed.

Lemma split_min n m : nondecb m -> (forall e, In e m -> n <= fst e) ->
  m = filter (fun e => fst e =? n) m ++ filter (fun e => negb (fst e =? n)) m.
Proof.
  induction m as [|e t IH]; intros H Hmin; [reflexivity|].
  destruct H as [Ha Hb]. cbn [filter].
  destruct (fst e =? n) eqn:E; cbn [negb].
  - cbn [app]. f_equal. apply IH; [exact Hb|]. intros; apply Hmin; right; assumption.
  - assert (Hgt : n < fst e) by (pose proof (Hmin e (or_introl eq_refl)); lia).
    assert (F1 : filter (fun e0 => fst e0 =? n) t = []).
    { destruct (filter (fun e0 => fst e0 =? n) t) as [|x l] eqn:F; [reflexivity|].
      assert (Hx : In x (filter (fun e0 => fst e0 =? n) t)) by (rewrite F; left; reflexivity).
      apply filter_In in Hx as [Hx1 Hx2]. specialize (Ha _ Hx1). lia. }
    assert (F2 : filter (fun e0 => negb (fst e0 =? n)) t = t).
    { clear IH F1 Hb. induction t as [|y t IHt]; [reflexivity|]. cbn [filter].
      assert (n < fst y) by (pose proof (Ha y (or_introl eq_refl)); lia).
      assert (E2 : fst y =? n = false) by lia. rewrite E2. cbn [negb]. f_equal.
      apply IHt; [intros; apply Ha; right; assumption|]. intros; apply Hmin.
      destruct H0 as [->|H0]; [left; reflexivity|right; right; assumption]. }
    rewrite F1, F2. reflexivity.
Qed.

Lemma filter_filter_ne (n n' : N) (m : msg) : n' <> n ->
  filter (fun e => fst e =? n') (filter (fun e => negb (fst e =? n)) m) = filter (fun e => fst e =? n') m.
Proof.
  intros Hne. induction m as [|e t IH]; [reflexivity|]. cbn [filter].
  destruct (fst e =? n) eqn:E; cbn [negb].
  - assert (E2 : fst e =? n' = false) by lia. rewrite E2. exact IH.
  - cbn [filter]. destruct (fst e =? n'); [f_equal|]; exact IH.
Qed.

Lemma by_field_partition desc : forall prev, nums_increasing prev desc = true ->
  forall m, nondecb m -> (forall e, In e m -> exists fd, In fd desc /\ f_num fd = fst e) ->
  flat_map (fun fd => filter (fun e => fst e =? f_num fd) m) desc = m.
Proof.
  induction desc as [|fd ds IH]; intros prev Hinc m Hnd Hkeys.
  - destruct m as [|e t]; [reflexivity|]. destruct (Hkeys e (or_introl eq_refl)) as (? & [] & _).
  - cbn [flat_map].
    pose proof Hinc as Hinc'. cbn [nums_increasing] in Hinc'.
    apply andb_prop in Hinc' as [Hx Hds]. apply andb_prop in Hx as [Hp Hmx].
    assert (Hmin : forall e, In e m -> f_num fd <= fst e).
    { intros e He. destruct (Hkeys e He) as (fd' & [<-|Hin] & Hn); [lia|].
      pose proof (nums_increasing_spec _ _ Hds _ Hin). lia. }
    rewrite (split_min (f_num fd) m Hnd Hmin) at 3. f_equal.
    rewrite <- (IH _ Hds (filter (fun e => negb (fst e =? f_num fd)) m)).
    + apply flat_map_ext_in_compat. intros fd' Hin. symmetry. apply filter_filter_ne.
      pose proof (nums_increasing_spec _ _ Hds _ Hin). lia.
    + apply nondecb_filter. exact Hnd.
    + intros e He. apply filter_In in He as [He Hne].
      destruct (Hkeys e He) as (fd' & [<-|Hin] & Hn); [lia|]. exists fd'. auto.
Qed.

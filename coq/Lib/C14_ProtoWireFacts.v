(* C14_ProtoWireFacts — theorems about Lib/C14_ProtoWire.v (see its header for the interface).

   decode_encode            : schema_ok sc -> wf_msg sc id m -> len (encode m) < 2^64 ->
                              decode sc id (encode m) = Some m
   encode_inj               : ... wf m1 -> wf m2 -> encode m1 = encode m2 -> m1 = m2
   parse_encode             : Forall entry_small m -> parse (encode m) = Some (map rec_of m)
   (normal-form facts about the decoder: Lib/C14_ProtoWireNF.v)
   No axioms. *)
From Coq Require Import List Arith NArith Lia Bool ZifyBool ZifyNat ZifyN.
From GQ Require Import Lib.Key Lib.C14_Varint Lib.C14_ProtoWire.
Import ListNotations.
Local Open Scope N_scope.

Local Arguments N.mul : simpl never.
Local Arguments N.add : simpl never.
Local Arguments N.sub : simpl never.
Local Arguments N.div : simpl never.
Local Arguments N.modulo : simpl never.
Local Arguments N.pow : simpl never.
Local Arguments N.ltb : simpl never.
Local Arguments N.leb : simpl never.
Local Arguments N.eqb : simpl never.
Local Arguments C14_Varint.encode : simpl never.
Local Arguments C14_Varint.decode : simpl never.

(* ------------------------------------------------------------------ *)
(* encoder shape                                                      *)

Lemma enc_inner_eq m :
  (fix go (l : list (N * fval)) : bytes :=
     match l with
     | [] => []
     | e :: t => (let '(wt, pl) := enc_fval (snd e) in tag (fst e) wt ++ pl) ++ go t
     end) m = encode m.
Proof. induction m as [|e t IH]; [reflexivity|]. cbn [encode]. unfold enc_entry. rewrite IH. reflexivity. Qed.

Lemma enc_fval_msg m : enc_fval (FMsg m) = (2, C14_Varint.encode (len (encode m)) ++ encode m).
Proof. cbn [enc_fval]. rewrite enc_inner_eq. reflexivity. Qed.

Lemma encode_app a b : encode (a ++ b) = encode a ++ encode b.
Proof. induction a as [|e a IH]; [reflexivity|]. cbn [app encode]. rewrite IH, app_assoc. reflexivity. Qed.

Definition wval_of (v : fval) : wval :=
  match v with
  | FInt n => WVarint n
  | FBytes b => WBytes b
  | FMsg m => WBytes (encode m)
  end.
Definition rec_of (e : N * fval) : record := (fst e, wval_of (snd e)).

Definition wt_of (v : fval) : N := match v with FInt _ => 0 | _ => 2 end.
Definition payload_of (v : fval) : bytes :=
  match v with
  | FInt n => C14_Varint.encode n
  | FBytes b => C14_Varint.encode (len b) ++ b
  | FMsg m => C14_Varint.encode (len (encode m)) ++ encode m
  end.

Lemma enc_entry_eq k v : enc_entry (k, v) = tag k (wt_of v) ++ payload_of v.
Proof.
  unfold enc_entry. cbn [fst snd]. destruct v as [n|b|m].
  - reflexivity.
  - reflexivity.
  - rewrite enc_fval_msg. reflexivity.
Qed.

Lemma tag_nonempty k wt : tag k wt <> [].
Proof. apply C14_Varint.encode_nonempty. Qed.

Lemma enc_entry_length_pos e : (1 <= length (enc_entry e))%nat.
Proof.
  destruct e as [k v]. rewrite enc_entry_eq, app_length.
  pose proof (tag_nonempty k (wt_of v)). destruct (tag k (wt_of v)); [congruence|cbn; lia].
Qed.

Lemma encode_in_length e m : In e m -> (length (enc_entry e) <= length (encode m))%nat.
Proof.
  induction m as [|x m IH]; [intros []|]. intros [->|H]; cbn [encode]; rewrite app_length; [lia|].
  specialize (IH H). lia.
Qed.

Lemma nested_shorter k sub m : In (k, FMsg sub) m -> (length (encode sub) < length (encode m))%nat.
Proof.
  intros H. apply encode_in_length in H. rewrite enc_entry_eq in H. cbn [payload_of] in H.
  rewrite !app_length in H. pose proof (tag_nonempty k (wt_of (FMsg sub))).
  destruct (tag k (wt_of (FMsg sub))); [congruence|]. cbn [length] in H. lia.
Qed.

Lemma bytes_shorter k b m : In (k, FBytes b) m -> (length b < length (encode m))%nat.
Proof.
  intros H. apply encode_in_length in H. rewrite enc_entry_eq in H. cbn [payload_of] in H.
  rewrite !app_length in H. pose proof (tag_nonempty k (wt_of (FBytes b))).
  destruct (tag k (wt_of (FBytes b))); [congruence|]. cbn [length] in H. lia.
Qed.

(* ------------------------------------------------------------------ *)
(* wire-level round trip                                              *)

Definition val_small (v : fval) : Prop :=
  match v with
  | FInt n => n < u64
  | FBytes b => len b < u64
  | FMsg m => len (encode m) < u64
  end.
Definition entry_small (e : N * fval) : Prop := 1 <= fst e <= max_field /\ val_small (snd e).

Lemma firstn_len_app (a b : bytes) : firstn (N.to_nat (len a)) (a ++ b) = a.
Proof.
  unfold len. rewrite Nnat.Nat2N.id. rewrite firstn_app, Nat.sub_diag, firstn_all. cbn. apply app_nil_r.
Qed.
Lemma skipn_len_app (a b : bytes) : skipn (N.to_nat (len a)) (a ++ b) = b.
Proof.
  unfold len. rewrite Nnat.Nat2N.id. rewrite skipn_app, Nat.sub_diag, skipn_all. reflexivity.
Qed.

Lemma parse_record_entry e rest : entry_small e ->
  parse_record (enc_entry e ++ rest) = Some (rec_of e, rest).
Proof.
  destruct e as [k v]. intros [[Hk1 Hk2] Hv]. cbn [fst snd] in *.
  rewrite enc_entry_eq, <- app_assoc. unfold parse_record, tag.
  assert (Hmax : max_field = 536870911) by reflexivity.
  assert (Hwt : wt_of v = 0 \/ wt_of v = 2) by (destruct v; cbn; auto).
  rewrite C14_Varint.decode_encode by (unfold u64; lia).
  assert (Hd : (k * 8 + wt_of v) / 8 = k) by (symmetry; apply N.div_unique with (wt_of v); lia).
  assert (Hm : (k * 8 + wt_of v) mod 8 = wt_of v) by (symmetry; apply N.mod_unique with k; lia).
  rewrite Hd, Hm.
  assert (E1 : (k =? 0) || (max_field <? k) = false) by lia. rewrite E1.
  unfold rec_of. cbn [fst snd].
  destruct v as [n|b|m]; cbn [wt_of payload_of wval_of val_small] in *.
  - change (0 =? 0) with true. cbv iota. rewrite C14_Varint.decode_encode by assumption. reflexivity.
  - change (2 =? 0) with false. change (2 =? 1) with false. change (2 =? 2) with true. cbv iota.
    rewrite <- app_assoc. rewrite C14_Varint.decode_encode by assumption.
    assert (E2 : len (b ++ rest) <? len b = false) by (rewrite len_app; lia). rewrite E2.
    rewrite firstn_len_app, skipn_len_app. reflexivity.
  - change (2 =? 0) with false. change (2 =? 1) with false. change (2 =? 2) with true. cbv iota.
    rewrite <- app_assoc. rewrite C14_Varint.decode_encode by assumption.
    assert (E2 : len (encode m ++ rest) <? len (encode m) = false) by (rewrite len_app; lia). rewrite E2.
    rewrite firstn_len_app, skipn_len_app. reflexivity.
Qed.

Lemma parse_records_encode m : Forall entry_small m ->
  forall fuel, (length (encode m) <= fuel)%nat -> parse_records fuel (encode m) = Some (map rec_of m).
Proof.
  induction m as [|e m IH]; intros HF fuel Hf.
  - destruct fuel; reflexivity.
  - inversion HF as [|? ? He Hm]; subst. cbn [encode] in *.
    pose proof (enc_entry_length_pos e) as Hpos. rewrite app_length in Hf.
    destruct (enc_entry e ++ encode m) as [|x l] eqn:E.
    { apply (f_equal (@length N)) in E. rewrite app_length in E. cbn in E. lia. }
    destruct fuel as [|fuel]; [lia|]. cbn [parse_records]. rewrite <- E.
    rewrite parse_record_entry by assumption.
    rewrite IH by (assumption || lia). reflexivity.
Qed.

Theorem parse_encode m : Forall entry_small m -> parse (encode m) = Some (map rec_of m).
Proof. intros H. unfold parse. apply parse_records_encode; [assumption|lia]. Qed.

(* ------------------------------------------------------------------ *)
(* schema facts                                                       *)

Lemma nums_increasing_spec d : forall prev, nums_increasing prev d = true ->
  forall fd, In fd d -> prev < f_num fd <= max_field.
Proof.
  induction d as [|x d IH]; intros prev H fd Hin; [destruct Hin|].
  cbn [nums_increasing] in H. apply andb_prop in H as [H H3]. apply andb_prop in H as [H1 H2].
  destruct Hin as [->|Hin]; [lia|]. specialize (IH _ H3 _ Hin). lia.
Qed.

Lemma find_field_some desc k fd : find_field desc k = Some fd -> In fd desc /\ f_num fd = k.
Proof.
  unfold find_field. intros H. apply find_some in H as [H1 H2]. split; [assumption|lia].
Qed.

Lemma find_field_unique d : forall prev, nums_increasing prev d = true ->
  forall fd, In fd d -> find_field d (f_num fd) = Some fd.
Proof.
  induction d as [|x d IH]; intros prev H fd Hin; [destruct Hin|].
  cbn [nums_increasing] in H. apply andb_prop in H as [H H3]. apply andb_prop in H as [H1 H2].
  unfold find_field. cbn [find]. destruct Hin as [->|Hin].
  - rewrite N.eqb_refl. reflexivity.
  - pose proof (nums_increasing_spec _ _ H3 _ Hin) as Hlt.
    assert (E : f_num x =? f_num fd = false) by lia. rewrite E. exact (IH _ H3 _ Hin).
Qed.

Lemma schema_ok_desc sc id desc : schema_ok sc = true -> nth_error sc (N.to_nat id) = Some desc ->
  nums_increasing 0 desc = true /\ forallb (field_ok (N.of_nat (length sc))) desc = true.
Proof.
  unfold schema_ok. intros H Hn. rewrite forallb_forall in H. apply nth_error_In in Hn.
  specialize (H _ Hn). unfold desc_ok in H. apply andb_prop in H. exact H.
Qed.

Lemma wf_msg_unfold sc id m : wf_msg sc id m = true ->
  exists desc, nth_error sc (N.to_nat id) = Some desc /\
    (forall e, In e m -> exists fd, find_field desc (fst e) = Some fd /\
                          wf_val sc (f_kind fd) (snd e) = true /\ nonzero_ok fd (snd e) = true) /\
    ordered desc m = true /\ oneof_ok desc m = true.
Proof.
  unfold wf_msg. cbn [wf_val]. destruct (nth_error sc (N.to_nat id)) as [desc|]; [|discriminate].
  intros H. apply andb_prop in H as [H H3]. apply andb_prop in H as [H1 H2].
  exists desc. split; [reflexivity|]. split; [|split; assumption].
  intros e He. rewrite forallb_forall in H1. specialize (H1 _ He).
  destruct (find_field desc (fst e)) as [fd|]; [|discriminate].
  apply andb_prop in H1 as [Ha Hb]. exists fd. auto.
Qed.

Lemma wf_val_wt_ok sc k v : wf_val sc k v = true -> wt_ok k (wval_of v) = true.
Proof. destruct k, v; cbn; intros H; try discriminate; reflexivity. Qed.

Lemma wf_val_msg sc k sub : wf_val sc k (FMsg sub) = true -> exists ref, k = KMsg ref /\ wf_msg sc ref sub = true.
Proof. destruct k; cbn [wf_val]; intros H; try discriminate. exists ref. split; [reflexivity|exact H]. Qed.

(* ------------------------------------------------------------------ *)
(* collect                                                            *)

Lemma collect_no_reset fd others rs :
  (forall r, In r rs -> existsb (fun o => matches o r) others = false) ->
  forall acc, collect fd others rs acc = acc ++ map snd (filter (matches fd) rs).
Proof.
  induction rs as [|r rs IH]; intros H acc; cbn [collect filter map].
  - rewrite app_nil_r. reflexivity.
  - assert (Hr := H r (or_introl eq_refl)).
    assert (Hrs : forall r0, In r0 rs -> existsb (fun o => matches o r0) others = false)
      by (intros; apply H; right; assumption).
    destruct (matches fd r) eqn:E.
    + rewrite IH by assumption. cbn [map]. rewrite <- app_assoc. reflexivity.
    + rewrite Hr. apply IH. assumption.
Qed.

Lemma collect_none fd others rs :
  (forall r, In r rs -> matches fd r = false) -> collect fd others rs [] = [].
Proof.
  induction rs as [|r rs IH]; intros H; cbn [collect]; [reflexivity|].
  rewrite (H r (or_introl eq_refl)).
  destruct (existsb (fun o => matches o r) others); apply IH; intros; apply H; right; assumption.
Qed.

(* ------------------------------------------------------------------ *)
(* order                                                              *)

Definition nondec (m : msg) : Prop :=
  forall a b t1 t2, m = t1 ++ a :: b :: t2 -> fst a <= fst b.

Fixpoint nondecb (m : msg) : Prop :=
  match m with
  | [] => True
  | e :: t => (forall e', In e' t -> fst e <= fst e') /\ nondecb t
  end.

Lemma ordered_nondecb desc m : ordered desc m = true -> nondecb m.
Proof.
  induction m as [|e t IH]; intros H; [exact I|].
  cbn [ordered] in H. destruct t as [|e1 t'].
  - split; [intros ? []|exact I].
  - apply andb_prop in H as [H1 H2]. specialize (IH H2). split; [|exact IH].
    intros e' [<-|Hin]; [lia|]. destruct IH as [IHa _]. specialize (IHa _ Hin). lia.
Qed.

(* a singular field occurs at most once *)
Lemma ordered_dup_rep desc m : ordered desc m = true ->
  forall e t, m = e :: t -> forall e', In e' t -> fst e' = fst e -> rep_num desc (fst e) = true.
Proof.
  intros H e t -> e' Hin Heq.
  destruct t as [|e1 t']; [destruct Hin|].
  pose proof (ordered_nondecb _ _ H) as [Hle [Hle1 _]].
  cbn [ordered] in H. apply andb_prop in H as [H1 _].
  assert (fst e1 = fst e).
  { pose proof (Hle e1 (or_introl eq_refl)). destruct Hin as [<-|Hin]; [lia|]. specialize (Hle1 _ Hin). lia. }
  destruct (fst e <? fst e1) eqn:E; [lia|]. cbn [orb] in H1. apply andb_prop in H1 as [_ H1]. exact H1.
Qed.

Lemma ordered_tail desc e t : ordered desc (e :: t) = true -> ordered desc t = true.
Proof. cbn [ordered]. destruct t; [reflexivity|]. intros H. apply andb_prop in H as [_ H]. exact H. Qed.

Lemma ordered_singular desc m k : ordered desc m = true -> rep_num desc k = false ->
  (length (filter (fun e => (fst e =? k)%N) m) <= 1)%nat.
Proof.
  induction m as [|e t IH]; intros H Hk; cbn [filter]; [cbn; lia|].
  pose proof (ordered_tail _ _ _ H) as Ht. specialize (IH Ht Hk).
  destruct (fst e =? k) eqn:E; [|exact IH].
  assert (fst e = k) by lia. subst k.
  assert (filter (fun e0 => fst e0 =? fst e) t = []) as ->; [|cbn; lia].
  destruct (filter (fun e0 => fst e0 =? fst e) t) as [|x l] eqn:F; [reflexivity|].
  assert (Hx : In x (filter (fun e0 => fst e0 =? fst e) t)) by (rewrite F; left; reflexivity).
  apply filter_In in Hx as [Hx1 Hx2].
  pose proof (ordered_dup_rep _ _ H e t eq_refl x Hx1 ltac:(lia)). congruence.
Qed.

Lemma nondecb_filter f m : nondecb m -> nondecb (filter f m).
Proof.
  induction m as [|e t IH]; intros H; [exact I|]. destruct H as [Ha Hb]. cbn [filter].
  destruct (f e); [|apply IH; exact Hb]. split; [|apply IH; exact Hb].
  intros e' He'. apply filter_In in He' as [He' _]. apply Ha. exact He'.
Qed.

Lemma split_min n m : nondecb m -> (forall e, In e m -> n <= fst e) ->
  m = filter (fun e => fst e =? n) m ++ filter (fun e => negb (fst e =? n)) m.
Proof.
  induction m as [|e t IH]; intros H Hmin; [reflexivity|].
  destruct H as [Ha Hb]. cbn [filter].
  destruct (fst e =? n) eqn:E; cbn [negb].
  - cbn [app]. f_equal. apply IH; [exact Hb|]. intros; apply Hmin; right; assumption.
  - assert (Hgt : n < fst e) by (pose proof (Hmin e (or_introl eq_refl)); lia).
    assert (F1 : filter (fun e0 => fst e0 =? n) t = []).
    { destruct (filter (fun e0 => fst e0 =? n) t) as [|x l] eqn:F; [reflexivity|].
      assert (Hx : In x (filter (fun e0 => fst e0 =? n) t)) by (rewrite F; left; reflexivity).
      apply filter_In in Hx as [Hx1 Hx2]. specialize (Ha _ Hx1). lia. }
    assert (F2 : filter (fun e0 => negb (fst e0 =? n)) t = t).
    { clear IH F1 Hb. induction t as [|y t IHt]; [reflexivity|]. cbn [filter].
      assert (n < fst y) by (pose proof (Ha y (or_introl eq_refl)); lia).
      assert (E2 : fst y =? n = false) by lia. rewrite E2. cbn [negb]. f_equal.
      apply IHt; [intros; apply Ha; right; assumption|]. intros; apply Hmin.
      destruct H0 as [->|H0]; [left; reflexivity|right; right; assumption]. }
    rewrite F1, F2. reflexivity.
Qed.

Lemma filter_filter_ne (n n' : N) (m : msg) : n' <> n ->
  filter (fun e => fst e =? n') (filter (fun e => negb (fst e =? n)) m) = filter (fun e => fst e =? n') m.
Proof.
  intros Hne. induction m as [|e t IH]; [reflexivity|]. cbn [filter].
  destruct (fst e =? n) eqn:E; cbn [negb].
  - assert (E2 : fst e =? n' = false) by lia. rewrite E2. exact IH.
  - cbn [filter]. destruct (fst e =? n'); [f_equal|]; exact IH.
Qed.

Lemma flat_map_ext_in' {A B} (f g : A -> list B) l :
  (forall a, In a l -> f a = g a) -> flat_map f l = flat_map g l.
Proof.
  induction l as [|a l IH]; intros H; [reflexivity|]. cbn [flat_map].
  rewrite (H a (or_introl eq_refl)), IH; [reflexivity|]. intros; apply H; right; assumption.
Qed.

Lemma by_field_partition desc : forall prev, nums_increasing prev desc = true ->
  forall m, nondecb m -> (forall e, In e m -> exists fd, In fd desc /\ f_num fd = fst e) ->
  flat_map (fun fd => filter (fun e => fst e =? f_num fd) m) desc = m.
Proof.
  induction desc as [|fd ds IH]; intros prev Hinc m Hnd Hkeys.
  - destruct m as [|e t]; [reflexivity|]. destruct (Hkeys e (or_introl eq_refl)) as (? & [] & _).
  - cbn [flat_map].
    pose proof Hinc as Hinc'. cbn [nums_increasing] in Hinc'.
    apply andb_prop in Hinc' as [Hx Hds]. apply andb_prop in Hx as [Hp Hmx].
    assert (Hmin : forall e, In e m -> f_num fd <= fst e).
    { intros e He. destruct (Hkeys e He) as (fd' & [<-|Hin] & Hn); [lia|].
      pose proof (nums_increasing_spec _ _ Hds _ Hin). lia. }
    transitivity (filter (fun e => fst e =? f_num fd) m ++ filter (fun e => negb (fst e =? f_num fd)) m);
      [|symmetry; apply split_min; assumption]. f_equal.
    rewrite <- (IH _ Hds (filter (fun e => negb (fst e =? f_num fd)) m)).
    + apply flat_map_ext_in'. intros fd' Hin. symmetry. apply filter_filter_ne.
      pose proof (nums_increasing_spec _ _ Hds _ Hin). lia.
    + apply nondecb_filter. exact Hnd.
    + intros e He. apply filter_In in He as [He Hne].
      destruct (Hkeys e He) as (fd' & [<-|Hin] & Hn); [lia|]. exists fd'. auto.
Qed.

(* ------------------------------------------------------------------ *)
(* schema-directed round trip                                         *)

Lemma filter_map_in {A B} (f : B -> bool) (g : A -> B) (h : A -> bool) l :
  (forall x, In x l -> f (g x) = h x) -> filter f (map g l) = map g (filter h l).
Proof.
  induction l as [|a l IH]; intros H; [reflexivity|]. cbn [map filter].
  rewrite (H a (or_introl eq_refl)). rewrite IH by (intros; apply H; right; assumption).
  destruct (h a); reflexivity.
Qed.

Section Fields.
  Variables (sc : schema) (desc : msgdesc) (m : msg) (rec : N -> list record -> option msg).
  Hypothesis Hinc : nums_increasing 0 desc = true.
  Hypothesis Hfok : forallb (field_ok (N.of_nat (length sc))) desc = true.
  Hypothesis Hent : forall e, In e m -> exists fd, find_field desc (fst e) = Some fd /\
                      wf_val sc (f_kind fd) (snd e) = true /\ nonzero_ok fd (snd e) = true.
  Hypothesis Hord : ordered desc m = true.
  Hypothesis Hone : oneof_ok desc m = true.
  Hypothesis Hsmall : forall k sub, In (k, FMsg sub) m -> Forall entry_small sub.
  Hypothesis Hrec : forall k sub ref, In (k, FMsg sub) m -> wf_msg sc ref sub = true ->
                      rec ref (map rec_of sub) = Some sub.

  Definition es (fd : field) : msg := filter (fun e => fst e =? f_num fd) m.
  Definition wv (e : N * fval) : wval := wval_of (snd e).

  Lemma ent_field fd e : In fd desc -> In e m -> fst e = f_num fd ->
    wf_val sc (f_kind fd) (snd e) = true /\ nonzero_ok fd (snd e) = true.
  Proof.
    intros Hfd He Hk. destruct (Hent e He) as (fd' & Hf & Hw & Hn).
    rewrite Hk, (find_field_unique _ _ Hinc _ Hfd) in Hf. injection Hf as <-. auto.
  Qed.

  Lemma matches_rec fd e : In fd desc -> In e m -> matches fd (rec_of e) = (fst e =? f_num fd).
  Proof.
    intros Hfd He. unfold matches, rec_of. cbn [fst snd].
    destruct (fst e =? f_num fd) eqn:E; [|reflexivity]. cbn [andb].
    destruct (ent_field fd e Hfd He ltac:(lia)) as [Hw _]. eapply wf_val_wt_ok; eassumption.
  Qed.

  Lemma filter_matches fd : In fd desc -> filter (matches fd) (map rec_of m) = map rec_of (es fd).
  Proof. intros Hfd. unfold es. apply filter_map_in. intros e He. apply matches_rec; assumption. Qed.

  Lemma es_in fd e : In e (es fd) -> In e m /\ fst e = f_num fd.
  Proof. unfold es. intros H. apply filter_In in H as [H1 H2]. split; [assumption|lia]. Qed.

  Lemma oneof_of_field fd : In fd desc -> oneof_of desc (f_num fd) = f_oneof fd.
  Proof. intros H. unfold oneof_of. rewrite (find_field_unique _ _ Hinc _ H). reflexivity. Qed.

  Lemma collect_es fd : In fd desc ->
    collect fd (others_of desc fd) (map rec_of m) [] = map wv (es fd).
  Proof.
    intros Hfd. destruct (es fd) as [|e0 l] eqn:F.
    - cbn [map]. apply collect_none. intros r Hr. apply in_map_iff in Hr as (e & <- & He).
      rewrite matches_rec by assumption. destruct (fst e =? f_num fd) eqn:E; [|reflexivity].
      exfalso. assert (In e (es fd)) by (unfold es; apply filter_In; auto). rewrite F in H. destruct H.
    - rewrite collect_no_reset.
      + cbn [app]. rewrite filter_matches by assumption. rewrite F. rewrite map_map. reflexivity.
      + intros r Hr. apply in_map_iff in Hr as (e & <- & He).
        destruct (existsb (fun o => matches o (rec_of e)) (others_of desc fd)) eqn:X; [|reflexivity].
        exfalso. apply existsb_exists in X as (o & Ho & Hm).
        unfold others_of in Ho. destruct (f_oneof fd =? 0) eqn:Z; [destruct Ho|].
        apply filter_In in Ho as [Ho Hc]. apply andb_prop in Hc as [Hc1 Hc2].
        rewrite matches_rec in Hm by assumption.
        assert (He0 : In e0 (es fd)) by (rewrite F; left; reflexivity).
        apply es_in in He0 as [He0 Hk0].
        unfold oneof_ok in Hone. rewrite forallb_forall in Hone. specialize (Hone _ He0).
        rewrite forallb_forall in Hone. specialize (Hone _ He). cbv zeta in Hone.
        rewrite Hk0, (oneof_of_field fd Hfd) in Hone.
        assert (Hko : fst e = f_num o) by lia. rewrite Hko, (oneof_of_field o Ho) in Hone.
        lia.
  Qed.

  Lemma field_ok_fd fd : In fd desc -> field_ok (N.of_nat (length sc)) fd = true.
  Proof. intros H. rewrite forallb_forall in Hfok. apply Hfok. exact H. Qed.

  Lemma es_singular fd : In fd desc -> is_rep (f_label fd) = false -> es fd = [] \/ exists e, es fd = [e].
  Proof.
    intros Hfd Hr.
    assert (rep_num desc (f_num fd) = false).
    { unfold rep_num. rewrite (find_field_unique _ _ Hinc _ Hfd). exact Hr. }
    pose proof (ordered_singular desc m (f_num fd) Hord H) as L. fold (es fd) in L.
    destruct (es fd) as [|e [|e' l]]; [left; reflexivity|right; exists e; reflexivity|cbn in L; lia].
  Qed.

  Lemma each_msg_es ref num l :
    (forall e, In e l -> In e m /\ fst e = num /\ wf_val sc (KMsg ref) (snd e) = true) ->
    each_msg rec ref num (map wv l) = Some l.
  Proof.
    induction l as [|e l IH]; intros H; [reflexivity|]. cbn [map each_msg].
    destruct (H e (or_introl eq_refl)) as (He & Hk & Hw).
    destruct e as [k v]. cbn [fst snd] in *. subst k. unfold wv at 1. cbn [snd].
    destruct v as [n|b|sub]; try discriminate. cbn [wval_of w_bytes].
    rewrite (parse_encode sub (Hsmall _ _ He)).
    rewrite (Hrec _ _ ref He Hw). rewrite IH by (intros; apply H; right; assumption). reflexivity.
  Qed.

  Lemma build_es fd : In fd desc -> build rec fd (map wv (es fd)) = Some (es fd).
  Proof.
    intros Hfd. pose proof (field_ok_fd fd Hfd) as Hok. unfold field_ok in Hok.
    assert (Hall : forall e, In e (es fd) -> In e m /\ fst e = f_num fd /\
                     wf_val sc (f_kind fd) (snd e) = true /\ nonzero_ok fd (snd e) = true).
    { intros e He. apply es_in in He as [He Hk]. destruct (ent_field fd e Hfd He Hk). auto. }
    unfold build.
    destruct (f_label fd) eqn:L; destruct (f_kind fd) eqn:K; cbn [andb] in Hok; try discriminate.
    (* singular fields: at most one entry *)
    all: try (destruct (es_singular fd Hfd ltac:(rewrite L; reflexivity)) as [E|[e E]];
              [rewrite E; reflexivity|];
              rewrite E in *; destruct (Hall e (or_introl eq_refl)) as (He & Hk & Hw & Hn);
              destruct e as [k v]; cbn [fst snd] in *; subst k; cbn [map]; unfold wv; cbn [snd]).
    (* LOpt *)
    - destruct v as [n|b|sub]; try discriminate. cbn [wf_val] in Hw. unfold build_int.
      cbn [last_opt wval_of w_int]. rewrite L. cbn [is_imp andb]. rewrite N.mod_small by lia. reflexivity.
    - destruct v as [n|b|sub]; try discriminate. cbn [wf_val] in Hw. unfold build_int.
      cbn [last_opt wval_of w_int]. rewrite L. cbn [is_imp andb]. rewrite N.mod_small by lia. reflexivity.
    - destruct v as [n|b|sub]; try discriminate. cbn [last_opt wval_of w_bytes].
      destruct b; rewrite ?L; reflexivity.
    - destruct v as [n|b|sub]; try discriminate. cbn [wval_of].
      cbn [parse_all w_bytes]. rewrite (parse_encode sub (Hsmall _ _ He)). rewrite app_nil_r.
      rewrite (Hrec _ _ ref He Hw). reflexivity.
    (* LImp *)
    - destruct v as [n|b|sub]; try discriminate. cbn [wf_val] in Hw. unfold build_int.
      cbn [last_opt wval_of w_int]. rewrite L. cbn [is_imp andb]. rewrite N.mod_small by lia.
      unfold nonzero_ok in Hn. rewrite L in Hn. destruct n; [discriminate|]. reflexivity.
    - destruct v as [n|b|sub]; try discriminate. cbn [wf_val] in Hw. unfold build_int.
      cbn [last_opt wval_of w_int]. rewrite L. cbn [is_imp andb]. rewrite N.mod_small by lia.
      unfold nonzero_ok in Hn. rewrite L in Hn. destruct n; [discriminate|]. reflexivity.
    - destruct v as [n|b|sub]; try discriminate. cbn [last_opt wval_of w_bytes].
      unfold nonzero_ok in Hn. rewrite L in Hn. destruct b; [discriminate|]. reflexivity.
    (* LRep bytes *)
    - clear Hok. induction (es fd) as [|e l IH]; [reflexivity|]. cbn [map].
      destruct (Hall e (or_introl eq_refl)) as (He & Hk & Hw & Hn).
      destruct e as [k v]; cbn [fst snd] in *; subst k.
      destruct v as [n|b|sub]; try discriminate. unfold wv at 1. cbn [snd wval_of w_bytes].
      f_equal. f_equal. specialize (IH ltac:(intros; apply Hall; right; assumption)).
      injection IH as IH. exact IH.
    (* LRep message *)
    - apply each_msg_es. intros e He. destruct (Hall e He) as (H1 & H2 & H3 & _). auto.
  Qed.

  Lemma overwritten_es fd : In fd desc -> overwritten_ok rec fd (others_of desc fd) (map rec_of m) = true.
  Proof.
    intros Hfd. unfold overwritten_ok. destruct (others_of desc fd); [reflexivity|].
    destruct (f_kind fd) eqn:K; try reflexivity.
    rewrite filter_matches by assumption. rewrite map_map.
    change (map (fun x => snd (rec_of x)) (es fd)) with (map wv (es fd)).
    rewrite each_msg_es; [reflexivity|].
    intros e He. apply es_in in He as [He Hk]. destruct (ent_field fd e Hfd He Hk) as [Hw _].
    rewrite K in Hw. auto.
  Qed.

  Lemma interp_fields_es todo : (forall fd, In fd todo -> In fd desc) ->
    interp_fields rec todo desc (map rec_of m) = Some (flat_map es todo).
  Proof.
    induction todo as [|fd t IH]; intros H; [reflexivity|]. cbn [interp_fields flat_map].
    assert (Hfd : In fd desc) by (apply H; left; reflexivity).
    rewrite overwritten_es by assumption. rewrite collect_es by assumption.
    rewrite build_es by assumption. rewrite IH by (intros; apply H; right; assumption). reflexivity.
  Qed.

  Lemma interp_fields_roundtrip : interp_fields rec desc desc (map rec_of m) = Some m.
  Proof.
    rewrite interp_fields_es by auto. f_equal. unfold es.
    apply (by_field_partition desc 0 Hinc).
    - eapply ordered_nondecb; eassumption.
    - intros e He. destruct (Hent e He) as (fd & Hf & _). apply find_field_some in Hf as [H1 H2].
      exists fd. auto.
  Qed.
End Fields.

Definition good (sc : schema) (id : N) (m : msg) : Prop :=
  wf_msg sc id m = true /\ len (encode m) < u64.

Lemma u32_lt_u64 : u32 < u64.
Proof. reflexivity. Qed.

Lemma wf_val_int_small sc k n : wf_val sc k (FInt n) = true -> n < u64.
Proof.
  pose proof u32_lt_u64 as U.
  destruct k; cbn [wf_val]; intros H; try discriminate; apply N.ltb_lt in H.
  - eapply N.lt_trans; eassumption.
  - exact H.
Qed.

Lemma len_lt (a b : bytes) : (length a < length b)%nat -> len a < len b.
Proof. unfold len. lia. Qed.

Lemma good_entries_small sc id m : schema_ok sc = true -> good sc id m -> Forall entry_small m.
Proof.
  intros Hsc [Hwf Hlen]. destruct (wf_msg_unfold _ _ _ Hwf) as (desc & Hn & Hent & _ & _).
  destruct (schema_ok_desc _ _ _ Hsc Hn) as [Hinc _].
  apply Forall_forall. intros e He. destruct (Hent e He) as (fd & Hf & Hw & _).
  apply find_field_some in Hf as [Hin Hk]. pose proof (nums_increasing_spec _ _ Hinc _ Hin) as Hr.
  split; [rewrite <- Hk; clear - Hr; lia|].
  destruct e as [k v]. cbn [fst snd] in *.
  destruct v as [n|b|sub]; cbn [val_small].
  - eapply wf_val_int_small; eassumption.
  - eapply N.lt_trans; [|exact Hlen]. apply len_lt. eapply bytes_shorter; eassumption.
  - eapply N.lt_trans; [|exact Hlen]. apply len_lt. eapply nested_shorter; eassumption.
Qed.
Lemma interp_roundtrip sc : schema_ok sc = true ->
  forall fuel m id, (length (encode m) < fuel)%nat -> good sc id m ->
  interp fuel sc id (map rec_of m) = Some m.
Proof.
  intros Hsc. induction fuel as [|f IH]; intros m id Hf Hg; [lia|].
  pose proof Hg as [Hwf Hlen].
  destruct (wf_msg_unfold _ _ _ Hwf) as (desc & Hn & Hent & Hord & Hone).
  destruct (schema_ok_desc _ _ _ Hsc Hn) as [Hinc Hfok].
  cbn [interp]. rewrite Hn.
  assert (Hsub : forall k sub ref, In (k, FMsg sub) m -> wf_msg sc ref sub = true -> good sc ref sub).
  { intros k sub ref Hin Hw. split; [exact Hw|]. eapply N.lt_trans; [|exact Hlen]. apply len_lt. eapply nested_shorter; exact Hin. }
  assert (Hkind : forall k sub, In (k, FMsg sub) m -> exists ref, wf_msg sc ref sub = true).
  { intros k sub Hin. destruct (Hent _ Hin) as (fd & _ & Hw & _). cbn [snd] in Hw.
    apply wf_val_msg in Hw as (ref & _ & Hw). exists ref. exact Hw. }
  apply (interp_fields_roundtrip sc desc m (interp f sc) Hinc Hfok Hent Hord Hone).
  - intros k sub Hin. destruct (Hkind _ _ Hin) as (ref & Hw).
    eapply good_entries_small; [exact Hsc|]. eapply Hsub; eassumption.
  - intros k sub ref Hin Hw. apply IH.
    + pose proof (nested_shorter _ _ _ Hin) as Hs. clear - Hs Hf. lia.
    + eapply Hsub; eassumption.
Qed.

(* MAIN: decoding the encoding of a well-formed message returns it (any nesting depth). *)
Theorem decode_encode sc id m : schema_ok sc = true -> wf_msg sc id m = true -> len (encode m) < u64 ->
  decode sc id (encode m) = Some m.
Proof.
  intros Hsc Hwf Hlen. unfold decode.
  rewrite (parse_encode m (good_entries_small sc id m Hsc (conj Hwf Hlen))).
  apply interp_roundtrip; [assumption|lia|split; assumption].
Qed.

(* Two well-formed messages of the same type with the same bytes are equal. *)
Theorem encode_inj sc id m1 m2 : schema_ok sc = true ->
  wf_msg sc id m1 = true -> wf_msg sc id m2 = true -> len (encode m1) < u64 ->
  encode m1 = encode m2 -> m1 = m2.
Proof.
  intros Hsc H1 H2 Hl E.
  pose proof (decode_encode sc id m1 Hsc H1 Hl) as D1.
  assert (Hl2 : len (encode m2) < u64) by (rewrite <- E; exact Hl).
  pose proof (decode_encode sc id m2 Hsc H2 Hl2) as D2.
  rewrite E in D1. rewrite D1 in D2. injection D2 as ->. reflexivity.
Qed.


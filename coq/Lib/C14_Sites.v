(* C14 - ownership inventories (static side of the alias / retain monitors of harness/cmd/c14).

   The value-level codec models (Lib/C14_ProtoWire, Lib/C14_RLP, Model/C14) are functions on byte
   lists and trees: aliasing cannot be stated in them.  What CAN be checked against the source on
   every run is the inventory of the places where an encoder / decoder could hand out memory it does
   not own (Generated/C14Sites.v, from the AST of core/types, core/rawdb, common, p2p/pb, rlp):

     pool_sites      (file:function, pool, escapes)   functions taking a scratch value from a sync.Pool;
                                                      escapes = the function returns v.Bytes() of it
     shared_stores   (file:function, type, field, g)  a struct field is assigned the package-level
                                                      *big.Int g (common.Big0 ...)
     inplace_writers (file:function, type, field)     a method writes a *big.Int field of its receiver
                                                      in place (recv.f.Set(..)) instead of replacing it

   Interface: [no_pooled_bytes_escape], [conflicts], [live_shared], list equalities [stores_eqb],
   [writers_eqb].  Executable definitions only. *)
From Coq Require Import List String Bool.
Import ListNotations.
Local Open Scope string_scope.

Definition pool_site : Type := string * string * bool.
Definition pool_escapes (s : pool_site) : bool := snd s.
Definition no_pooled_bytes_escape (l : list pool_site) : bool := forallb (fun s => negb (pool_escapes s)) l.
Definition pool_site_name (s : pool_site) : string := fst (fst s).

Definition store_site : Type := string * string * string * string.
Definition writer_site : Type := string * string * string.

Definition store_type (s : store_site) : string := let '(_, t, _, _) := s in t.
Definition store_field (s : store_site) : string := let '(_, _, f, _) := s in f.
Definition writer_type (w : writer_site) : string := let '(_, t, _) := w in t.
Definition writer_field (w : writer_site) : string := let '(_, _, f) := w in f.

(* a shared store is LIVE when some method writes that field of that type in place; a store whose
   struct type could not be read off the source ("?") is matched on the field name alone *)
Definition conflicts (s : store_site) (w : writer_site) : bool :=
  String.eqb (store_field s) (writer_field w) &&
  (String.eqb (store_type s) (writer_type w) || String.eqb (store_type s) "?").

Definition live_shared (stores : list store_site) (writers : list writer_site) : list store_site :=
  filter (fun s => existsb (conflicts s) writers) stores.

Definition store_eqb (a b : store_site) : bool :=
  let '(a1, a2, a3, a4) := a in let '(b1, b2, b3, b4) := b in
  String.eqb a1 b1 && String.eqb a2 b2 && String.eqb a3 b3 && String.eqb a4 b4.
Definition writer_eqb (a b : writer_site) : bool :=
  let '(a1, a2, a3) := a in let '(b1, b2, b3) := b in
  String.eqb a1 b1 && String.eqb a2 b2 && String.eqb a3 b3.

Fixpoint list_eqb {A} (e : A -> A -> bool) (l1 l2 : list A) : bool :=
  match l1, l2 with
  | [], [] => true
  | x :: r1, y :: r2 => e x y && list_eqb e r1 r2
  | _, _ => false
  end.

Definition stores_eqb := list_eqb store_eqb.
Definition writers_eqb := list_eqb writer_eqb.

(* reviewed lists (design/C14.md, "Strengthening after the blind changes"):
   - the zero Value of a decoded QuaiTx is the package-level common.Big0 (recorded finding
     alias/shared-between-decodes/QuaiTx.Value->common.Big0: latent, QuaiTx.setValue panics);
   - ExternalTx.setValue updates Value in place (core/slice.go conversion revert, core/worker.go). *)
Definition reviewed_stores : list store_site :=
  [("core/types/transaction.go:Transaction.ProtoDecode", "QuaiTx", "Value", "common.Big0")].
Definition reviewed_writers : list writer_site :=
  [("core/types/external_tx.go:ExternalTx.setValue", "ExternalTx", "Value")].

(* names used by the statements of Props/C14.v (which does not open string_scope) *)
Definition ty_QuaiTx : string := "QuaiTx".
Definition fd_Value : string := "Value".
Definition site_tx_encode_rlp : string := "core/types/transaction.go:Transaction.EncodeRLP".
Definition site_receipt_encode_rlp : string := "core/types/receipt.go:Receipt.EncodeRLP".
Definition site_derive_sha : string := "core/types/hashing.go:DeriveSha".
(* the shape of the blind change C14_2: the ExternalTx decoder hands out common.Big0 *)
Definition etx_value_store : store_site :=
  ("core/types/transaction.go:Transaction.ProtoDecode", "ExternalTx", "Value", "common.Big0").

(* C14_ProtoWireNF — the decoder of Lib/C14_ProtoWire.v only returns normal forms.

   decode_wf          : schema_ok sc -> wf_bytes b -> decode sc id b = Some m -> wf_msg sc id m = true
   decode_idempotent  : ... -> len (encode m) < 2^64 -> decode sc id (encode m) = Some m
                        (decode ∘ encode ∘ decode = decode: re-encoding what was accepted gives the canonical
                         bytes of the same message)
   decode_reencode_iff: decode sc id b = Some m -> (encode m = b <-> b is the encoding of a well-formed message)
   No axioms. *)
From Coq Require Import List Arith NArith Lia Bool ZifyBool ZifyNat ZifyN.
From GQ Require Import Lib.Key Lib.C14_Varint Lib.C14_ProtoWire Lib.C14_ProtoWireFacts.
Import ListNotations.
Local Open Scope N_scope.

Local Arguments N.mul : simpl never.
Local Arguments N.add : simpl never.
Local Arguments N.sub : simpl never.
Local Arguments N.div : simpl never.
Local Arguments N.modulo : simpl never.
Local Arguments N.pow : simpl never.
Local Arguments N.ltb : simpl never.
Local Arguments N.leb : simpl never.
Local Arguments N.eqb : simpl never.
Local Arguments C14_Varint.encode : simpl never.
Local Arguments C14_Varint.decode : simpl never.

(* ---------------- records parsed from real bytes ---------------- *)

Definition wf_rec (r : record) : Prop :=
  match snd r with
  | WVarint n => n < u64
  | WBytes p => wf_bytes p
  | _ => True
  end.

Lemma wf_bytes_app (a b : bytes) : wf_bytes (a ++ b) <-> wf_bytes a /\ wf_bytes b.
Proof. unfold wf_bytes. apply Forall_app. Qed.

Lemma wf_bytes_firstn n (b : bytes) : wf_bytes b -> wf_bytes (firstn n b).
Proof. intros H. rewrite <- (firstn_skipn n b) in H. apply wf_bytes_app in H. tauto. Qed.
Lemma wf_bytes_skipn n (b : bytes) : wf_bytes b -> wf_bytes (skipn n b).
Proof. intros H. rewrite <- (firstn_skipn n b) in H. apply wf_bytes_app in H. tauto. Qed.

Lemma varint_rest_wf b n r : wf_bytes b -> C14_Varint.decode b = Some (n, r) -> wf_bytes r.
Proof.
  intros W H. destruct (C14_Varint.decode_consumes _ _ _ H) as (c & -> & _). apply wf_bytes_app in W. tauto.
Qed.

Lemma take_wf n b x r : wf_bytes b -> take n b = Some (x, r) -> wf_bytes r.
Proof.
  unfold take. destruct (Nat.ltb (length b) n); [discriminate|]. intros W H. injection H as <- <-.
  apply wf_bytes_skipn. exact W.
Qed.

Lemma take_le n b x r : take n b = Some (x, r) -> (length r <= length b)%nat.
Proof.
  unfold take. destruct (Nat.ltb (length b) n); [discriminate|]. intros H. injection H as _ <-.
  rewrite skipn_length. lia.
Qed.

Lemma parse_record_wf b r rest : wf_bytes b -> parse_record b = Some (r, rest) ->
  wf_rec r /\ wf_bytes rest /\ (length rest < length b)%nat.
Proof.
  intros W. unfold parse_record.
  destruct (C14_Varint.decode b) as [[t r0]|] eqn:D; [|discriminate].
  pose proof (varint_rest_wf _ _ _ W D) as W0. pose proof (C14_Varint.decode_shorter _ _ _ D) as S0.
  destruct ((t / 8 =? 0) || (max_field <? t / 8)); [discriminate|].
  destruct (t mod 8 =? 0).
  { destruct (C14_Varint.decode r0) as [[v r']|] eqn:D2; [|discriminate]. intros H. injection H as <- <-.
    split; [exact (C14_Varint.decode_bound _ _ _ W0 D2)|]. split; [exact (varint_rest_wf _ _ _ W0 D2)|].
    pose proof (C14_Varint.decode_shorter _ _ _ D2). lia. }
  destruct (t mod 8 =? 1).
  { destruct (take 8 r0) as [[x r']|] eqn:T; [|discriminate]. intros H. injection H as <- <-.
    split; [exact I|]. split; [exact (take_wf _ _ _ _ W0 T)|].
    pose proof (take_le _ _ _ _ T). lia. }
  destruct (t mod 8 =? 2).
  { destruct (C14_Varint.decode r0) as [[l r']|] eqn:D2; [|discriminate].
    destruct (len r' <? l); [discriminate|]. intros H. injection H as <- <-.
    pose proof (varint_rest_wf _ _ _ W0 D2) as W2. pose proof (C14_Varint.decode_shorter _ _ _ D2).
    split; [cbn; apply wf_bytes_firstn; exact W2|]. split; [apply wf_bytes_skipn; exact W2|].
    rewrite skipn_length. lia. }
  destruct (t mod 8 =? 5); [|discriminate].
  destruct (take 4 r0) as [[x r']|] eqn:T; [|discriminate]. intros H. injection H as <- <-.
  split; [exact I|]. split; [exact (take_wf _ _ _ _ W0 T)|].
  pose proof (take_le _ _ _ _ T). lia.
Qed.

Lemma parse_records_wf fuel : forall b rs, wf_bytes b -> parse_records fuel b = Some rs -> Forall wf_rec rs.
Proof.
  induction fuel as [|f IH]; intros b rs W H.
  - destruct b; [injection H as <-; constructor|discriminate].
  - destruct b as [|x b']; [injection H as <-; constructor|]. cbn [parse_records] in H.
    destruct (parse_record (x :: b')) as [[r rest]|] eqn:P; [|discriminate].
    destruct (parse_records f rest) as [rs'|] eqn:R; [|discriminate]. injection H as <-.
    destruct (parse_record_wf _ _ _ W P) as (Wr & Wrest & _).
    constructor; [exact Wr|]. eapply IH; eassumption.
Qed.

Lemma parse_wf b rs : wf_bytes b -> parse b = Some rs -> Forall wf_rec rs.
Proof. apply parse_records_wf. Qed.

(* ---------------- values collected for one field ---------------- *)

Definition wf_wv (w : wval) : Prop :=
  match w with
  | WVarint n => n < u64
  | WBytes p => wf_bytes p
  | _ => True
  end.

Lemma collect_in fd others rs : forall acc w, In w (collect fd others rs acc) ->
  In w acc \/ exists r, In r rs /\ matches fd r = true /\ snd r = w.
Proof.
  induction rs as [|r rs IH]; intros acc w H; cbn [collect] in H; [left; exact H|].
  destruct (matches fd r) eqn:M.
  - apply IH in H as [H|(r' & Hr & Hm & Hs)].
    + apply in_app_or in H as [H|[<-|[]]]; [left; exact H|]. right. exists r. auto using in_eq.
    + right. exists r'. auto using in_cons.
  - destruct (existsb (fun o => matches o r) others).
    + apply IH in H as [[]|(r' & Hr & Hm & Hs)]. right. exists r'. auto using in_cons.
    + apply IH in H as [H|(r' & Hr & Hm & Hs)]; [left; exact H|]. right. exists r'. auto using in_cons.
Qed.

Lemma collect_wf fd others rs : Forall wf_rec rs ->
  forall w, In w (collect fd others rs []) -> wf_wv w /\ wt_ok (f_kind fd) w = true.
Proof.
  intros F w H. apply collect_in in H as [[]|(r & Hr & Hm & <-)].
  rewrite Forall_forall in F. specialize (F r Hr). unfold matches in Hm. apply andb_prop in Hm as [_ Hm].
  split; [|exact Hm]. unfold wf_rec in F. unfold wf_wv. destruct (snd r); exact F.
Qed.

(* two members of one oneof never both keep values *)
Lemma collect_exclusive fd1 fd2 o1 o2 rs :
  f_num fd1 <> f_num fd2 -> In fd2 o1 -> In fd1 o2 ->
  forall a1 a2, a1 = [] \/ a2 = [] ->
  collect fd1 o1 rs a1 = [] \/ collect fd2 o2 rs a2 = [].
Proof.
  intros Hne H21 H12. induction rs as [|r rs IH]; intros a1 a2 Ha; cbn [collect]; [exact Ha|].
  destruct (matches fd1 r) eqn:M1.
  - (* r sets fd1: it resets fd2 *)
    assert (M2 : matches fd2 r = false).
    { unfold matches in *. apply andb_prop in M1 as [E _]. destruct (fst r =? f_num fd2) eqn:E2; [lia|reflexivity]. }
    rewrite M2. assert (X : existsb (fun o => matches o r) o2 = true) by (apply existsb_exists; exists fd1; auto).
    rewrite X. apply IH. right. reflexivity.
  - destruct (matches fd2 r) eqn:M2.
    + assert (X : existsb (fun o => matches o r) o1 = true) by (apply existsb_exists; exists fd2; auto).
      rewrite X. apply IH. left. reflexivity.
    + destruct (existsb (fun o => matches o r) o1), (existsb (fun o => matches o r) o2); apply IH; tauto.
Qed.

(* ---------------- what build returns ---------------- *)

Lemma wf_msg_fold sc id desc m : nth_error sc (N.to_nat id) = Some desc ->
  (forall e, In e m -> exists fd, find_field desc (fst e) = Some fd /\
               wf_val sc (f_kind fd) (snd e) = true /\ nonzero_ok fd (snd e) = true) ->
  ordered desc m = true -> oneof_ok desc m = true -> wf_msg sc id m = true.
Proof.
  intros Hn He Ho H1. unfold wf_msg. cbn [wf_val]. rewrite Hn, Ho, H1, !andb_true_r.
  apply forallb_forall. intros e Hin. destruct (He e Hin) as (fd & Hf & Hw & Hz). rewrite Hf, Hw, Hz. reflexivity.
Qed.

Lemma last_opt_in {A} (l : list A) x : last_opt l = Some x -> In x l.
Proof.
  induction l as [|a l IH]; [discriminate|]. cbn [last_opt]. destruct l as [|b l'].
  - intros H. injection H as <-. left. reflexivity.
  - intros H. right. apply IH. exact H.
Qed.

Lemma wf_bytesb_of (b : bytes) : wf_bytes b -> wf_bytesb b = true.
Proof.
  unfold wf_bytes, wf_bytesb. rewrite Forall_forall. intros H. apply forallb_forall. intros x Hx.
  specialize (H x Hx). lia.
Qed.

Section Build.
  Variables (sc : schema) (rec : N -> list record -> option msg).
  Hypothesis Hrec : forall ref rs m, Forall wf_rec rs -> rec ref rs = Some m -> wf_msg sc ref m = true.

  Definition good_entries (fd : field) (es : msg) : Prop :=
    forall e, In e es -> fst e = f_num fd /\ wf_val sc (f_kind fd) (snd e) = true /\ nonzero_ok fd (snd e) = true.

  Lemma parse_all_wf ws rs : (forall w, In w ws -> wf_wv w) -> parse_all ws = Some rs -> Forall wf_rec rs.
  Proof.
    revert rs. induction ws as [|w ws IH]; intros rs W H; cbn [parse_all] in H; [injection H as <-; constructor|].
    destruct (parse (w_bytes w)) as [a|] eqn:P; [|discriminate].
    destruct (parse_all ws) as [b|] eqn:PA; [|discriminate]. injection H as <-.
    apply Forall_app. split.
    - apply (parse_wf (w_bytes w)); [|exact P]. specialize (W w (or_introl eq_refl)).
      destruct w; cbn; try constructor. exact W.
    - apply IH; [intros; apply W; right; assumption|reflexivity].
  Qed.

  Lemma each_msg_good ref num ws es : (forall w, In w ws -> wf_wv w) -> each_msg rec ref num ws = Some es ->
    (forall e, In e es -> fst e = num /\ wf_val sc (KMsg ref) (snd e) = true) /\ length es = length ws.
  Proof.
    revert es. induction ws as [|w ws IH]; intros es W H; cbn [each_msg] in H.
    - injection H as <-. split; [intros ? []|reflexivity].
    - destruct (parse (w_bytes w)) as [rs|] eqn:P; [|discriminate].
      destruct (rec ref rs) as [m|] eqn:R; [|discriminate].
      destruct (each_msg rec ref num ws) as [l|] eqn:E; [|discriminate]. injection H as <-.
      destruct (IH l ltac:(intros; apply W; right; assumption) eq_refl) as [IH1 IH2].
      split; [|cbn; lia]. intros e [<-|He]; [|apply IH1; exact He]. cbn [fst snd]. split; [reflexivity|].
      apply (Hrec ref rs m); [|exact R]. apply (parse_wf (w_bytes w)); [|exact P].
      specialize (W w (or_introl eq_refl)). destruct w; cbn; try constructor. exact W.
  Qed.

  Lemma build_good fd ws es n_msgs : field_ok n_msgs fd = true ->
    (forall w, In w ws -> wf_wv w /\ wt_ok (f_kind fd) w = true) ->
    build rec fd ws = Some es ->
    good_entries fd es /\ (is_rep (f_label fd) = false -> (length es <= 1)%nat) /\ (ws = [] -> es = []).
  Proof.
    intros Hok W H. unfold field_ok in Hok. unfold build in H. unfold good_entries.
    assert (Wl : forall w, last_opt ws = Some w -> wf_wv w /\ wt_ok (f_kind fd) w = true)
      by (intros w Hl; apply W; apply last_opt_in; exact Hl).
    destruct (f_label fd) eqn:L; destruct (f_kind fd) eqn:K; cbn [andb] in Hok; try discriminate.
    (* LOpt / LImp scalars *)
    all: try (unfold build_int in H; destruct (last_opt ws) as [w|] eqn:Lw;
              [|injection H as <-; split; [intros ? []|split; [cbn; lia|reflexivity]]]).
    all: try (destruct (Wl w eq_refl) as [Ww Wt]; destruct w as [n|x|p|x]; cbn in Wt; try discriminate).
    (* LOpt u32 *)
    - rewrite ?L in H. cbn [is_imp andb] in H. injection H as <-.
      split; [|split; [cbn; lia|intros ->; discriminate]].
      intros e [<-|[]]. cbn [fst snd wf_val]. unfold nonzero_ok. rewrite L. repeat split.
      cbn [w_int]. pose proof (N.mod_upper_bound n u32 ltac:(unfold u32; lia)). lia.
    (* LOpt u64 *)
    - rewrite ?L in H. cbn [is_imp andb] in H. injection H as <-.
      split; [|split; [cbn; lia|intros ->; discriminate]].
      intros e [<-|[]]. cbn [fst snd wf_val]. unfold nonzero_ok. rewrite L. repeat split.
      cbn [w_int]. pose proof (N.mod_upper_bound n u64 ltac:(unfold u64; lia)). lia.
    (* LOpt bytes *)
    - cbn [w_bytes] in H. rewrite ?L in H. cbn [is_imp] in H.
      assert (es = [(f_num fd, FBytes p)]) as -> by (destruct p; injection H as <-; reflexivity).
      split; [|split; [cbn; lia|intros ->; discriminate]].
      intros e [<-|[]]. cbn [fst snd wf_val]. unfold nonzero_ok. rewrite L. repeat split. apply wf_bytesb_of. exact Ww.
    (* LOpt message *)
    - destruct ws as [|w0 ws'].
      + injection H as <-. split; [intros ? []|split; [cbn; lia|reflexivity]].
      + destruct (parse_all (w0 :: ws')) as [rs|] eqn:PA; [|discriminate].
        destruct (rec ref rs) as [m|] eqn:R; [|discriminate]. injection H as <-.
        split; [|split; [cbn; lia|discriminate]].
        intros e [<-|[]]. cbn [fst snd]. unfold nonzero_ok. rewrite L. repeat split.
        apply (Hrec ref rs m); [|exact R]. eapply parse_all_wf; [|exact PA]. intros w Hw. apply W. exact Hw.
    (* LImp u32 *)
    - rewrite ?L in H. cbn [is_imp andb w_int] in H.
      destruct (n mod u32 =? 0) eqn:Z; injection H as <-.
      + split; [intros ? []|split; [cbn; lia|reflexivity]].
      + split; [|split; [cbn; lia|intros ->; discriminate]].
        intros e [<-|[]]. cbn [fst snd wf_val]. repeat split.
        * pose proof (N.mod_upper_bound n u32 ltac:(unfold u32; lia)). lia.
        * unfold nonzero_ok. rewrite L. destruct (n mod u32); [lia|reflexivity].
    (* LImp u64 *)
    - rewrite ?L in H. cbn [is_imp andb w_int] in H.
      destruct (n mod u64 =? 0) eqn:Z; injection H as <-.
      + split; [intros ? []|split; [cbn; lia|reflexivity]].
      + split; [|split; [cbn; lia|intros ->; discriminate]].
        intros e [<-|[]]. cbn [fst snd wf_val]. repeat split.
        * pose proof (N.mod_upper_bound n u64 ltac:(unfold u64; lia)). lia.
        * unfold nonzero_ok. rewrite L. destruct (n mod u64); [lia|reflexivity].
    (* LImp bytes *)
    - cbn [w_bytes] in H. rewrite ?L in H. cbn [is_imp] in H. destruct p as [|x p'].
      + injection H as <-. split; [intros ? []|split; [cbn; lia|reflexivity]].
      + injection H as <-. split; [|split; [cbn; lia|intros ->; discriminate]].
        intros e [<-|[]]. cbn [fst snd wf_val]. repeat split; [apply wf_bytesb_of; exact Ww|].
        unfold nonzero_ok. rewrite L. reflexivity.
    (* LRep bytes *)
    - injection H as <-. split; [|split; [discriminate|intros ->; reflexivity]].
      intros e He. apply in_map_iff in He as (w & <- & Hw). destruct (W w Hw) as [Ww Wt].
      cbn [fst snd wf_val]. unfold nonzero_ok. rewrite L. repeat split.
      destruct w as [n|x|p|x]; cbn in Wt; try discriminate. cbn [w_bytes]. apply wf_bytesb_of. exact Ww.
    (* LRep message *)
    - destruct (each_msg_good ref (f_num fd) ws es ltac:(intros w Hw; apply W; exact Hw) H) as [G Len].
      split; [|split; [discriminate|intros ->; destruct es; [reflexivity|discriminate]]].
      intros e He. destruct (G e He) as [G1 G2]. repeat split; [exact G1|exact G2|].
      unfold nonzero_ok. rewrite L. reflexivity.
  Qed.
End Build.

(* ---------------- the whole message ---------------- *)

Lemma ordered_cons desc x y t : ordered desc (x :: y :: t) =
  ((fst x <? fst y) || ((fst x =? fst y) && rep_num desc (fst x))) && ordered desc (y :: t).
Proof. reflexivity. Qed.

Lemma ordered_same_key desc k : forall es, (forall e, In e es -> fst e = k) ->
  (rep_num desc k = true \/ (length es <= 1)%nat) -> ordered desc es = true.
Proof.
  induction es as [|x es IH]; intros Hk Hr; [reflexivity|].
  destruct es as [|y es']; [reflexivity|]. rewrite ordered_cons.
  assert (Hx : fst x = k) by (apply Hk; left; reflexivity).
  assert (Hy : fst y = k) by (apply Hk; right; left; reflexivity).
  destruct Hr as [Hr|Hr]; [|cbn in Hr; lia].
  rewrite Hx, Hy, N.eqb_refl, Hr. rewrite orb_true_r. cbn [andb].
  apply IH; [intros; apply Hk; right; assumption|left; exact Hr].
Qed.

Lemma ordered_app desc : forall a b, ordered desc a = true -> ordered desc b = true ->
  (forall x y, In x a -> In y b -> fst x < fst y) -> ordered desc (a ++ b) = true.
Proof.
  induction a as [|x a IH]; intros b Ha Hb Hlt; [exact Hb|].
  destruct a as [|x' a'].
  - cbn [app]. destruct b as [|y b']; [reflexivity|]. rewrite ordered_cons.
    assert (fst x < fst y) by (apply Hlt; left; reflexivity).
    assert (E : fst x <? fst y = true) by lia. rewrite E. cbn [orb andb]. exact Hb.
  - cbn [app]. rewrite ordered_cons in *. apply andb_prop in Ha as [Ha1 Ha2]. rewrite Ha1. cbn [andb].
    apply (IH b Ha2 Hb). intros; apply Hlt; [right|]; assumption.
Qed.

Lemma interp_fields_groups rec all rs : forall todo m, interp_fields rec todo all rs = Some m ->
  exists gs, m = concat gs /\
    Forall2 (fun fd es => build rec fd (collect fd (others_of all fd) rs []) = Some es) todo gs.
Proof.
  induction todo as [|fd t IH]; intros m H; cbn [interp_fields] in H.
  - injection H as <-. exists []. split; [reflexivity|constructor].
  - destruct (overwritten_ok rec fd (others_of all fd) rs); [|discriminate].
    destruct (build rec fd (collect fd (others_of all fd) rs [])) as [a|] eqn:B; [|discriminate].
    destruct (interp_fields rec t all rs) as [b|] eqn:R; [|discriminate]. injection H as <-.
    destruct (IH b eq_refl) as (gs & -> & F). exists (a :: gs). split; [reflexivity|]. constructor; assumption.
Qed.

Lemma in_concat_forall2 {A B} (P : A -> list B -> Prop) l gs e :
  Forall2 P l gs -> In e (concat gs) -> exists a es, In a l /\ In e es /\ P a es.
Proof.
  induction 1 as [|a es l' gs' Hp _ IH]; cbn [concat]; [intros []|]. intros H.
  apply in_app_or in H as [H|H].
  - exists a, es. auto using in_eq.
  - destruct (IH H) as (a' & es' & H1 & H2 & H3). exists a', es'. auto using in_cons.
Qed.

Lemma Forall2_impl' {A B} (P Q : A -> B -> Prop) l1 l2 :
  (forall a b, P a b -> Q a b) -> Forall2 P l1 l2 -> Forall2 Q l1 l2.
Proof. intros H F. induction F; constructor; auto. Qed.

Lemma ordered_groups desc : forall todo gs prev,
  nums_increasing prev todo = true ->
  Forall2 (fun fd es => (forall e, In e es -> fst e = f_num fd) /\
                        (rep_num desc (f_num fd) = true \/ (length es <= 1)%nat)) todo gs ->
  ordered desc (concat gs) = true /\ forall e, In e (concat gs) -> prev < fst e.
Proof.
  induction todo as [|fd t IH]; intros gs prev Hinc F; inversion F as [|? es ? gs' [Hk Hr] F']; subst; cbn [concat].
  - split; [reflexivity|intros ? []].
  - cbn [nums_increasing] in Hinc. apply andb_prop in Hinc as [Hx Ht]. apply andb_prop in Hx as [Hp _].
    destruct (IH gs' (f_num fd) Ht F') as [IHo IHk]. split.
    + apply ordered_app; [apply (ordered_same_key desc (f_num fd)); assumption|exact IHo|].
      intros x y Hxin Hyin. rewrite (Hk x Hxin). apply IHk. exact Hyin.
    + intros e He. apply in_app_or in He as [He|He]; [rewrite (Hk e He); lia|]. specialize (IHk e He). lia.
Qed.

Lemma others_of_in desc fd1 fd2 : In fd2 desc -> f_oneof fd1 <> 0 -> f_oneof fd2 = f_oneof fd1 ->
  f_num fd2 <> f_num fd1 -> In fd2 (others_of desc fd1).
Proof.
  intros Hin Hz Ho Hn. unfold others_of. assert (E : f_oneof fd1 =? 0 = false) by lia. rewrite E.
  apply filter_In. split; [exact Hin|]. rewrite Ho, N.eqb_refl. cbn [andb].
  assert (E2 : f_num fd2 =? f_num fd1 = false) by lia. rewrite E2. reflexivity.
Qed.

Lemma groups_premise sc desc rs : nums_increasing 0 desc = true ->
  forall todo gs, (forall fd, In fd todo -> In fd desc) ->
  Forall2 (fun fd es => In fd desc -> good_entries sc fd es /\
             (is_rep (f_label fd) = false -> (length es <= 1)%nat) /\
             (collect fd (others_of desc fd) rs [] = [] -> es = [])) todo gs ->
  Forall2 (fun fd es => (forall e, In e es -> fst e = f_num fd) /\
                        (rep_num desc (f_num fd) = true \/ (length es <= 1)%nat)) todo gs.
Proof.
  intros Hinc todo gs Hsub G. induction G as [|fd es t gs' Hg _ IHG]; [constructor|]. constructor.
  - assert (Hfd : In fd desc) by (apply Hsub; left; reflexivity).
    destruct (Hg Hfd) as (g1 & g2 & _). split; [intros e He; apply (g1 e He)|].
    unfold rep_num. rewrite (find_field_unique _ _ Hinc _ Hfd).
    destruct (is_rep (f_label fd)); [left; reflexivity|right; apply g2; reflexivity].
  - apply IHG. intros; apply Hsub; right; assumption.
Qed.

Lemma interp_wf sc : schema_ok sc = true ->
  forall fuel id rs m, Forall wf_rec rs -> interp fuel sc id rs = Some m -> wf_msg sc id m = true.
Proof.
  intros Hsc. induction fuel as [|f IH]; intros id rs m Wrs H; [discriminate|].
  cbn [interp] in H. destruct (nth_error sc (N.to_nat id)) as [desc|] eqn:Hn; [|discriminate].
  destruct (schema_ok_desc _ _ _ Hsc Hn) as [Hinc Hfok].
  destruct (interp_fields_groups _ _ _ _ _ H) as (gs & -> & F).
  assert (Hrec : forall ref rs0 m0, Forall wf_rec rs0 -> interp f sc ref rs0 = Some m0 -> wf_msg sc ref m0 = true)
    by (intros; eapply IH; eassumption).
  (* per group facts *)
  assert (G : Forall2 (fun fd es => In fd desc -> good_entries sc fd es /\
                 (is_rep (f_label fd) = false -> (length es <= 1)%nat) /\
                 (collect fd (others_of desc fd) rs [] = [] -> es = [])) desc gs).
  { eapply Forall2_impl'; [|exact F]. intros fd es B Hin. cbv beta in B.
    rewrite forallb_forall in Hfok.
    apply (build_good sc (interp f sc) Hrec fd _ es _ (Hfok fd Hin)); [|exact B].
    intros w Hw. eapply collect_wf; eassumption. }
  assert (Gin : forall e, In e (concat gs) -> exists fd es, In fd desc /\ In e es /\
                  good_entries sc fd es /\ (collect fd (others_of desc fd) rs [] = [] -> es = [])).
  { intros e He. destruct (in_concat_forall2 _ _ _ _ G He) as (fd & es & Hfd & Hes & Hg).
    destruct (Hg Hfd) as (g1 & _ & g3). exists fd, es. auto. }
  apply (wf_msg_fold sc id desc _ Hn).
  - intros e He. destruct (Gin e He) as (fd & es & Hfd & Hes & Hg & _).
    destruct (Hg e Hes) as (Hk & Hw & Hz). exists fd. rewrite Hk.
    split; [exact (find_field_unique _ _ Hinc _ Hfd)|]. auto.
  - apply (ordered_groups desc desc gs 0 Hinc).
    apply (groups_premise sc desc rs Hinc desc gs (fun fd H => H) G).
  - unfold oneof_ok. apply forallb_forall. intros e1 H1. apply forallb_forall. intros e2 H2. cbv zeta.
    destruct (Gin e1 H1) as (fd1 & es1 & Hfd1 & Hes1 & Hg1 & Hc1).
    destruct (Gin e2 H2) as (fd2 & es2 & Hfd2 & Hes2 & Hg2 & Hc2).
    destruct (Hg1 e1 Hes1) as (Hk1 & _). destruct (Hg2 e2 Hes2) as (Hk2 & _).
    unfold oneof_of. rewrite Hk1, Hk2.
    rewrite (find_field_unique _ _ Hinc _ Hfd1), (find_field_unique _ _ Hinc _ Hfd2).
    destruct (f_oneof fd1 =? 0) eqn:Z; [reflexivity|]. cbn [orb].
    destruct (f_oneof fd1 =? f_oneof fd2) eqn:S; [|reflexivity]. cbn [negb orb].
    destruct (f_num fd1 =? f_num fd2) eqn:Nn; [reflexivity|]. exfalso.
    assert (I21 : In fd2 (others_of desc fd1)) by (apply others_of_in; [assumption|lia|lia|lia]).
    assert (I12 : In fd1 (others_of desc fd2)) by (apply others_of_in; [assumption|lia|lia|lia]).
    destruct (collect_exclusive fd1 fd2 _ _ rs ltac:(lia) I21 I12 [] [] (or_introl eq_refl)) as [C|C].
    + rewrite (Hc1 C) in Hes1. destruct Hes1.
    + rewrite (Hc2 C) in Hes2. destruct Hes2.
Qed.

(* MAIN: whatever the decoder accepts is in normal form. *)
Theorem decode_wf sc id b m : schema_ok sc = true -> wf_bytes b -> decode sc id b = Some m ->
  wf_msg sc id m = true.
Proof.
  intros Hsc W. unfold decode. destruct (parse b) as [rs|] eqn:P; [|discriminate].
  apply interp_wf; [exact Hsc|]. apply (parse_wf b); assumption.
Qed.

(* decode ∘ encode ∘ decode = decode *)
Theorem decode_idempotent sc id b m : schema_ok sc = true -> wf_bytes b -> decode sc id b = Some m ->
  len (encode m) < u64 -> decode sc id (encode m) = Some m.
Proof. intros Hsc W D L. apply decode_encode; [exact Hsc|eapply decode_wf; eassumption|exact L]. Qed.

(* Re-encoding what was decoded reproduces the input exactly when the input is canonical. *)
Theorem decode_reencode_iff sc id b m : schema_ok sc = true -> wf_bytes b -> len b < u64 ->
  decode sc id b = Some m ->
  (encode m = b <-> exists m', wf_msg sc id m' = true /\ b = encode m').
Proof.
  intros Hsc W L D. split.
  - intros E. exists m. split; [eapply decode_wf; eassumption|symmetry; exact E].
  - intros (m' & Hw & ->). rewrite (decode_encode sc id m' Hsc Hw L) in D. injection D as ->. reflexivity.
Qed.

(* C15 — the shape of one generated jump-table row (core/vm/jump_table.go: operation),
   restricted to the fields that decide how interpreter memory growth is paid for.
   Kept in Lib so that both the generated table (Generated/C15JumpTable.v) and the
   model (Model/C15.v) can use it. *)
From Coq Require Import List NArith Bool String.
Import ListNotations.
Local Open Scope N_scope.

Record row := mkRow {
  r_op      : N;        (* opcode byte *)
  r_name    : string;   (* OpCode.String() *)
  r_min     : N;        (* operation.minStack *)
  r_max     : N;        (* operation.maxStack *)
  r_has_dyn : bool;     (* operation.dynamicGas != nil *)
  r_has_mem : bool;     (* operation.memorySize != nil *)
  r_charges : bool;     (* probe on the real dynamicGas function: the returned gas includes exactly
                           memoryGasCost(mem, memorySize) and Memory.lastGasCost is updated *)
  r_safe    : bool      (* probe: memorySize / dynamicGas evaluated on a stack of exactly minStack
                           items do not panic (they never read below the validated depth) *)
}.

(* A table = the defined rows of one fork, in opcode order. *)
Definition table := list row.

Fixpoint lookup (t : table) (op : N) : option row :=
  match t with
  | [] => None
  | r :: t' => if r_op r =? op then Some r else lookup t' op
  end.

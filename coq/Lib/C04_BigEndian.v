(* Minimal big-endian byte encoding of naturals = Go big.Int Bytes() for x >= 0,
   and its inverse = big.Int SetBytes.  0 encodes to the empty string; the
   encoding of n > 0 starts with a non-zero byte. *)
From Coq Require Import List NArith Lia Bool.
Import ListNotations.
Local Open Scope N_scope.

(* big.Int.SetBytes: big-endian, leading zeros ignored *)
Definition of_be_acc (a : N) (l : list N) : N := fold_left (fun x b => x * 256 + b) l a.
Definition of_be (l : list N) : N := of_be_acc 0 l.

(* division by 256 with bit operations (fast under vm_compute) *)
Definition div256 (n : N) : N := N.shiftr n 8.
Definition mod256 (n : N) : N := N.land n 255.

Lemma div256_eq n : div256 n = n / 256.
Proof. unfold div256. rewrite N.shiftr_div_pow2. reflexivity. Qed.
Lemma mod256_eq n : mod256 n = n mod 256.
Proof. unfold mod256. change 255 with (N.ones 8). rewrite N.land_ones. reflexivity. Qed.

(* big.Int.Bytes: digits pushed in front of an accumulator; fuel = bit size *)
Fixpoint be_acc (fuel : nat) (n : N) (acc : list N) : list N :=
  match fuel with
  | O => acc
  | S f => if n =? 0 then acc else be_acc f (div256 n) (mod256 n :: acc)
  end.

Definition be_min (n : N) : list N := be_acc (N.to_nat (N.size n)) n [].

Definition bytes_ok (l : list N) : Prop := Forall (fun b => b < 256) l.

Lemma be_acc_zero f acc : be_acc f 0 acc = acc.
Proof. destruct f; reflexivity. Qed.

Lemma pow2_S (f : nat) : 2 ^ N.of_nat (S f) = 2 * 2 ^ N.of_nat f.
Proof. rewrite Nat2N.inj_succ, N.pow_succ_r'. reflexivity. Qed.

Lemma div256_fuel (f : nat) n : n < 2 ^ N.of_nat (S f) -> n / 256 < 2 ^ N.of_nat f.
Proof.
  intros H. rewrite pow2_S in H.
  apply N.div_lt_upper_bound; [lia|].
  assert (0 < 2 ^ N.of_nat f) by (apply N.neq_0_lt_0, N.pow_nonzero; lia). lia.
Qed.

Lemma of_be_acc_be_acc f : forall n acc, n < 2 ^ N.of_nat f ->
  of_be_acc 0 (be_acc f n acc) = of_be_acc n acc.
Proof.
  induction f as [|f IH]; intros n acc H.
  - cbn in H. assert (n = 0) by lia. subst. reflexivity.
  - cbn [be_acc]. rewrite div256_eq, mod256_eq. destruct (N.eqb_spec n 0) as [->|Hn]; [reflexivity|].
    rewrite IH by (apply div256_fuel; exact H).
    unfold of_be_acc. cbn [fold_left]. f_equal.
    pose proof (N.div_mod n 256). lia.
Qed.

Lemma of_be_be_min n : of_be (be_min n) = n.
Proof.
  unfold of_be, be_min. rewrite of_be_acc_be_acc.
  - reflexivity.
  - rewrite N2Nat.id. apply N.size_gt.
Qed.

Lemma be_min_inj a b : be_min a = be_min b -> a = b.
Proof. intros H. rewrite <- (of_be_be_min a), <- (of_be_be_min b), H. reflexivity. Qed.

Lemma be_acc_head f : forall n acc, n < 2 ^ N.of_nat f -> n <> 0 ->
  exists b rest, be_acc f n acc = b :: rest /\ b <> 0.
Proof.
  induction f as [|f IH]; intros n acc H Hn.
  - cbn in H. lia.
  - cbn [be_acc]. rewrite div256_eq, mod256_eq. destruct (N.eqb_spec n 0) as [E|_]; [contradiction|].
    destruct (N.eq_dec (n / 256) 0) as [E|E].
    + rewrite E, be_acc_zero. exists (n mod 256), acc. split; [reflexivity|].
      pose proof (N.div_mod n 256). lia.
    + apply IH; [apply div256_fuel; exact H|exact E].
Qed.

(* the encoding of a positive number starts with a non-zero byte; 0 encodes to [] *)
Lemma be_min_head n :
  match be_min n with
  | [] => n = 0
  | b :: _ => b <> 0 /\ n <> 0
  end.
Proof.
  destruct (N.eq_dec n 0) as [->|Hn]; [reflexivity|].
  destruct (be_acc_head (N.to_nat (N.size n)) n [] ) as (b & rest & E & Hb); auto.
  - rewrite N2Nat.id. apply N.size_gt.
  - unfold be_min. rewrite E. auto.
Qed.

Lemma be_min_0 : be_min 0 = [].
Proof. reflexivity. Qed.

Lemma be_min_nil n : be_min n = [] -> n = 0.
Proof. intros H. pose proof (be_min_head n) as P. rewrite H in P. exact P. Qed.

(* no index key equals a key that starts with a zero byte (the 32-byte control cells) *)
Lemma be_min_not_zero_led n k : be_min n <> 0 :: k.
Proof.
  intros H. pose proof (be_min_head n) as P. rewrite H in P. destruct P as [P _]. apply P; reflexivity.
Qed.

Lemma be_acc_bytes f : forall n acc, bytes_ok acc -> bytes_ok (be_acc f n acc).
Proof.
  induction f as [|f IH]; intros n acc H; cbn [be_acc]; [exact H|].
  destruct (n =? 0); [exact H|]. apply IH. constructor; [|exact H].
  rewrite mod256_eq. apply N.mod_lt. lia.
Qed.

Lemma be_min_bytes n : bytes_ok (be_min n).
Proof. apply be_acc_bytes. constructor. Qed.

(* SetBytes ignores leading zero bytes: the control-cell reader is insensitive to padding *)
Lemma of_be_lead0 l : of_be (0 :: l) = of_be l.
Proof. reflexivity. Qed.

Example be_min_examples :
  be_min 0 = [] /\ be_min 1 = [1] /\ be_min 255 = [255] /\ be_min 256 = [1; 0] /\
  be_min 65535 = [255; 255] /\ be_min 65536 = [1; 0; 0] /\ of_be [0; 0; 1; 0] = 256.
Proof. vm_compute. repeat split. Qed.

(* C03 — facts about Lib/C03_TLV: varints are prefix-free, fields are prefix-free,
   messages are injective, big-endian bytes are injective. *)
From Coq Require Import List NArith Bool Lia ZifyBool ZifyNat ZifyN.
From GQ Require Import Lib.C03_TLV.
Import ListNotations.
Local Open Scope N_scope.

(* ---------- generic list facts ---------- *)

Lemma app_same_length_inv : forall (A : Type) (a b r1 r2 : list A),
  length a = length b -> a ++ r1 = b ++ r2 -> a = b /\ r1 = r2.
Proof.
  intros A a. induction a as [|x a IH]; intros b r1 r2 Hl He; destruct b as [|y b]; simpl in *; try discriminate.
  - split; [reflexivity|exact He].
  - injection He as Hx Ht. injection Hl as Hl.
    destruct (IH b r1 r2 Hl Ht) as [Ha Hr]. subst. split; reflexivity.
Qed.

Lemma cons_inj : forall (A : Type) (x y : A) (a b : list A), x :: a = y :: b -> x = y /\ a = b.
Proof. intros A x y a b H. injection H as H1 H2. split; assumption. Qed.

(* ---------- varint ---------- *)

Lemma pow2_S : forall f : nat, 2 ^ N.of_nat (S f) = 2 * 2 ^ N.of_nat f.
Proof. intros f. rewrite Nat2N.inj_succ. apply N.pow_succ_r'. Qed.

Lemma pos_size_nat_bound : forall p, N.pos p < 2 ^ N.of_nat (Pos.size_nat p).
Proof.
  induction p as [p IH|p IH|]; cbn [Pos.size_nat].
  - rewrite pow2_S. change (N.pos p~1) with (2 * N.pos p + 1). lia.
  - rewrite pow2_S. change (N.pos p~0) with (2 * N.pos p). lia.
  - reflexivity.
Qed.

Lemma size_nat_bound : forall n, n < 2 ^ N.of_nat (N.size_nat n).
Proof.
  intros n. destruct n as [|p]; [reflexivity|].
  apply pos_size_nat_bound.
Qed.

Lemma div128_bound : forall (f : nat) n, n < 2 ^ N.of_nat (S f) -> n / 128 < 2 ^ N.of_nat f.
Proof.
  intros f n H. rewrite pow2_S in H.
  apply N.div_lt_upper_bound; lia.
Qed.

Lemma varint_f_prefix_free : forall f1 f2 n1 n2 r1 r2,
  n1 < 2 ^ N.of_nat f1 -> n2 < 2 ^ N.of_nat f2 ->
  varint_f f1 n1 ++ r1 = varint_f f2 n2 ++ r2 -> n1 = n2 /\ r1 = r2.
Proof.
  induction f1 as [|f1 IH]; intros f2 n1 n2 r1 r2 H1 H2 He.
  - (* n1 = 0 *)
    assert (n1 = 0) by (change (2 ^ N.of_nat 0) with 1 in H1; lia). subst n1.
    destruct f2 as [|f2]; cbn [varint_f app] in He.
    + apply cons_inj in He; destruct He as [Hn Hr]. split; [congruence|exact Hr].
    + destruct (n2 <? 128) eqn:Hlt; cbn [app] in He.
      * apply cons_inj in He; destruct He as [Hn Hr]. split; [congruence|exact Hr].
      * apply cons_inj in He; destruct He as [Hn _]. exfalso. pose proof (N.mod_lt n2 128). lia.
  - destruct f2 as [|f2].
    + assert (n2 = 0) by (change (2 ^ N.of_nat 0) with 1 in H2; lia). subst n2.
      cbn [varint_f app] in He.
      destruct (n1 <? 128) eqn:Hlt; cbn [app] in He.
      * apply cons_inj in He; destruct He as [Hn Hr]. split; [congruence|exact Hr].
      * apply cons_inj in He; destruct He as [Hn _]. exfalso. pose proof (N.mod_lt n1 128). lia.
    + cbn [varint_f] in He.
      destruct (n1 <? 128) eqn:Hlt1; destruct (n2 <? 128) eqn:Hlt2; cbn [app] in He.
      * apply cons_inj in He; destruct He as [Hn Hr]. split; [exact Hn|exact Hr].
      * apply cons_inj in He; destruct He as [Hn _]. exfalso.
        assert (n2 mod 128 < 128) by (apply N.mod_lt; lia). lia.
      * apply cons_inj in He; destruct He as [Hn _]. exfalso.
        assert (n1 mod 128 < 128) by (apply N.mod_lt; lia). lia.
      * apply cons_inj in He; destruct He as [Hn Ht].
        destruct (IH f2 (n1 / 128) (n2 / 128) r1 r2 (div128_bound _ _ H1) (div128_bound _ _ H2) Ht) as [Hd Hr].
        split; [|exact Hr].
        rewrite (N.div_mod n1 128) by lia. rewrite (N.div_mod n2 128) by lia.
        assert (n1 mod 128 = n2 mod 128) by lia. congruence.
Qed.

Lemma varint_prefix_free : forall n1 n2 r1 r2,
  varint n1 ++ r1 = varint n2 ++ r2 -> n1 = n2 /\ r1 = r2.
Proof.
  intros n1 n2 r1 r2. unfold varint.
  apply varint_f_prefix_free; apply size_nat_bound.
Qed.

Lemma varint_nonempty : forall n, varint n <> [].
Proof.
  intros n. unfold varint. destruct (N.size_nat n); cbn [varint_f]; [discriminate|].
  destruct (n <? 128); discriminate.
Qed.

(* ---------- fields ---------- *)

Lemma encode_field_prefix_free : forall a b r1 r2,
  encode_field a ++ r1 = encode_field b ++ r2 -> a = b /\ r1 = r2.
Proof.
  intros [ta va] [tb vb] r1 r2. unfold encode_field. cbn [fst snd].
  destruct va as [na|ba]; destruct vb as [nb|bb]; rewrite <- !app_assoc; intros He;
    apply varint_prefix_free in He; destruct He as [Ht He].
  - apply varint_prefix_free in He. destruct He as [Hn Hr].
    assert (ta = tb) by lia. subst. split; reflexivity || exact Hr.
  - exfalso. lia.
  - exfalso. lia.
  - apply varint_prefix_free in He. destruct He as [Hl He].
    assert (Hlen : length ba = length bb) by (unfold len in Hl; lia).
    destruct (app_same_length_inv _ _ _ _ _ Hlen He) as [Hb Hr].
    assert (ta = tb) by lia. subst. split; reflexivity || exact Hr.
Qed.

Lemma encode_field_nonempty : forall a, encode_field a <> [].
Proof.
  intros [t v]. unfold encode_field. cbn [fst snd].
  destruct v; intros H; apply app_eq_nil in H; destruct H as [H _]; exact (varint_nonempty _ H).
Qed.

Lemma encode_msg_cons : forall f fs, encode_msg (f :: fs) = encode_field f ++ encode_msg fs.
Proof. reflexivity. Qed.

Lemma encode_msg_app : forall a b, encode_msg (a ++ b) = encode_msg a ++ encode_msg b.
Proof. intros a b. unfold encode_msg. rewrite map_app, concat_app. reflexivity. Qed.

(* a message is a prefix code too: with equal remainders-free tails the field lists agree *)
Theorem encode_msg_inj : forall l1 l2, encode_msg l1 = encode_msg l2 -> l1 = l2.
Proof.
  induction l1 as [|a l1 IH]; intros l2 He; destruct l2 as [|b l2].
  - reflexivity.
  - exfalso. rewrite encode_msg_cons in He. cbn in He. symmetry in He.
    apply app_eq_nil in He. destruct He as [He _]. exact (encode_field_nonempty _ He).
  - exfalso. rewrite encode_msg_cons in He. cbn in He.
    apply app_eq_nil in He. destruct He as [He _]. exact (encode_field_nonempty _ He).
  - rewrite !encode_msg_cons in He.
    destruct (encode_field_prefix_free _ _ _ _ He) as [Hab Ht].
    subst. f_equal. apply IH. exact Ht.
Qed.

Lemma opt_bytes_field_inj : forall t b1 b2 r1 r2,
  (forall x, In x r1 -> fst x <> t) -> (forall x, In x r2 -> fst x <> t) ->
  opt_bytes_field t b1 ++ r1 = opt_bytes_field t b2 ++ r2 -> b1 = b2 /\ r1 = r2.
Proof.
  intros t b1 b2 r1 r2 H1 H2 He.
  destruct b1 as [|x b1]; destruct b2 as [|y b2]; cbn [opt_bytes_field app] in He.
  - split; [reflexivity|exact He].
  - exfalso. subst r1. apply (H1 (t, VBytes (y :: b2))); [left; reflexivity|reflexivity].
  - exfalso. subst r2. apply (H2 (t, VBytes (x :: b1))); [left; reflexivity|reflexivity].
  - injection He as Hx Hb Hr. subst. split; reflexivity.
Qed.

Lemma opt_field_inj : forall t o1 o2 r1 r2,
  (forall x, In x r1 -> fst x <> t) -> (forall x, In x r2 -> fst x <> t) ->
  opt_field t o1 ++ r1 = opt_field t o2 ++ r2 -> o1 = o2 /\ r1 = r2.
Proof.
  intros t o1 o2 r1 r2 H1 H2 He.
  destruct o1 as [v1|]; destruct o2 as [v2|]; cbn [opt_field app] in He.
  - injection He as Hv Hr. subst. split; reflexivity.
  - exfalso. subst r2. apply (H2 (t, v1)); [left; reflexivity|reflexivity].
  - exfalso. subst r1. apply (H1 (t, v2)); [left; reflexivity|reflexivity].
  - split; [reflexivity|exact He].
Qed.

(* ---------- big-endian naturals ---------- *)

Lemma div256_bound : forall (f : nat) n, n < 2 ^ N.of_nat (S f) -> n / 256 < 2 ^ N.of_nat f.
Proof.
  intros f n H. rewrite pow2_S in H.
  apply N.div_lt_upper_bound; lia.
Qed.

Lemma from_le_le_bytes_f : forall f n, n < 2 ^ N.of_nat f -> from_le (le_bytes_f f n) = n.
Proof.
  induction f as [|f IH]; intros n H.
  - change (2 ^ N.of_nat 0) with 1 in H. cbn. lia.
  - cbn [le_bytes_f]. destruct (n =? 0) eqn:Hz.
    + cbn. lia.
    + cbn [from_le]. rewrite (IH _ (div256_bound _ _ H)).
      rewrite (N.div_mod n 256) at 3 by lia. lia.
Qed.

Theorem be_bytes_inj : forall a b, be_bytes a = be_bytes b -> a = b.
Proof.
  intros a b H. unfold be_bytes in H.
  apply (f_equal (@rev N)) in H. rewrite !rev_involutive in H.
  rewrite <- (from_le_le_bytes_f _ a (size_nat_bound a)).
  rewrite <- (from_le_le_bytes_f _ b (size_nat_bound b)).
  rewrite H. reflexivity.
Qed.

Lemma bytes_eqb_eq : forall a b, bytes_eqb a b = true <-> a = b.
Proof.
  induction a as [|x a IH]; intros b; destruct b as [|y b]; cbn [bytes_eqb]; split; intros H;
    try reflexivity; try discriminate.
  - apply andb_true_iff in H. destruct H as [Hx Ht]. apply N.eqb_eq in Hx. apply IH in Ht. subst. reflexivity.
  - injection H as Hx Ht. subst. rewrite N.eqb_refl. cbn. apply IH. reflexivity.
Qed.

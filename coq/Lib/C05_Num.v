(* Numbers in harness-written case files: Coq's elaboration of a 256-bit [N] literal
   costs ~15 ms; primitive 63-bit integers parse in microseconds.  The C05 harness
   therefore prints every number as limbs of 62 bits and these functions rebuild the
   [N] inside [vm_compute].  Used only by the correspondence check, never in theorems. *)
From Coq Require Import NArith ZArith Uint63.
Local Open Scope N_scope.

Definition U (x : int) : N := Z.to_N (Uint63.to_Z x).
(* little-endian limbs of 62 bits *)
Definition W (a b c d e : int) : N :=
  U a + N.shiftl (U b) 62 + N.shiftl (U c) 124 + N.shiftl (U d) 186 + N.shiftl (U e) 248.

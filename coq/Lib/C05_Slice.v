(* Go slices over a heap of backing arrays -- just enough to speak about ALIASING of the EVM's ETX cache
   (core/vm: ETXCache = append(ETXCache, etx); ETXCache = ETXCache[:n]) with what was handed out of it
   (core/state_transition.go:TransitionDb: make + copy).
   A heap is a list of backing arrays addressed by position; a slice is (array, length): every slice the
   modelled code forms starts at offset 0, so its capacity is the length of its array.  [append] writes in
   place while there is capacity and otherwise moves to a new, larger array (the amount of extra capacity is
   a parameter: nothing proved here depends on Go's growth policy).
   Used by Model/C05.v (hprocess) and Proofs/C05_Block.v. *)
From Coq Require Import List Arith PeanoNat Lia.
Import ListNotations.

Fixpoint upd {B} (l : list B) (i : nat) (x : B) : list B :=
  match l, i with
  | [], _ => []
  | _ :: t, O => x :: t
  | y :: t, S i' => y :: upd t i' x
  end.

Lemma upd_length : forall B (l : list B) i x, length (upd l i x) = length l.
Proof. induction l as [|y t IH]; intros [|i] x; simpl; auto. Qed.

Lemma nth_upd_same : forall B (l : list B) i x d, i < length l -> nth i (upd l i x) d = x.
Proof. induction l as [|y t IH]; intros [|i] x d H; simpl in *; try lia; auto. apply IH. lia. Qed.

Lemma nth_upd_other : forall B (l : list B) i j x d, i <> j -> nth j (upd l i x) d = nth j l d.
Proof.
  induction l as [|y t IH]; intros [|i] [|j] x d H; simpl; auto; try lia; try (apply IH; lia).
Qed.

Lemma firstn_S_upd : forall B (l : list B) i x, i < length l -> firstn (S i) (upd l i x) = firstn i l ++ [x].
Proof.
  induction l as [|y t IH]; intros [|i] x H; simpl in *; try lia; auto.
  f_equal. apply IH. lia.
Qed.

Section Slice.
Variable A : Type.
Variable d : A.                 (* the zero value of the element type (a nil pointer) *)
Variable grow : nat -> nat.     (* extra capacity given to a re-allocated array of that length *)

Definition heap := list (list A).
Record slice := mkSl { sl_arr : nat; sl_len : nat }.

Definition arr (h : heap) (a : nat) : list A := nth a h [].
Definition sl_read (h : heap) (s : slice) : list A := firstn (sl_len s) (arr h (sl_arr s)).

(* append(s, x) *)
Definition sl_append (h : heap) (s : slice) (x : A) : heap * slice :=
  let a := arr h (sl_arr s) in
  if sl_len s <? length a
  then (upd h (sl_arr s) (upd a (sl_len s) x), mkSl (sl_arr s) (S (sl_len s)))
  else (h ++ [firstn (sl_len s) a ++ x :: repeat d (grow (sl_len s))], mkSl (length h) (S (sl_len s))).
(* s[:n] *)
Definition sl_reslice (s : slice) (n : nat) : slice := mkSl (sl_arr s) n.
(* t := make([]T, len(s)); copy(t, s) *)
Definition sl_copy (h : heap) (s : slice) : heap * slice := (h ++ [sl_read h s], mkSl (length h) (sl_len s)).
(* make([]T, 0) *)
Definition sl_make (h : heap) : heap * slice := (h ++ [[]], mkSl (length h) 0).

(* what the execution of a transaction does to the cache: append (opETX, opConvert, CreateETX, UnwrapQi) and
   re-slice to an earlier length (revertToSnapshot) *)
Inductive cop := CPush (x : A) | CTrunc (n : nat).
Definition cop_list (l : list A) (o : cop) : list A :=
  match o with CPush x => l ++ [x] | CTrunc n => firstn n l end.
Definition cop_h (hs : heap * slice) (o : cop) : heap * slice :=
  match o with
  | CPush x => sl_append (fst hs) (snd hs) x
  | CTrunc n => (fst hs, sl_reslice (snd hs) (Nat.min n (sl_len (snd hs))))
  end.
Definition run_cops_h (h : heap) (s : slice) (ops : list cop) : heap * slice := fold_left cop_h ops (h, s).

(* ---------- lemmas ---------- *)
Definition sl_ok (h : heap) (s : slice) : Prop :=
  sl_arr s < length h /\ sl_len s <= length (arr h (sl_arr s)).

(* (h', s') is reached from (h, s) by operations on the slice s only: every OTHER array that existed is untouched *)
Definition ext (h : heap) (s : slice) (h' : heap) (s' : slice) : Prop :=
  sl_ok h' s' /\ length h <= length h' /\
  (forall b, b < length h -> b <> sl_arr s -> arr h' b = arr h b) /\
  (sl_arr s' = sl_arr s \/ length h <= sl_arr s').

Lemma ext_refl : forall h s, sl_ok h s -> ext h s h s.
Proof. intros h s H. repeat split; try apply H; auto. Qed.

Lemma ext_trans : forall h s h1 s1 h2 s2, sl_ok h s -> ext h s h1 s1 -> ext h1 s1 h2 s2 -> ext h s h2 s2.
Proof.
  intros h s h1 s1 h2 s2 [Ha _] (O1 & L1 & F1 & P1) (O2 & L2 & F2 & P2).
  split; [exact O2|]. split; [lia|]. split.
  - intros b Hb Hn. rewrite F2; [apply F1; assumption | lia | ]. destruct P1 as [E|G]; [rewrite E; assumption | lia].
  - destruct P2 as [E|G]; [rewrite E; destruct P1 as [E1|G1]; [left; assumption | right; assumption] | right; lia].
Qed.

Lemma arr_upd_same : forall (h : heap) a v, a < length h -> arr (upd h a v) a = v.
Proof. intros. unfold arr. apply nth_upd_same. assumption. Qed.
Lemma arr_upd_other : forall (h : heap) a b v, a <> b -> arr (upd h a v) b = arr h b.
Proof. intros. unfold arr. apply nth_upd_other. assumption. Qed.
Lemma arr_app_old : forall (h : heap) v b, b < length h -> arr (h ++ [v]) b = arr h b.
Proof. intros. unfold arr. apply app_nth1. assumption. Qed.
Lemma arr_app_new : forall (h : heap) v, arr (h ++ [v]) (length h) = v.
Proof. intros. unfold arr. rewrite app_nth2 by lia. rewrite Nat.sub_diag. reflexivity. Qed.

Lemma append_spec : forall h s x, sl_ok h s ->
  ext h s (fst (sl_append h s x)) (snd (sl_append h s x)) /\
  sl_read (fst (sl_append h s x)) (snd (sl_append h s x)) = sl_read h s ++ [x].
Proof.
  intros h s x [Ha Hl]. unfold sl_append.
  destruct (Nat.ltb_spec (sl_len s) (length (arr h (sl_arr s)))) as [L|L]; cbn [fst snd].
  - split.
    + split; [|split; [|split]].
      * split; cbn [sl_arr sl_len]; [rewrite upd_length; assumption|].
        rewrite arr_upd_same by assumption. rewrite upd_length. lia.
      * rewrite upd_length. lia.
      * intros b _ Hn. apply arr_upd_other. auto.
      * left. reflexivity.
    + unfold sl_read. cbn [sl_arr sl_len]. rewrite arr_upd_same by assumption.
      apply firstn_S_upd. assumption.
  - split.
    + split; [|split; [|split]].
      * split; cbn [sl_arr sl_len]; [rewrite app_length; simpl; lia|].
        rewrite arr_app_new. rewrite app_length, firstn_length. simpl. lia.
      * rewrite app_length. lia.
      * intros b Hb _. apply arr_app_old. assumption.
      * right. cbn [sl_arr]. lia.
    + unfold sl_read. cbn [sl_arr sl_len]. rewrite arr_app_new.
      rewrite firstn_app, firstn_length, Nat.min_l by assumption.
      rewrite firstn_all2 by (rewrite firstn_length; lia).
      replace (S (sl_len s) - sl_len s) with 1 by lia. reflexivity.
Qed.

Lemma reslice_spec : forall h s n, sl_ok h s -> n <= sl_len s ->
  ext h s h (sl_reslice s n) /\ sl_read h (sl_reslice s n) = firstn n (sl_read h s).
Proof.
  intros h s n [Ha Hl] Hn. split.
  - split; [|split; [|split]]; auto. split; cbn [sl_reslice sl_arr sl_len]; [assumption | lia].
  - unfold sl_read, sl_reslice. cbn [sl_arr sl_len]. rewrite firstn_firstn. rewrite Nat.min_l by assumption. reflexivity.
Qed.

Lemma cop_spec : forall h s o, sl_ok h s ->
  ext h s (fst (cop_h (h, s) o)) (snd (cop_h (h, s) o)) /\
  sl_read (fst (cop_h (h, s) o)) (snd (cop_h (h, s) o)) = cop_list (sl_read h s) o.
Proof.
  intros h s [x|n] H; cbn [cop_h cop_list fst snd].
  - apply append_spec. assumption.
  - destruct (reslice_spec h s (Nat.min n (sl_len s)) H (Nat.le_min_r _ _)) as [E R].
    split; [exact E|]. rewrite R. unfold sl_read.
    destruct H as [_ Hl].
    rewrite !firstn_firstn. f_equal. lia.
Qed.

Lemma run_cops_spec : forall ops h s, sl_ok h s ->
  ext h s (fst (run_cops_h h s ops)) (snd (run_cops_h h s ops)) /\
  sl_read (fst (run_cops_h h s ops)) (snd (run_cops_h h s ops)) = fold_left cop_list ops (sl_read h s).
Proof.
  unfold run_cops_h. induction ops as [|o ops IH]; intros h s H; cbn [fold_left].
  - split; [apply ext_refl; assumption | reflexivity].
  - destruct (cop_spec h s o H) as [E R].
    destruct (cop_h (h, s) o) as [h1 s1] eqn:C. cbn [fst snd] in E, R.
    destruct (IH h1 s1 (proj1 E)) as [E2 R2].
    split; [eapply ext_trans; eassumption | rewrite R2, R; reflexivity].
Qed.

Lemma copy_spec : forall h s, sl_ok h s ->
  sl_read (fst (sl_copy h s)) (snd (sl_copy h s)) = sl_read h s /\
  sl_arr (snd (sl_copy h s)) = length h /\ length (fst (sl_copy h s)) = S (length h) /\
  (forall b, b < length h -> arr (fst (sl_copy h s)) b = arr h b).
Proof.
  intros h s [Ha Hl]. unfold sl_copy. cbn [fst snd sl_arr sl_len]. repeat split.
  - unfold sl_read at 1. cbn [sl_arr sl_len]. rewrite arr_app_new. unfold sl_read. rewrite firstn_firstn. f_equal. lia.
  - rewrite app_length. simpl. lia.
  - intros b Hb. apply arr_app_old. assumption.
Qed.

End Slice.

Arguments CPush {A} x.
Arguments CTrunc {A} n.
Arguments sl_read {A} h s.
Arguments arr {A} h a.
Arguments sl_append {A} d grow h s x.
Arguments sl_copy {A} h s.
Arguments sl_make {A} h.
Arguments cop_list {A} l o.
Arguments cop_h {A} d grow hs o.
Arguments run_cops_h {A} d grow h s ops.
Arguments sl_ok {A} h s.
Arguments ext {A} h s h' s'.

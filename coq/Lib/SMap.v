(* Finite maps keyed by byte strings, as strictly sorted association lists.
   Iteration order = ascending byte order (what every ethdb backend promises). *)
From Coq Require Import List NArith Lia Bool.
From GQ Require Import Lib.Key.
Import ListNotations.

Ltac krefl := match goal with H : kcmp ?a ?a = _ |- _ => rewrite kcmp_refl in H; discriminate end.

Section SMap.
Context {V : Type}.

Definition smap := list (key * V).

Fixpoint get (k : key) (m : smap) : option V :=
  match m with
  | [] => None
  | (k', v) :: m' =>
      match kcmp k k' with
      | Eq => Some v
      | Lt => None
      | Gt => get k m'
      end
  end.

Fixpoint put (k : key) (v : V) (m : smap) : smap :=
  match m with
  | [] => [(k, v)]
  | (k', v') :: m' =>
      match kcmp k k' with
      | Eq => (k, v) :: m'
      | Lt => (k, v) :: m
      | Gt => (k', v') :: put k v m'
      end
  end.

Fixpoint del (k : key) (m : smap) : smap :=
  match m with
  | [] => []
  | (k', v') :: m' =>
      match kcmp k k' with
      | Eq => m'
      | Lt => m
      | Gt => (k', v') :: del k m'
      end
  end.

Definition lb (k : key) (m : smap) : Prop := forall k' v, In (k', v) m -> kltb k k' = true.

Fixpoint sorted (m : smap) : Prop :=
  match m with
  | [] => True
  | (k, _) :: m' => lb k m' /\ sorted m'
  end.

Fixpoint sortedb (m : smap) : bool :=
  match m with
  | [] => true
  | (k, _) :: m' =>
      match m' with
      | [] => true
      | (k', _) :: _ => kltb k k' && sortedb m'
      end
  end.

Lemma lb_trans k k' m : kltb k k' = true -> lb k' m -> lb k m.
Proof. intros H L a v Hin. eapply kltb_trans; eauto. Qed.

Lemma sortedb_sorted m : sortedb m = true -> sorted m.
Proof.
  induction m as [|[k v] m IH]; cbn; [auto|].
  destruct m as [|[k' v'] m']; [intros _; split; [intros ? ? []|exact I]|].
  intros H. apply andb_prop in H as [H1 H2]. specialize (IH H2).
  split; [|exact IH]. intros a w [E|Hin].
  - inversion E; subst; exact H1.
  - destruct IH as [L _]. eapply kltb_trans; [exact H1|]. eapply L; eauto.
Qed.

Lemma get_lb_none k m : lb k m -> get k m = None.
Proof.
  destruct m as [|[k' v'] m']; cbn; [reflexivity|]. intros L.
  specialize (L k' v' (or_introl eq_refl)). unfold kltb in L.
  destruct (kcmp k k'); try discriminate. reflexivity.
Qed.

Lemma get_below k k' m : sorted m -> lb k' m -> kleb k k' = true -> get k m = None.
Proof.
  intros S L H. apply get_lb_none. apply kleb_spec in H as [H| ->]; [|exact L].
  eapply lb_trans; eauto.
Qed.

Lemma get_in k v m : sorted m -> (get k m = Some v <-> In (k, v) m).
Proof.
  induction m as [|[k' v'] m IH]; cbn; [intros _; split; [discriminate|tauto]|].
  intros [L S]. destruct (kcmp k k') eqn:E.
  - apply kcmp_eq in E; subst k'. split.
    + intros H; inversion H; subst; left; reflexivity.
    + intros [H|H]; [inversion H; reflexivity|].
      apply L in H. rewrite kltb_irrefl in H. discriminate.
  - split; [discriminate|]. intros [H|H].
    + inversion H; subst. krefl.
    + apply L in H. unfold kltb in H. destruct (kcmp k' k) eqn:E2; try discriminate.
      pose proof (kcmp_lt_trans _ _ _ E E2). krefl.
  - rewrite (IH S). split; [tauto|]. intros [H|H]; [|exact H].
    inversion H; subst. krefl.
Qed.

Lemma get_put_same k v m : get k (put k v m) = Some v.
Proof.
  induction m as [|[k' v'] m IH]; cbn.
  - rewrite kcmp_refl; reflexivity.
  - destruct (kcmp k k') eqn:E; cbn; rewrite ?kcmp_refl, ?E; auto.
Qed.

Lemma get_put_other k k0 v m : k0 <> k -> get k0 (put k v m) = get k0 m.
Proof.
  intros N. induction m as [|[k' v'] m IH]; cbn.
  - destruct (kcmp k0 k) eqn:E; auto. apply kcmp_eq in E. contradiction.
  - destruct (kcmp k k') eqn:E; cbn.
    + apply kcmp_eq in E; subst k'. destruct (kcmp k0 k) eqn:E2; auto.
      apply kcmp_eq in E2; contradiction.
    + destruct (kcmp k0 k) eqn:E2.
      * apply kcmp_eq in E2; contradiction.
      * rewrite (kcmp_lt_trans _ _ _ E2 E). reflexivity.
      * reflexivity.
    + destruct (kcmp k0 k'); auto.
Qed.

Lemma put_in k v m a w : In (a, w) (put k v m) -> (a = k /\ w = v) \/ In (a, w) m.
Proof.
  induction m as [|[k' v'] m IH]; cbn.
  - intros [H|[]]; inversion H; auto.
  - destruct (kcmp k k') eqn:E; cbn.
    + intros [H|H]; [inversion H; auto|auto].
    + intros [H|H]; [inversion H; auto|auto].
    + intros [H|H]; [auto|]. destruct (IH H); auto.
Qed.

Lemma put_sorted k v m : sorted m -> sorted (put k v m).
Proof.
  induction m as [|[k' v'] m IH]; cbn.
  - intros _. split; [intros ? ? []|exact I].
  - intros [L S]. destruct (kcmp k k') eqn:E; cbn.
    + apply kcmp_eq in E; subst k'. auto.
    + split; [|auto]. intros a w [H|H].
      * inversion H; subst. unfold kltb; rewrite E; reflexivity.
      * eapply kltb_trans; [unfold kltb; rewrite E; reflexivity|]. eapply L; eauto.
    + split; [|auto]. intros a w H. apply put_in in H as [[-> ->]|H].
      * apply kcmp_gt_lt in E. unfold kltb; rewrite E; reflexivity.
      * eapply L; eauto.
Qed.

Lemma del_in k m a w : In (a, w) (del k m) -> In (a, w) m.
Proof.
  induction m as [|[k' v'] m IH]; cbn; [tauto|].
  destruct (kcmp k k'); cbn; intuition.
Qed.

Lemma del_sorted k m : sorted m -> sorted (del k m).
Proof.
  induction m as [|[k' v'] m IH]; cbn; [auto|].
  intros [L S]. destruct (kcmp k k') eqn:E; cbn; auto.
  split; [|auto]. intros a w H. eapply L. eapply del_in; eauto.
Qed.

Lemma get_del_same k m : sorted m -> get k (del k m) = None.
Proof.
  induction m as [|[k' v'] m IH]; cbn; [auto|].
  intros [L S]. destruct (kcmp k k') eqn:E; cbn.
  - apply kcmp_eq in E; subst. apply get_lb_none; exact L.
  - rewrite E; reflexivity.
  - rewrite E. auto.
Qed.


Lemma get_del_other k k0 m : sorted m -> k0 <> k -> get k0 (del k m) = get k0 m.
Proof.
  intros S N. induction m as [|[k' v'] m IH]; cbn; [auto|].
  destruct S as [L S]. destruct (kcmp k k') eqn:E; cbn.
  - apply kcmp_eq in E; subst k'. destruct (kcmp k0 k) eqn:E2; auto.
    + apply kcmp_eq in E2; contradiction.
    + apply get_lb_none. eapply lb_trans; [|exact L]. unfold kltb; rewrite E2; reflexivity.
  - reflexivity.
  - destruct (kcmp k0 k'); auto.
Qed.

(* Extensionality: sorted maps with the same lookups are the same list. *)
Lemma sorted_ext m1 m2 :
  sorted m1 -> sorted m2 -> (forall k, get k m1 = get k m2) -> m1 = m2.
Proof.
  revert m2; induction m1 as [|[k1 v1] m1 IH]; intros [|[k2 v2] m2] S1 S2 H.
  - reflexivity.
  - specialize (H k2). cbn in H. rewrite kcmp_refl in H. discriminate.
  - specialize (H k1). cbn in H. rewrite kcmp_refl in H. discriminate.
  - destruct S1 as [L1 S1], S2 as [L2 S2].
    assert (k1 = k2) as ->.
    { destruct (kcmp_total k1 k2) as [Hlt|[Heq|Hgt]]; [|exact Heq|].
      - specialize (H k1). cbn in H. rewrite kcmp_refl in H. unfold kltb in Hlt.
        destruct (kcmp k1 k2); try discriminate.
      - specialize (H k2). cbn in H. rewrite kcmp_refl in H. unfold kltb in Hgt.
        destruct (kcmp k2 k1); try discriminate. }
    assert (v1 = v2) as ->.
    { specialize (H k2). cbn in H. rewrite kcmp_refl in H. congruence. }
    f_equal. apply IH; auto. intros k. specialize (H k). cbn in H.
    destruct (kcmp k k2) eqn:E; auto.
    + apply kcmp_eq in E; subst. rewrite !get_lb_none; auto.
    + rewrite !get_lb_none; auto; eapply lb_trans; eauto; unfold kltb; rewrite E; reflexivity.
Qed.

(* iteration *)
Definition in_range (prefix start k : key) : bool :=
  has_prefix prefix k && kleb (prefix ++ start) k.

Definition iterate (prefix start : key) (m : smap) : smap :=
  filter (fun kv => in_range prefix start (fst kv)) m.

Lemma filter_sorted f (m : smap) : sorted m -> sorted (filter f m).
Proof.
  induction m as [|[k v] m IH]; cbn; [auto|]. intros [L S].
  destruct (f (k, v)); cbn; auto. split; auto.
  intros a w H. apply filter_In in H as [H _]. eapply L; eauto.
Qed.

Lemma iterate_sorted p s m : sorted m -> sorted (iterate p s m).
Proof. apply filter_sorted. Qed.

Lemma iterate_exact p s m k v : sorted m ->
  (In (k, v) (iterate p s m) <-> get k m = Some v /\ in_range p s k = true).
Proof.
  intros S. unfold iterate. rewrite filter_In. cbn. rewrite (get_in k v m S). tauto.
Qed.

Definition keys (m : smap) : list key := map fst m.
Definition size (m : smap) : nat := length m.

End SMap.
Arguments smap : clear implicits.

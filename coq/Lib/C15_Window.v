(* C15 — the bounds check of RETURNDATACOPY (core/vm/instructions.go opReturnDataCopy), the one
   instruction body that slices a buffer with bounds computed from two stack words
   (dataOffset, length) and reports a violation as an error instead of clamping.
   Executable definitions only; lemmas in Proofs/C15_Window.v.

     offset64, overflow := dataOffset.Uint64WithOverflow()
     if overflow { return nil, ErrReturnDataOutOfBounds }
     var end = dataOffset
     end.Add(&dataOffset, &length)                       (256-bit addition, wraps at 2^256)
     end64, overflow := end.Uint64WithOverflow()
     if overflow || uint64(len(interpreter.returnData)) < end64 { return nil, ErrReturnDataOutOfBounds }
     scope.Memory.Set(memOffset.Uint64(), length.Uint64(), interpreter.returnData[offset64:end64])

   The slice expression panics (Go runtime) unless offset64 <= end64 <= len(returnData). *)
From Coq Require Import NArith Bool.
Local Open Scope N_scope.

Definition W64  : N := 18446744073709551616.   (* 2^64 *)
Definition W256 : N := 115792089237316195423570985008687907853269984665640564039457584007913129639936. (* 2^256 *)

(* Some (lo, hi) = the slice returnData[lo:hi] is taken; None = ErrReturnDataOutOfBounds *)
Definition rdc_window (data_off len ret_len : N) : option (N * N) :=
  if W64 <=? data_off then None
  else
    let e := (data_off + len) mod W256 in
    if W64 <=? e then None
    else if ret_len <? e then None
    else Some (data_off, e).

(* the same check with the end computed in machine words (offset64 + length64, wrapping at 2^64) and no
   overflow term: what the check becomes if the 256-bit addition is "optimised" away *)
Definition rdc_window_u64 (data_off len ret_len : N) : option (N * N) :=
  if W64 <=? data_off then None
  else
    let e := (data_off + len mod W64) mod W64 in
    if ret_len <? e then None
    else Some (data_off, e).

(* the Go slice expression b[lo:hi] on a buffer of n bytes does not panic *)
Definition slice_ok (n lo hi : N) : bool := (lo <=? hi) && (hi <=? n).

(* the charge phase in front of the instruction (memoryReturnDataCopy = calcMemSize64(memOffset, length);
   Model/C15.v step: a_req = None -> VGasOverflow): a non-zero length that is not a uint64 never reaches
   the instruction body *)
Definition length_admitted (len : N) : bool := len <? W64.

(* ---- correspondence: one RETURNDATACOPY of the harness's totality sweep ----
   memOffset, dataOffset, length as pushed; len(returnData) as seen by the tracer; observed:
   0 = the frame went on (the copy was made), 1 = ErrReturnDataOutOfBounds, 2 = the charge phase refused the
   instruction (out of gas / size overflow), anything else = another error. *)
Definition win_ok (mem_off data_off len ret_len obs : N) : bool :=
  match obs with
  | 0 => match rdc_window data_off len ret_len with
         | Some (lo, hi) => (lo =? data_off) && (hi =? data_off + len) && slice_ok ret_len lo hi
         | None => false
         end
  | 1 => match rdc_window data_off len ret_len with None => length_admitted len | Some _ => false end
  | 2 => negb (len =? 0) && (1048576 <? mem_off + len)   (* 5,000,000 gas pay for any request up to 1 MiB *)
  | _ => false
  end.

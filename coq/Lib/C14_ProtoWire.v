(* C14_ProtoWire — proto3 wire format, generic in a schema: the encoder of Go's
   google.golang.org/protobuf (impl.marshal: fields in marshal order, zero values of
   implicit-presence fields omitted, minimal varints) and its decoder (impl.unmarshal:
   any field order, duplicates, non-minimal varints, unknown fields, uint32 truncation).
   Definitions only; the theorems are in Lib/C14_ProtoWireFacts.v and Lib/C14_ProtoWireNF.v.

   INTERFACE
   ---------------------------------------------------------------------------
   Schema (emitted from the compiled descriptors by harness/gen/c14schemas):
     kind   := KU32 | KU64 | KBytes | KMsg ref | KOther      (KOther = not covered: map, string, sint, fixed, ...)
     label  := LOpt (explicit presence: `optional`, message fields, oneof members)
             | LImp (implicit presence: proto3 scalar without `optional`; zero/empty is never on the wire)
             | LRep (repeated bytes / repeated message)
     field  := { f_num; f_kind; f_label; f_oneof }           (f_oneof = 0: not in a real oneof)
     msgdesc := list field     IN MARSHAL ORDER (Go: order.LegacyFieldOrder), required strictly increasing in f_num
     schema  := list msgdesc   message id = index
   Values (the "generic field tree"; wire order, a repeated field = consecutive entries with the same number):
     fval := FInt n | FBytes b | FMsg (list (N * fval))       msg := list (N * fval)
   Functions:
     encode  : msg -> bytes                     (schema-free: the wire type is determined by the constructor)
     parse   : bytes -> option (list record)    (wire-level records; errors as Go: bad tag, field number 0 or > 2^29-1,
                                                 truncated value, wire types 3,4,6,7 -- see LIMIT below)
     decode  : schema -> N -> bytes -> option msg
     wf_msg  : schema -> N -> msg -> bool       normal form = conforms to the schema: known fields, kinds, marshal order,
                                                 singular fields at most once, LImp fields non-zero, one member per oneof,
                                                 uint32 < 2^32, uint64 < 2^64, bytes < 256
     schema_ok : schema -> bool
   Theorems: C14_ProtoWireFacts: decode_encode (round trip), encode_inj, parse_encode (wire-level round trip);
             C14_ProtoWireNF: decode_wf (the decoder returns normal forms), decode_idempotent, decode_reencode_iff.
   LIMITS: unknown fields are dropped by [decode] (Go retains them in the message and re-emits them);
           group wire types (3/4) are a decode error here (Go skips a well-formed unknown group);
           Go's recursion limit (10000) is not modelled.
   ---------------------------------------------------------------------------  *)
From Coq Require Import List NArith Lia Bool.
From GQ Require Import Lib.Key Lib.C14_Varint.
Import ListNotations.
Local Open Scope N_scope.

Inductive kind := KU32 | KU64 | KBytes | KMsg (ref : N) | KOther.
Inductive label := LOpt | LImp | LRep.
Record field := mkField { f_num : N; f_kind : kind; f_label : label; f_oneof : N }.
Definition msgdesc := list field.
Definition schema := list msgdesc.

Inductive fval := FInt (n : N) | FBytes (b : bytes) | FMsg (m : list (N * fval)).
Definition msg := list (N * fval).

Definition max_field : N := 536870911.   (* protowire.MaxValidNumber = 2^29 - 1 *)

(* ---------------- encoder (impl/encode.go, protowire.AppendXxx) ---------------- *)

Definition tag (num wt : N) : bytes := C14_Varint.encode (num * 8 + wt).

(* wire type and payload of one value *)
Fixpoint enc_fval (v : fval) : N * bytes :=
  match v with
  | FInt n => (0, C14_Varint.encode n)
  | FBytes b => (2, C14_Varint.encode (len b) ++ b)
  | FMsg m =>
      let p := (fix go (l : list (N * fval)) : bytes :=
                  match l with
                  | [] => []
                  | e :: t => (let '(wt, pl) := enc_fval (snd e) in tag (fst e) wt ++ pl) ++ go t
                  end) m in
      (2, C14_Varint.encode (len p) ++ p)
  end.

Definition enc_entry (e : N * fval) : bytes :=
  let '(wt, pl) := enc_fval (snd e) in tag (fst e) wt ++ pl.

Fixpoint encode (m : msg) : bytes :=
  match m with
  | [] => []
  | e :: t => enc_entry e ++ encode t
  end.

(* ---------------- wire-level parser (protowire.ConsumeField) ---------------- *)

Inductive wval := WVarint (n : N) | WI64 (b : bytes) | WBytes (b : bytes) | WI32 (b : bytes).
Definition record := (N * wval)%type.

Definition take (n : nat) (b : bytes) : option (bytes * bytes) :=
  if Nat.ltb (length b) n then None else Some (firstn n b, skipn n b).

Definition parse_record (b : bytes) : option (record * bytes) :=
  match C14_Varint.decode b with
  | None => None
  | Some (t, r) =>
      let num := t / 8 in
      let wt := t mod 8 in
      if (num =? 0) || (max_field <? num) then None
      else if wt =? 0 then
        match C14_Varint.decode r with
        | Some (v, r') => Some ((num, WVarint v), r')
        | None => None
        end
      else if wt =? 1 then
        match take 8 r with Some (x, r') => Some ((num, WI64 x), r') | None => None end
      else if wt =? 2 then
        match C14_Varint.decode r with
        | Some (l, r') =>
            if len r' <? l then None
            else Some ((num, WBytes (firstn (N.to_nat l) r')), skipn (N.to_nat l) r')
        | None => None
        end
      else if wt =? 5 then
        match take 4 r with Some (x, r') => Some ((num, WI32 x), r') | None => None end
      else None
  end.

Fixpoint parse_records (fuel : nat) (b : bytes) : option (list record) :=
  match b with
  | [] => Some []
  | _ :: _ =>
      match fuel with
      | O => None
      | S f =>
          match parse_record b with
          | None => None
          | Some (r, rest) =>
              match parse_records f rest with
              | Some rs => Some (r :: rs)
              | None => None
              end
          end
      end
  end.

Definition parse (b : bytes) : option (list record) := parse_records (length b) b.

(* ---------------- schema-directed interpretation (impl/decode.go, codec_field.go) ---------------- *)

Definition wt_ok (k : kind) (w : wval) : bool :=
  match k, w with
  | KU32, WVarint _ => true
  | KU64, WVarint _ => true
  | KBytes, WBytes _ => true
  | KMsg _, WBytes _ => true
  | _, _ => false
  end.

(* a record is consumed by field fd iff number and wire type agree; otherwise it is an unknown field *)
Definition matches (fd : field) (r : record) : bool :=
  (fst r =? f_num fd) && wt_ok (f_kind fd) (snd r).

(* other members of fd's oneof *)
Definition others_of (desc : msgdesc) (fd : field) : list field :=
  if f_oneof fd =? 0 then []
  else filter (fun o => (f_oneof o =? f_oneof fd) && negb (f_num o =? f_num fd)) desc.

(* values seen for fd, in wire order; setting another member of the oneof clears them *)
Fixpoint collect (fd : field) (others : list field) (rs : list record) (acc : list wval) : list wval :=
  match rs with
  | [] => acc
  | r :: t =>
      if matches fd r then collect fd others t (acc ++ [snd r])
      else if existsb (fun o => matches o r) others then collect fd others t []
      else collect fd others t acc
  end.

Definition w_int (w : wval) : N := match w with WVarint n => n | _ => 0 end.
Definition w_bytes (w : wval) : bytes := match w with WBytes b => b | _ => [] end.

Fixpoint last_opt {A} (l : list A) : option A :=
  match l with
  | [] => None
  | [x] => Some x
  | _ :: t => last_opt t
  end.

Definition is_imp (l : label) : bool := match l with LImp => true | _ => false end.
Definition is_rep (l : label) : bool := match l with LRep => true | _ => false end.

Section Interp.
  (* decoder of a nested message of type [ref] from its records *)
  Variable rec : N -> list record -> option msg.

  (* payloads of one singular message field: each parsed on its own, records merged *)
  Fixpoint parse_all (ws : list wval) : option (list record) :=
    match ws with
    | [] => Some []
    | w :: t =>
        match parse (w_bytes w), parse_all t with
        | Some a, Some b => Some (a ++ b)
        | _, _ => None
        end
    end.

  (* repeated message field: one element per record *)
  Fixpoint each_msg (ref num : N) (ws : list wval) : option msg :=
    match ws with
    | [] => Some []
    | w :: t =>
        match parse (w_bytes w) with
        | None => None
        | Some rs =>
            match rec ref rs, each_msg ref num t with
            | Some m, Some l => Some ((num, FMsg m) :: l)
            | _, _ => None
            end
        end
    end.

  Definition build_int (fd : field) (modulus : N) (ws : list wval) : option msg :=
    match last_opt ws with
    | None => Some []
    | Some w =>
        let v := w_int w mod modulus in
        if is_imp (f_label fd) && (v =? 0) then Some [] else Some [(f_num fd, FInt v)]
    end.

  Definition build (fd : field) (ws : list wval) : option msg :=
    match f_label fd, f_kind fd with
    | _, KOther => None
    | LRep, KBytes => Some (map (fun w => (f_num fd, FBytes (w_bytes w))) ws)
    | LRep, KMsg ref => each_msg ref (f_num fd) ws
    | LRep, _ => None
    | _, KU32 => build_int fd u32 ws
    | _, KU64 => build_int fd u64 ws
    | _, KBytes =>
        match last_opt ws with
        | None => Some []
        | Some w =>
            match w_bytes w with
            | [] => if is_imp (f_label fd) then Some [] else Some [(f_num fd, FBytes [])]
            | b => Some [(f_num fd, FBytes b)]
            end
        end
    | _, KMsg ref =>
        match ws with
        | [] => Some []
        | _ :: _ =>
            match parse_all ws with
            | None => None
            | Some rs =>
                match rec ref rs with
                | Some m => Some [(f_num fd, FMsg m)]
                | None => None
                end
            end
        end
    end.

  (* a oneof member that was overwritten has still been unmarshalled: its errors count *)
  Definition overwritten_ok (fd : field) (others : list field) (rs : list record) : bool :=
    match others, f_kind fd with
    | _ :: _, KMsg ref =>
        match each_msg ref (f_num fd) (map snd (filter (matches fd) rs)) with
        | Some _ => true
        | None => false
        end
    | _, _ => true
    end.

  Fixpoint interp_fields (todo all : msgdesc) (rs : list record) : option msg :=
    match todo with
    | [] => Some []
    | fd :: t =>
        let others := others_of all fd in
        if overwritten_ok fd others rs then
          match build fd (collect fd others rs []), interp_fields t all rs with
          | Some a, Some b => Some (a ++ b)
          | _, _ => None
          end
        else None
    end.
End Interp.

Fixpoint interp (fuel : nat) (sc : schema) (id : N) (rs : list record) : option msg :=
  match fuel with
  | O => None
  | S f =>
      match nth_error sc (N.to_nat id) with
      | None => None
      | Some desc => interp_fields (interp f sc) desc desc rs
      end
  end.

Definition decode (sc : schema) (id : N) (b : bytes) : option msg :=
  match parse b with
  | None => None
  | Some rs => interp (S (length b)) sc id rs
  end.

(* ---------------- normal form ---------------- *)

Definition find_field (desc : msgdesc) (num : N) : option field :=
  find (fun fd => f_num fd =? num) desc.

Definition nonzero_ok (fd : field) (v : fval) : bool :=
  match f_label fd, v with
  | LImp, FInt 0 => false
  | LImp, FBytes [] => false
  | _, _ => true
  end.

Definition rep_num (desc : msgdesc) (k : N) : bool :=
  match find_field desc k with Some fd => is_rep (f_label fd) | None => false end.

Fixpoint ordered (desc : msgdesc) (m : msg) : bool :=
  match m with
  | [] => true
  | e :: t =>
      match t with
      | [] => true
      | e' :: _ => ((fst e <? fst e') || ((fst e =? fst e') && rep_num desc (fst e))) && ordered desc t
      end
  end.

Definition oneof_of (desc : msgdesc) (k : N) : N :=
  match find_field desc k with Some fd => f_oneof fd | None => 0 end.

Definition oneof_ok (desc : msgdesc) (m : msg) : bool :=
  forallb (fun e1 => forallb (fun e2 =>
     let o1 := oneof_of desc (fst e1) in
     (o1 =? 0) || negb (o1 =? oneof_of desc (fst e2)) || (fst e1 =? fst e2)) m) m.

Fixpoint wf_val (sc : schema) (k : kind) (v : fval) {struct v} : bool :=
  match k, v with
  | KU32, FInt n => n <? u32
  | KU64, FInt n => n <? u64
  | KBytes, FBytes b => wf_bytesb b
  | KMsg ref, FMsg m =>
      match nth_error sc (N.to_nat ref) with
      | None => false
      | Some desc =>
          forallb (fun e =>
                     match find_field desc (fst e) with
                     | None => false
                     | Some fd => wf_val sc (f_kind fd) (snd e) && nonzero_ok fd (snd e)
                     end) m
          && ordered desc m && oneof_ok desc m
      end
  | _, _ => false
  end.

Definition wf_msg (sc : schema) (id : N) (m : msg) : bool := wf_val sc (KMsg id) (FMsg m).

(* ---------------- schema well-formedness ---------------- *)

Fixpoint nums_increasing (prev : N) (d : msgdesc) : bool :=
  match d with
  | [] => true
  | fd :: t => (prev <? f_num fd) && (f_num fd <=? max_field) && nums_increasing (f_num fd) t
  end.

Definition field_ok (n_msgs : N) (fd : field) : bool :=
  match f_kind fd, f_label fd with
  | KOther, _ => false
  | KMsg ref, LImp => false
  | KMsg ref, _ => ref <? n_msgs
  | KU32, LRep => false      (* packed repeated scalars are not modelled *)
  | KU64, LRep => false
  | _, _ => true
  end
  && ((f_oneof fd =? 0) || match f_label fd with LOpt => true | _ => false end).

Definition desc_ok (n_msgs : N) (d : msgdesc) : bool :=
  nums_increasing 0 d && forallb (field_ok n_msgs) d.

Definition schema_ok (sc : schema) : bool := forallb (desc_ok (N.of_nat (length sc))) sc.

(* kinds the generic theorems do not cover, listed per message id (the generator's
   [schemas_no_maps]-style obligations are stated with this) *)
Definition uses_other (d : msgdesc) : bool :=
  existsb (fun fd => match f_kind fd with KOther => true | _ => false end) d.

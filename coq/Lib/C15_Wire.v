(* C15 (A) — executable model of the hand-written length-prefixed parsers of the donor-chain
   coinbase (core/types/auxpow_coinbase_utils.go): Bitcoin CompactSize integers (readVarInt),
   the extraction of the first input's scriptSig from a serialised coinbase transaction
   (ExtractScriptSigFromCoinbaseTx), script pushes (parseScriptPush) and the seal-hash
   commitment (ExtractSealHashFromCoinbase).  Bytes are N (0..255), byte strings list N.
   Definitions only; lemmas in Proofs/C15_Wire.v. *)
From Coq Require Import List NArith Bool.
Import ListNotations.
Local Open Scope N_scope.

Definition len (b : list N) : N := N.of_nat (length b).
Definition take (n : N) (b : list N) : list N := firstn (N.to_nat n) b.
Definition drop (n : N) (b : list N) : list N := skipn (N.to_nat n) b.

(* little-endian number *)
Fixpoint le_num (bs : list N) : N :=
  match bs with
  | [] => 0
  | b :: r => b + 256 * le_num r
  end.

(* binary.Read of a k-byte little-endian integer: fails unless k bytes remain *)
Definition read_fixed (k : N) (b : list N) : option (N * list N) :=
  if len b <? k then None else Some (le_num (take k b), drop k b).

(* readVarInt: 0xfd -> uint16, 0xfe -> uint32, 0xff -> uint64, else the byte itself *)
Definition read_varint (b : list N) : option (N * list N) :=
  match b with
  | [] => None
  | x :: r =>
    if x =? 253 then read_fixed 2 r
    else if x =? 254 then read_fixed 4 r
    else if x =? 255 then read_fixed 8 r
    else Some (x, r)
  end.

(* ExtractScriptSigFromCoinbaseTx.  None = the Go function returns nil.
   bytes.Reader.Seek past the end succeeds and the next read hits EOF: that is [drop] yielding []
   followed by a failing [read_varint]. *)
Definition extract_script_sig (tx : list N) : option (list N) :=
  match read_varint (drop 4 tx) with                      (* version, input count *)
  | None => None
  | Some (_, r1) =>
    match read_varint (drop 36 r1) with                   (* prev_txid + prev_vout, scriptSig length *)
    | None => None
    | Some (n, r3) =>
      if n =? 0 then Some []
      else if len r3 <? n then None                        (* scriptLen > uint64(r.Len()) *)
      else Some (take n r3)                                (* make([]byte, scriptLen); io.ReadFull *)
    end
  end.

(* what the Go function allocates for its result *)
Definition script_sig_alloc (tx : list N) : N :=
  match extract_script_sig tx with Some s => len s | None => 0 end.

(* parseScriptPush: (data, rest) or None = error *)
Definition parse_push (s : list N) : option (list N * list N) :=
  match s with
  | [] => None
  | op :: r =>
    if 75 <? op then None
    else if len r <? op then None
    else Some (take op r, drop op r)
  end.

Definition magic : list N := [250; 190; 109; 109].       (* fa be 6d 6d *)

Fixpoint bytes_eqb (a b : list N) : bool :=
  match a, b with
  | [], [] => true
  | x :: a', y :: b' => (x =? y) && bytes_eqb a' b'
  | _, _ => false
  end.

(* ExtractSealHashFromCoinbase: None = error *)
Definition extract_seal_hash (ss : list N) : option (list N) :=
  if len ss =? 0 then None
  else match parse_push ss with
  | None => None
  | Some (height, r1) =>
    if 5 <? len height then None
    else match parse_push r1 with
    | None => None
    | Some (payload, _) =>
      if negb (len payload =? 44) then None
      else if negb (bytes_eqb (take 4 payload) magic) then None
      else Some (take 32 (drop 4 payload))
    end
  end.

Definition opt_bytes_eqb (a b : option (list N)) : bool :=
  match a, b with
  | None, None => true
  | Some x, Some y => bytes_eqb x y
  | _, _ => false
  end.

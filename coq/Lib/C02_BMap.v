(* C02 — balance maps: finite association lists account -> Z with default 0,
   their sum, and the algebra used by the conservation proofs. *)
From Coq Require Import List ZArith NArith Bool Lia.
Import ListNotations.
Local Open Scope Z_scope.

Definition addr := N.
Definition bmap := list (addr * Z).

Fixpoint bget (a : addr) (m : bmap) : Z :=
  match m with
  | [] => 0
  | (k, v) :: r => if N.eqb a k then v else bget a r
  end.

(* replaces the first binding of [a], appends one when there is none *)
Fixpoint bset (a : addr) (v : Z) (m : bmap) : bmap :=
  match m with
  | [] => [(a, v)]
  | (k, w) :: r => if N.eqb a k then (k, v) :: r else (k, w) :: bset a v r
  end.

Fixpoint bsum (m : bmap) : Z :=
  match m with
  | [] => 0
  | (_, v) :: r => v + bsum r
  end.

Definition bkeys (m : bmap) : list addr := map fst m.
Definition nonneg (m : bmap) : Prop := forall a, 0 <= bget a m.
Definition mem (a : addr) (l : list addr) : bool := existsb (N.eqb a) l.

Lemma bget_bset_same a v m : bget a (bset a v m) = v.
Proof.
  induction m as [|[k w] r IH]; cbn.
  - now rewrite N.eqb_refl.
  - destruct (N.eqb a k) eqn:E; cbn; rewrite E; auto.
Qed.

Lemma bget_bset_other a b v m : b <> a -> bget b (bset a v m) = bget b m.
Proof.
  intros N0. induction m as [|[k w] r IH]; cbn.
  - destruct (N.eqb b a) eqn:E; [apply N.eqb_eq in E; contradiction|reflexivity].
  - destruct (N.eqb a k) eqn:E; cbn.
    + apply N.eqb_eq in E; subst k.
      destruct (N.eqb b a) eqn:E2; [apply N.eqb_eq in E2; contradiction|reflexivity].
    + destruct (N.eqb b k); auto.
Qed.

Lemma bget_bset a b v m : bget b (bset a v m) = if N.eqb b a then v else bget b m.
Proof.
  destruct (N.eqb b a) eqn:E.
  - apply N.eqb_eq in E; subst. apply bget_bset_same.
  - apply N.eqb_neq in E. now apply bget_bset_other.
Qed.

(* the sum moves by exactly the change at [a] (no freshness assumption needed) *)
Lemma bsum_bset a v m : bsum (bset a v m) = bsum m - bget a m + v.
Proof.
  induction m as [|[k w] r IH]; cbn.
  - lia.
  - destruct (N.eqb a k) eqn:E; cbn; [lia|]. rewrite IH. lia.
Qed.

Lemma bkeys_bset_in a v m x : In x (bkeys (bset a v m)) -> x = a \/ In x (bkeys m).
Proof.
  induction m as [|[k w] r IH]; cbn.
  - intros [H|[]]; auto.
  - destruct (N.eqb a k) eqn:E; cbn; intros [H|H]; auto.
    destruct (IH H); auto.
Qed.

Lemma bset_nodup a v m : NoDup (bkeys m) -> NoDup (bkeys (bset a v m)).
Proof.
  induction m as [|[k w] r IH]; cbn; intros ND.
  - constructor; [intros []|constructor].
  - inversion ND as [|? ? NI ND']; subst.
    destruct (N.eqb a k) eqn:E; cbn.
    + constructor; assumption.
    + constructor; [|apply IH; exact ND'].
      intros HI. apply bkeys_bset_in in HI. destruct HI as [->|HI]; [|contradiction].
      now rewrite N.eqb_refl in E.
Qed.

(* with distinct keys the sum is the sum of the looked-up balances of the keys *)
Lemma fold_bget_skip k w r l : ~ In k l ->
  fold_right (fun a acc => bget a ((k, w) :: r) + acc) 0 l = fold_right (fun a acc => bget a r + acc) 0 l.
Proof.
  induction l as [|x l IHl]; cbn; intros NI; [reflexivity|].
  destruct (N.eqb x k) eqn:E.
  - apply N.eqb_eq in E. subst. exfalso. apply NI. now left.
  - f_equal. apply IHl. intros H. apply NI. now right.
Qed.

Lemma bsum_keys m : NoDup (bkeys m) -> bsum m = fold_right (fun a acc => bget a m + acc) 0 (bkeys m).
Proof.
  induction m as [|[k w] r IH]; intros ND; [reflexivity|].
  inversion ND as [|? ? NI ND']; subst.
  change (bkeys ((k, w) :: r)) with (k :: bkeys r).
  cbn [fold_right bsum]. rewrite (fold_bget_skip k w r _ NI), <- (IH ND').
  cbn. now rewrite N.eqb_refl.
Qed.

Lemma nonneg_bset a v m : nonneg m -> 0 <= v -> nonneg (bset a v m).
Proof. intros H Hv b. rewrite bget_bset. destruct (N.eqb b a); auto. Qed.

Lemma mem_true a l : mem a l = true <-> In a l.
Proof.
  unfold mem. rewrite existsb_exists. split.
  - intros [x [Hx E]]. apply N.eqb_eq in E. now subst.
  - intros H. exists a. split; [exact H|apply N.eqb_refl].
Qed.

Lemma mem_false a l : mem a l = false <-> ~ In a l.
Proof.
  rewrite <- mem_true. destruct (mem a l); split; intros H; try discriminate; auto.
  exfalso. now apply H.
Qed.

(* Byte strings as lists of N (each element < 256 when well formed) with the
   lexicographic order of Go's bytes.Compare. Definitions and their basic laws. *)
From Coq Require Import List NArith Lia Bool.
Import ListNotations.
Local Open Scope N_scope.

Definition key := list N.

Fixpoint kcmp (a b : key) : comparison :=
  match a, b with
  | [], [] => Eq
  | [], _ :: _ => Lt
  | _ :: _, [] => Gt
  | x :: a', y :: b' =>
      match N.compare x y with
      | Eq => kcmp a' b'
      | c => c
      end
  end.

Definition keqb (a b : key) : bool := match kcmp a b with Eq => true | _ => false end.
Definition kltb (a b : key) : bool := match kcmp a b with Lt => true | _ => false end.
Definition kleb (a b : key) : bool := match kcmp a b with Gt => false | _ => true end.

Fixpoint has_prefix (p k : key) : bool :=
  match p, k with
  | [], _ => true
  | _ :: _, [] => false
  | x :: p', y :: k' => N.eqb x y && has_prefix p' k'
  end.

Definition wf_bytes (k : key) : Prop := Forall (fun b => b < 256) k.
Definition wf_bytesb (k : key) : bool := forallb (fun b => b <? 256) k.

Lemma kcmp_refl a : kcmp a a = Eq.
Proof. induction a as [|x a IH]; cbn; [reflexivity|]. rewrite N.compare_refl. exact IH. Qed.

Lemma kcmp_eq a b : kcmp a b = Eq <-> a = b.
Proof.
  split.
  - revert b; induction a as [|x a IH]; intros [|y b] H; cbn in H; try discriminate; [reflexivity|].
    destruct (N.compare x y) eqn:E; try discriminate.
    apply N.compare_eq in E. subst. f_equal. apply IH. exact H.
  - intros ->. apply kcmp_refl.
Qed.

Lemma kcmp_antisym a b : kcmp b a = CompOpp (kcmp a b).
Proof.
  revert b; induction a as [|x a IH]; intros [|y b]; cbn; try reflexivity.
  rewrite (N.compare_antisym x y). destruct (N.compare x y); cbn; auto.
Qed.

Lemma kcmp_lt_trans a b c : kcmp a b = Lt -> kcmp b c = Lt -> kcmp a c = Lt.
Proof.
  revert b c; induction a as [|x a IH]; intros [|y b] [|z c] H1 H2; cbn in *; try discriminate; try reflexivity.
  destruct (N.compare x y) eqn:E1; try discriminate.
  - apply N.compare_eq in E1; subst y.
    destruct (N.compare x z) eqn:E2; try discriminate; try reflexivity.
    eapply IH; eauto.
  - destruct (N.compare y z) eqn:E2; try discriminate.
    + apply N.compare_eq in E2; subst z. rewrite E1. reflexivity.
    + rewrite N.compare_lt_iff in E1, E2. assert (x < z) by lia.
      rewrite <- N.compare_lt_iff in H. rewrite H. reflexivity.
Qed.

Lemma kcmp_gt_lt a b : kcmp a b = Gt <-> kcmp b a = Lt.
Proof. rewrite (kcmp_antisym a b). destruct (kcmp a b); cbn; split; congruence. Qed.

Lemma keqb_eq a b : keqb a b = true <-> a = b.
Proof. unfold keqb. rewrite <- kcmp_eq. destruct (kcmp a b); split; congruence. Qed.

Lemma keqb_refl a : keqb a a = true.
Proof. apply keqb_eq; reflexivity. Qed.

Lemma keqb_neq a b : keqb a b = false <-> a <> b.
Proof. rewrite <- keqb_eq. destruct (keqb a b); split; congruence. Qed.

Lemma kltb_irrefl a : kltb a a = false.
Proof. unfold kltb. rewrite kcmp_refl. reflexivity. Qed.

Lemma kltb_trans a b c : kltb a b = true -> kltb b c = true -> kltb a c = true.
Proof.
  unfold kltb. destruct (kcmp a b) eqn:E1; try discriminate.
  destruct (kcmp b c) eqn:E2; try discriminate. intros _ _.
  rewrite (kcmp_lt_trans _ _ _ E1 E2). reflexivity.
Qed.

Lemma kltb_neq a b : kltb a b = true -> a <> b.
Proof. intros H ->. rewrite kltb_irrefl in H. discriminate. Qed.

Lemma kcmp_total a b : kltb a b = true \/ a = b \/ kltb b a = true.
Proof.
  unfold kltb. destruct (kcmp a b) eqn:E.
  - right; left. apply kcmp_eq; exact E.
  - left; reflexivity.
  - right; right. apply kcmp_gt_lt in E. rewrite E. reflexivity.
Qed.

Lemma kleb_spec a b : kleb a b = true <-> kltb a b = true \/ a = b.
Proof.
  unfold kleb, kltb. destruct (kcmp a b) eqn:E.
  - apply kcmp_eq in E. split; auto.
  - split; auto.
  - split; [discriminate|]. intros [H|H]; [discriminate|]. subst. rewrite kcmp_refl in E. discriminate.
Qed.

Lemma has_prefix_app p k : has_prefix p (p ++ k) = true.
Proof. induction p as [|x p IH]; cbn; [reflexivity|]. rewrite N.eqb_refl. exact IH. Qed.

Lemma has_prefix_spec p k : has_prefix p k = true <-> exists s, k = p ++ s.
Proof.
  split.
  - revert k; induction p as [|x p IH]; intros k H; cbn in *.
    + exists k; reflexivity.
    + destruct k as [|y k]; [discriminate|]. apply andb_prop in H as [H1 H2].
      apply N.eqb_eq in H1; subst y. destruct (IH _ H2) as [s ->]. exists s; reflexivity.
  - intros [s ->]. apply has_prefix_app.
Qed.

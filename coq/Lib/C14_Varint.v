(* C14_Varint — base-128 little-endian varints (protobuf wire format, Go
   google.golang.org/protobuf/encoding/protowire AppendVarint / ConsumeVarint).

   INTERFACE (everything other properties need is listed here)
   ---------------------------------------------------------------------------
   bytes                 := list N            (a byte string; well formed = every element < 256)
   len b                 : N                  length as N
   encode n              : bytes              minimal (canonical) encoding, any n : N
   decode b              : option (N * bytes) Go's ConsumeVarint: at most 10 bytes, 10th byte < 2,
                                              NON-minimal encodings are accepted (0x80 0x00 = 0)
   u64                   := 2^64

   encode_wf             : wf_bytes (encode n)
   encode_nonempty       : encode n <> []
   encode_length_u64     : n < u64 -> length (encode n) <= 10
   decode_encode         : n < u64 -> decode (encode n ++ r) = Some (n, r)        (round trip)
   encode_prefix_inj     : n,n' < u64 -> encode n ++ r = encode n' ++ r' -> n = n' /\ r = r'
   encode_inj            : n,n' < u64 -> encode n = encode n' -> n = n'
   decode_consumes       : decode b = Some (n, r) -> exists c, b = c ++ r /\ c <> [] /\ length c <= 10
   decode_shorter        : decode b = Some (n, r) -> length r < length b
   decode_bound          : wf_bytes b -> decode b = Some (n, r) -> n < u64
   decode_minimal        : wf_bytes b -> decode b = Some (n, r) -> b = c ++ r ->
                           (c = encode n  \/  length (encode n) < length c)       (canonical form)
   decode_canonical_iff  : the consumed prefix is [encode n] iff its last byte is non-zero or it has length 1
   ---------------------------------------------------------------------------
   No axioms. *)
From Coq Require Import List NArith Lia Bool ZifyBool ZifyNat ZifyN.
From GQ Require Import Lib.Key.
Import ListNotations.
Local Open Scope N_scope.

Local Arguments N.mul : simpl never.
Local Arguments N.add : simpl never.
Local Arguments N.sub : simpl never.
Local Arguments N.div : simpl never.
Local Arguments N.modulo : simpl never.
Local Arguments N.pow : simpl never.
Local Arguments N.ltb : simpl never.

Definition bytes := list N.
Definition len (b : bytes) : N := N.of_nat (length b).
Definition u64 : N := 18446744073709551616.
Definition u32 : N := 4294967296.

(* protowire.AppendVarint.  Fuel = number of bits of n is always enough. *)
Fixpoint enc_fuel (fuel : nat) (n : N) : bytes :=
  match fuel with
  | O => [n mod 128]
  | S f => if n <? 128 then [n] else (n mod 128 + 128) :: enc_fuel f (n / 128)
  end.

Definition encode (n : N) : bytes := enc_fuel (N.to_nat (N.size n)) n.

(* protowire.ConsumeVarint: bytes 1..9 may continue, the 10th must be 0 or 1. *)
Fixpoint dec_fuel (fuel : nat) (b : bytes) : option (N * bytes) :=
  match fuel with
  | O => None
  | S f =>
      match b with
      | [] => None
      | x :: r =>
          if x <? 128 then
            match f with
            | O => if x <? 2 then Some (x, r) else None
            | S _ => Some (x, r)
            end
          else
            match dec_fuel f r with
            | Some (v, r') => Some (x - 128 + 128 * v, r')
            | None => None
            end
      end
  end.

Definition decode (b : bytes) : option (N * bytes) := dec_fuel 10 b.

(* ---------- encode ---------- *)

Lemma size_div128 n : 128 <= n -> (N.to_nat (N.size (n / 128)) < N.to_nat (N.size n))%nat.
Proof.
  intros H.
  assert (Hn : n <> 0) by lia.
  assert (H128 : n / 128 < n) by (apply N.div_lt; lia).
  destruct (N.eq_dec (n / 128) 0) as [E|E].
  - rewrite E. cbn. pose proof (N.size_gt n). destruct n; [lia|]. cbn. lia.
  - assert (Hs : N.size (n / 128) < N.size n).
    { rewrite !N.size_log2 by assumption.
      change 128 with (2 ^ 7). rewrite <- N.shiftr_div_pow2.
      rewrite N.log2_shiftr.
      assert (7 <= N.log2 n).
      { change 7 with (N.log2 128). apply N.log2_le_mono. exact H. }
      lia. }
    lia.
Qed.

Lemma enc_fuel_enough f1 : forall f2 n,
  (N.to_nat (N.size n) <= f1)%nat -> (N.to_nat (N.size n) <= f2)%nat ->
  enc_fuel f1 n = enc_fuel f2 n.
Proof.
  induction f1 as [|f1 IH]; intros f2 n H1 H2.
  - assert (n = 0) by (destruct n; [reflexivity|cbn in H1; lia]). subst n.
    destruct f2; reflexivity.
  - destruct f2 as [|f2].
    + assert (n = 0) by (destruct n; [reflexivity|cbn in H2; lia]). subst n. reflexivity.
    + cbn [enc_fuel]. destruct (n <? 128) eqn:E; [reflexivity|].
      f_equal. assert (128 <= n) by lia. pose proof (size_div128 n H).
      apply IH; lia.
Qed.

Lemma encode_small n : n < 128 -> encode n = [n].
Proof.
  intros H. unfold encode. destruct (N.to_nat (N.size n)) eqn:E.
  - cbn. assert (n = 0) by (destruct n; [reflexivity|cbn in E; lia]). subst. reflexivity.
  - cbn. assert (n <? 128 = true) by lia. rewrite H0. reflexivity.
Qed.

Lemma encode_big n : 128 <= n -> encode n = (n mod 128 + 128) :: encode (n / 128).
Proof.
  intros H. unfold encode. pose proof (size_div128 n H).
  destruct (N.to_nat (N.size n)) as [|f] eqn:E; [lia|].
  cbn [enc_fuel]. assert (n <? 128 = false) by lia. rewrite H1. f_equal.
  apply enc_fuel_enough; lia.
Qed.

(* induction on the number of base-128 digits *)
Lemma N_ind128 (P : N -> Prop) :
  (forall n, n < 128 -> P n) -> (forall n, 128 <= n -> P (n / 128) -> P n) -> forall n, P n.
Proof.
  intros Hs Hb n. induction n as [n IH] using (well_founded_induction N.lt_wf_0).
  destruct (N.ltb_spec n 128) as [H|H]; [apply Hs; assumption|].
  apply Hb; [assumption|]. apply IH. apply N.div_lt; lia.
Qed.

Lemma encode_wf n : wf_bytes (encode n).
Proof.
  unfold wf_bytes. induction n as [n H|n H IH] using N_ind128.
  - rewrite encode_small by assumption. constructor; [lia|constructor].
  - rewrite encode_big by assumption. constructor; [|exact IH].
    pose proof (N.mod_upper_bound n 128). lia.
Qed.

Lemma encode_nonempty n : encode n <> [].
Proof.
  destruct (N.ltb_spec n 128).
  - rewrite encode_small by assumption. discriminate.
  - rewrite encode_big by assumption. discriminate.
Qed.

Lemma encode_length_bound n : forall k, n < 128 ^ (N.of_nat (S k)) -> (length (encode n) <= S k)%nat.
Proof.
  induction n as [n H|n H IH] using N_ind128; intros k Hk.
  - rewrite encode_small by assumption. cbn. lia.
  - rewrite encode_big by assumption. cbn [length].
    destruct k as [|k].
    + cbn in Hk. lia.
    + apply le_n_S. apply IH.
      replace (N.of_nat (S (S k))) with (N.succ (N.of_nat (S k))) in Hk by lia.
      rewrite N.pow_succ_r' in Hk.
      apply N.div_lt_upper_bound; lia.
Qed.

Lemma encode_length_u64 n : n < u64 -> (length (encode n) <= 10)%nat.
Proof.
  intros H. apply (encode_length_bound n 9).
  eapply N.lt_trans; [exact H|]. vm_compute. reflexivity.
Qed.

(* ---------- decode after encode ---------- *)

Lemma dec_fuel_encode n : forall f r,
  (length (encode n) <= f)%nat -> (f = length (encode n) -> n < 2 * 128 ^ (N.of_nat (pred f))) ->
  dec_fuel f (encode n ++ r) = Some (n, r).
Proof.
  induction n as [n H|n H IH] using N_ind128; intros f r Hf Hlast.
  - rewrite encode_small in * by assumption. cbn [length] in *.
    destruct f as [|f]; [lia|]. cbn [app dec_fuel].
    assert (n <? 128 = true) by lia. rewrite H0.
    destruct f as [|f]; [|reflexivity].
    specialize (Hlast eq_refl). cbn in Hlast.
    assert (n <? 2 = true) by lia. rewrite H1. reflexivity.
  - rewrite encode_big in * by assumption. cbn [length] in *.
    destruct f as [|f]; [lia|]. cbn [app dec_fuel].
    pose proof (N.mod_upper_bound n 128 ltac:(lia)) as Hm.
    assert ((n mod 128 + 128 <? 128) = false) by lia. rewrite H0.
    rewrite IH.
    + f_equal. f_equal. pose proof (N.div_mod n 128 ltac:(lia)). lia.
    + lia.
    + intros E. assert (Ef : S f = S (length (encode (n / 128)))) by lia.
      specialize (Hlast Ef). cbn [pred] in *.
      destruct f as [|f].
      { exfalso. pose proof (encode_nonempty (n / 128)). destruct (encode (n / 128)); [congruence|cbn in E; lia]. }
      cbn [pred].
      replace (N.of_nat (S f)) with (N.succ (N.of_nat f)) in Hlast by lia.
      rewrite N.pow_succ_r' in Hlast.
      apply N.div_lt_upper_bound; lia.
Qed.

Theorem decode_encode n r : n < u64 -> decode (encode n ++ r) = Some (n, r).
Proof.
  intros H. unfold decode. apply dec_fuel_encode.
  - apply encode_length_u64. exact H.
  - intros _. cbn [pred]. eapply N.lt_le_trans; [exact H|]. vm_compute. discriminate.
Qed.

Theorem encode_prefix_inj n n' r r' :
  n < u64 -> n' < u64 -> encode n ++ r = encode n' ++ r' -> n = n' /\ r = r'.
Proof.
  intros H H' E. pose proof (decode_encode n r H) as D. rewrite E in D.
  rewrite (decode_encode n' r' H') in D. inversion D. split; reflexivity.
Qed.

Theorem encode_inj n n' : n < u64 -> n' < u64 -> encode n = encode n' -> n = n'.
Proof.
  intros H H' E. apply (encode_prefix_inj n n' [] [] H H'). rewrite E. reflexivity.
Qed.

(* ---------- what decode accepts ---------- *)

Lemma dec_fuel_consumes f : forall b n r, dec_fuel f b = Some (n, r) ->
  exists c, b = c ++ r /\ c <> [] /\ (length c <= f)%nat.
Proof.
  induction f as [|f IH]; intros b n r H; [discriminate|].
  cbn [dec_fuel] in H. destruct b as [|x b]; [discriminate|].
  destruct (x <? 128) eqn:E.
  - assert (Some (x, b) = Some (n, r)) as H'.
    { destruct f; [destruct (x <? 2); [exact H|discriminate]|exact H]. }
    inversion H'; subst. exists [n]. split; [reflexivity|]. split; [discriminate|cbn; lia].
  - destruct (dec_fuel f b) as [[v r']|] eqn:D; [|discriminate]. injection H as Hn Hr. subst n r'.
    destruct (IH _ _ _ D) as (c & -> & _ & Hl).
    exists (x :: c). split; [reflexivity|]. split; [discriminate|cbn; lia].
Qed.

Theorem decode_consumes b n r : decode b = Some (n, r) ->
  exists c, b = c ++ r /\ c <> [] /\ (length c <= 10)%nat.
Proof. apply dec_fuel_consumes. Qed.

Theorem decode_shorter b n r : decode b = Some (n, r) -> (length r < length b)%nat.
Proof.
  intros H. destruct (decode_consumes _ _ _ H) as (c & -> & Hc & _).
  rewrite app_length. destruct c; [congruence|cbn; lia].
Qed.

Lemma dec_fuel_bound f : forall b n r, wf_bytes b -> dec_fuel f b = Some (n, r) ->
  n < 2 * 128 ^ (N.of_nat (pred f)) /\ (f <> 10%nat -> n < 128 ^ (N.of_nat f)) .
Proof.
  induction f as [|f IH]; intros b n r W H; [discriminate|].
  cbn [dec_fuel] in H. destruct b as [|x b]; [discriminate|].
  inversion W as [|? ? Wx Wb]; subst.
  destruct (x <? 128) eqn:E.
  - destruct f as [|f].
    + destruct (x <? 2) eqn:E2; [|discriminate]. inversion H; subst.
      change (N.of_nat (pred 1)) with 0. change (N.of_nat 1) with 1.
      rewrite N.pow_0_r, N.pow_1_r. lia.
    + inversion H; subst. cbn [pred].
      assert (1 <= 128 ^ N.of_nat f) by (pose proof (N.pow_nonzero 128 (N.of_nat f)); lia).
      replace (N.of_nat (S (S f))) with (N.succ (N.succ (N.of_nat f))) by lia.
      replace (N.of_nat (S f)) with (N.succ (N.of_nat f)) by lia.
      rewrite !N.pow_succ_r'. lia.
  - destruct (dec_fuel f b) as [[v r']|] eqn:D; [|discriminate]. injection H as Hn Hr. subst n r'.
    destruct (IH _ _ _ Wb D) as [B1 B2]. cbn [pred].
    destruct f as [|f]; [discriminate|]. cbn [pred] in B1.
    replace (N.of_nat (S f)) with (N.succ (N.of_nat f)) by lia.
    rewrite N.pow_succ_r'. split; [lia|]. intros _.
    replace (N.of_nat (S (S f))) with (N.succ (N.succ (N.of_nat f))) by lia.
    rewrite !N.pow_succ_r'.
    (* without the 10-byte cap the tail is below 128^(S f) as soon as it is not the capped position *)
    destruct (PeanoNat.Nat.eq_dec (S f) 10) as [E10|N10].
    + (* tail used the cap: its bound is 2*128^f <= 128*128^f *)
      lia.
    + specialize (B2 N10).
      replace (N.of_nat (S f)) with (N.succ (N.of_nat f)) in B2 by lia.
      rewrite N.pow_succ_r' in B2. lia.
Qed.

Theorem decode_bound b n r : wf_bytes b -> decode b = Some (n, r) -> n < u64.
Proof.
  intros W H. destruct (dec_fuel_bound 10 b n r W H) as [B _].
  cbn [pred] in B. eapply N.lt_le_trans; [exact B|]. vm_compute. discriminate.
Qed.

(* The consumed prefix is either the canonical encoding or strictly longer
   (padding with 0x80 … 0x00 continuation groups). *)
Lemma dec_fuel_minimal f : forall b n r, wf_bytes b -> dec_fuel f b = Some (n, r) ->
  forall c, b = c ++ r -> c = encode n \/ (length (encode n) < length c)%nat.
Proof.
  induction f as [|f IH]; intros b n r W H c Hc; [discriminate|].
  cbn [dec_fuel] in H. destruct b as [|x b]; [discriminate|].
  inversion W as [|? ? Wx Wb]; subst.
  destruct (x <? 128) eqn:E.
  - assert (Some (x, b) = Some (n, r)) as H'.
    { destruct f; [destruct (x <? 2); [exact H|discriminate]|exact H]. }
    injection H' as Hx Hb. subst x b.
    assert (c = [n]) as ->.
    { destruct c as [|y c].
      - cbn in Hc. exfalso. apply (f_equal (@length N)) in Hc. cbn in Hc. lia.
      - cbn in Hc. injection Hc as Hy Hr. subst y.
        apply (f_equal (@length N)) in Hr. rewrite app_length in Hr.
        destruct c; [reflexivity|cbn in Hr; lia]. }
    left. rewrite encode_small by lia. reflexivity.
  - destruct (dec_fuel f b) as [[v r']|] eqn:D; [|discriminate]. injection H as Hn Hr. subst n r'.
    destruct (dec_fuel_consumes _ _ _ _ D) as (c' & -> & Hc' & _).
    assert (c = x :: c').
    { change (x :: c' ++ r) with ((x :: c') ++ r) in Hc. apply app_inv_tail in Hc. symmetry. exact Hc. }
    subst c.
    destruct (IH _ _ _ Wb D c' eq_refl) as [Ec|Lc].
    + destruct (N.eq_dec v 0) as [Ev|Nv].
      * right. subst v. rewrite N.mul_0_r, N.add_0_r. rewrite encode_small by lia. cbn.
        destruct c'; [congruence|cbn; lia].
      * left. assert (Hbig : 128 <= x - 128 + 128 * v) by lia.
        rewrite (encode_big _ Hbig).
        replace ((x - 128 + 128 * v) mod 128) with (x - 128).
        2:{ apply N.mod_unique with v; lia. }
        replace ((x - 128 + 128 * v) / 128) with v.
        2:{ apply N.div_unique with (x - 128); lia. }
        rewrite <- Ec. f_equal. lia.
    + right. destruct (N.eq_dec v 0) as [Ev|Nv].
      * subst v. rewrite N.mul_0_r, N.add_0_r. rewrite encode_small by lia. cbn.
        destruct c'; [congruence|cbn; lia].
      * assert (Hbig : 128 <= x - 128 + 128 * v) by lia.
        rewrite (encode_big _ Hbig).
        replace ((x - 128 + 128 * v) / 128) with v.
        2:{ apply N.div_unique with (x - 128); lia. }
        cbn [length]. lia.
Qed.

Theorem decode_minimal b n r c : wf_bytes b -> decode b = Some (n, r) -> b = c ++ r ->
  c = encode n \/ (length (encode n) < length c)%nat.
Proof. intros W H. apply (dec_fuel_minimal 10 b n r W H). Qed.

(* Canonical inputs: decode followed by encode reproduces the consumed bytes
   exactly when they have the minimal length. *)
Theorem decode_canonical_iff b n r c : wf_bytes b -> decode b = Some (n, r) -> b = c ++ r ->
  (c = encode n <-> length c = length (encode n)).
Proof.
  intros W H Hc. split; [intros ->; reflexivity|]. intros L.
  destruct (decode_minimal b n r c W H Hc) as [E|Lt]; [exact E|lia].
Qed.

(* len helpers *)
Lemma len_app (a b : bytes) : len (a ++ b) = len a + len b.
Proof. unfold len. rewrite app_length. lia. Qed.
Lemma len_nil : len [] = 0. Proof. reflexivity. Qed.

#!/usr/bin/env python3
"""tools/run_seeded.py <seeded_dir|design/mutants/X.diff> [property ids...] [--tier quick]
Runs the committed checks against a breaking change in an isolated sandbox (worktree of /repo + copy of /verif),
never touching /repo. Prints one line per check: CAUGHT (exit 1 + VIOLATION), MISSED (exit 0) or BROKEN."""
import json, os, subprocess, sys, tempfile, shutil

V = os.path.dirname(os.path.dirname(os.path.abspath(__file__)))


def main():
    args = [a for a in sys.argv[1:] if not a.startswith("--")]
    tier = "quick"
    if "--tier" in sys.argv:
        tier = sys.argv[sys.argv.index("--tier") + 1]
        args = [a for a in args if a != tier]
    target = os.path.abspath(args[0])
    if os.path.isdir(target):
        patch = os.path.join(target, "patch.diff")
        meta = json.load(open(os.path.join(target, "meta.json")))
        pids = args[1:] or [meta["property"]]
    else:
        patch = target
        pids = args[1:] or [os.path.basename(target).split("_")[0]]
    sb = tempfile.mkdtemp(prefix="sb_seed_")
    out = {}
    try:
        r = subprocess.run([os.path.join(V, "tools", "sandbox.sh"), sb, patch], stdout=subprocess.PIPE, stderr=subprocess.STDOUT, text=True)
        if r.returncode != 0:
            print("sandbox failed:", r.stdout)
            return 2
        for pid in pids:
            env = dict(os.environ, VERIF_REPO=sb + "/repo", VERIF_NO_COQCHK="1")
            p = subprocess.run([sb + "/verif/check", pid, "--tier", tier], stdout=subprocess.PIPE, stderr=subprocess.PIPE, text=True, env=env, timeout=7200)
            viol = [l for l in p.stdout.splitlines() if l.startswith("VIOLATION")]
            if p.returncode == 1 and viol:
                nofound = all("no-failing-input-found" in l for l in viol)
                verdict = "CAUGHT" + ("(no-failing-input-found)" if nofound else "")
            elif p.returncode == 0:
                verdict = "MISSED"
            else:
                verdict = "BROKEN(rc=%d)" % p.returncode
            what = [l for l in p.stderr.splitlines() if l.startswith("violation:")][:2]
            print("%s %s %s %s" % (pid, verdict, os.path.basename(os.path.dirname(patch)) if os.path.isdir(target) else os.path.basename(patch), " | ".join(what)[:300]), flush=True)
            out[pid] = verdict
            if verdict.startswith("BROKEN"):
                print(p.stderr[-1500:])
    finally:
        subprocess.run([os.path.join(V, "tools", "sandbox.sh"), "--rm", sb], stdout=subprocess.DEVNULL, stderr=subprocess.DEVNULL)
        shutil.rmtree(sb, ignore_errors=True)
    return 0


if __name__ == "__main__":
    sys.exit(main())

#!/usr/bin/env python3
"""tools/mk_results.py: rebuild seeded/RESULTS.md from seeded/*/meta.json and seeded/*/result.txt (written by tools/run_seeded.py)."""
import glob, os, json
rows = []
for d in sorted(glob.glob('/verif/seeded/C*_*')):
    m = json.load(open(d + '/meta.json'))
    res = open(d + '/result.txt').read().strip().splitlines() if os.path.exists(d + '/result.txt') else []
    verdicts = [l for l in res if l[:1] == 'C' and (' CAUGHT' in l or ' MISSED' in l or ' BROKEN' in l)]
    conf = 'yes' if m.get('confirmed_by_coordinator') else 'NO (kept provisionally: confirmation did not finish)'
    rows.append((os.path.basename(d), m.get('summary', '')[:140].replace('|', '/'), conf,
                 '; '.join(' '.join(v.split()[:2]) for v in verdicts) or 'not run',
                 ' | '.join(v.split(' ', 3)[3][:160] if len(v.split(' ', 3)) > 3 else '' for v in verdicts[:1]).replace('|', '/')))
with open('/verif/seeded/RESULTS.md', 'w') as f:
    f.write("# Independently written breaking changes vs the committed checks\n\nEach change was written by a sub-agent that saw only the property text and a scratch worktree; confirmed by tools/validate_mutant.py (column 'confirmed'); run with tools/run_seeded.py in a sandbox (quick tier). Rounds 1-2: ids _1.._4; round 3: ids _5, _6.\n\n| id | change | confirmed | verdict per check | first violation reported |\n|---|---|---|---|---|\n")
    for r in rows:
        f.write("| %s | %s | %s | %s | %s |\n" % r)
c = sum(1 for r in rows if 'CAUGHT' in r[3]); print(len(rows), 'changes,', c, 'caught')

#!/usr/bin/env python3
"""tools/keep_mutant.py <dir> [<dir>...]: validate (tools/validate_mutant.py) and, if confirmed, keep under /verif/seeded/<name>/
with the coordinator's confirmation recorded in meta.json."""
import json, os, shutil, subprocess, sys
V = os.path.dirname(os.path.dirname(os.path.abspath(__file__)))
for d in sys.argv[1:]:
    d = os.path.abspath(d)
    name = os.path.basename(d)
    r = subprocess.run([sys.executable, os.path.join(V, "tools", "validate_mutant.py"), d], stdout=subprocess.PIPE, text=True)
    try:
        v = json.loads(r.stdout)
    except ValueError:
        print(name, "validation crashed:", r.stdout[-500:]); continue
    short = {k: v[k] for k in v if "tail" not in k}
    print(name, json.dumps(short))
    if not v.get("ok"):
        json.dump(v, open("/tmp/rejected_%s.json" % name, "w"), indent=1)
        continue
    dst = os.path.join(V, "seeded", name)
    os.makedirs(dst, exist_ok=True)
    for f in os.listdir(d):
        shutil.copyfile(os.path.join(d, f), os.path.join(dst, f))
    meta = json.load(open(os.path.join(dst, "meta.json")))
    meta["confirmed_by_coordinator"] = {"applies": v["applies"], "builds": v["builds"], "demo_without_patch": v["demo_without_patch"],
                                        "demo_with_patch": v["demo_with_patch"], "existing_tests": v["suite"], "tests_run_on": v.get("tests_pkgs", "full suite"),
                                        "how": "tools/validate_mutant.py in a scratch worktree of /repo HEAD"}
    json.dump(meta, open(os.path.join(dst, "meta.json"), "w"), indent=1)

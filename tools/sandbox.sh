#!/bin/sh
# tools/sandbox.sh <dir> [patch.diff]
# Builds an isolated copy to try a change of go-quai without touching /repo or /verif:
#   <dir>/repo   git worktree of /repo HEAD (+ untracked verif hook files copied in, + optional patch applied)
#   <dir>/verif  copy of /verif (without .git/build/replays), harness go.mod pointing at <dir>/repo
# Then run:  VERIF_REPO=<dir>/repo <dir>/verif/check C17 --tier quick
# Remove with: tools/sandbox.sh --rm <dir>
set -e
if [ "$1" = "--rm" ]; then
  git -C /repo worktree remove --force "$2/repo" 2>/dev/null || true
  rm -rf "$2"
  git -C /repo worktree prune
  exit 0
fi
D="$1"; P="$2"
mkdir -p "$D"
git -C /repo worktree add --detach "$D/repo" HEAD >/dev/null 2>&1
# untracked hook files (build tag verif) not yet committed in /repo
(cd /repo && git ls-files --others --exclude-standard | grep 'verif_.*\.go$' || true) | while read f; do
  mkdir -p "$D/repo/$(dirname "$f")"; cp "/repo/$f" "$D/repo/$f"; done
if [ -n "$P" ]; then git -C "$D/repo" apply "$P"; fi
mkdir -p "$D/verif"
rsync -a --exclude .git --exclude build --exclude replays --exclude '.lock.*' --exclude '*.tmp.*' /verif/ "$D/verif/" || [ $? -eq 24 ]   # 24 = files vanished while copying (other builds running): harmless
if [ -n "$SANDBOX_HEAD" ]; then
  # committed state of /verif only (build output kept for speed): tracked files reset to HEAD by content, untracked sources dropped,
  # so that uncommitted work in progress of other agents cannot leak into the run
  mkdir -p "$D/verif.head" && git -C /verif archive HEAD | tar -x -C "$D/verif.head"
  rsync -rlpgoD -c "$D/verif.head/" "$D/verif/" && rm -rf "$D/verif.head"   # no -t: a file that differs gets mtime = now, so make rebuilds its .vo
  git -C /verif ls-files --others --exclude-standard | while read f; do rm -f "$D/verif/$f"; done
fi
sed -i "s#=> /repo#=> $D/repo#" "$D/verif/harness/go.mod"
echo "VERIF_REPO=$D/repo $D/verif/check <ID> --tier quick"

#!/usr/bin/env python3
"""tools/validate_mutant.py <mutant_dir> [--full]
Confirms an independently written breaking change before it is kept under /verif/seeded:
  1. the patch applies to a clean worktree of /repo HEAD and `go build ./...` succeeds with it;
  2. the demonstration PASSES without the patch and FAILS with it;
  3. the existing tests of every touched package and of its direct importers still pass with the patch
     (--full: the whole baseline suite).
Prints a JSON verdict. Uses a scratch worktree under /tmp and removes it."""
import json, os, re, shutil, subprocess, sys, tempfile

ENV = dict(os.environ, GOFLAGS="-mod=mod -trimpath", GOPROXY="off", GOSUMDB="off", GOTOOLCHAIN="local")  # -trimpath: scratch worktrees share the build cache


def sh(cmd, cwd, timeout=2400):
    p = subprocess.run(cmd, shell=True, cwd=cwd, env=ENV, stdout=subprocess.PIPE, stderr=subprocess.STDOUT, text=True, timeout=timeout, errors="replace")
    return p.returncode, p.stdout


def main():
    d = os.path.abspath(sys.argv[1])
    full = "--full" in sys.argv
    meta = json.load(open(os.path.join(d, "meta.json")))
    patch = os.path.join(d, "patch.diff")
    wt = tempfile.mkdtemp(prefix="val_mut_")
    os.rmdir(wt)
    res = {"dir": d, "property": meta.get("property")}
    try:
        rc, out = sh("git -C /repo worktree add --detach %s HEAD" % wt, "/")
        if rc != 0:
            res["error"] = "worktree: " + out
            return res
        demo_src = None
        for f in os.listdir(d):
            if f.endswith("_test.go") or (f.endswith(".go") and f != "patch.diff"):
                demo_src = os.path.join(d, f)
        demo_path = meta.get("demo_path")
        demo_cmd = meta.get("demo_cmd")
        touched = sorted(set(re.findall(r"^\+\+\+ b/(\S+)", open(patch).read(), flags=re.M)))
        res["touched"] = touched
        res["touches_tests"] = any(t.endswith("_test.go") for t in touched)

        def place_demo():
            if demo_src and demo_path:
                dst = os.path.join(wt, demo_path)
                if os.path.isdir(dst) or not dst.endswith(".go"):
                    dst = os.path.join(dst, os.path.basename(demo_src))
                os.makedirs(os.path.dirname(dst), exist_ok=True)
                shutil.copyfile(demo_src, dst)
                return dst
            return None

        dst = place_demo()
        rc, out = sh(demo_cmd, wt)
        res["demo_without_patch"] = "pass" if rc == 0 else "FAIL"
        res["demo_without_tail"] = out[-600:]
        rc, out = sh("git apply %s" % patch, wt)
        res["applies"] = rc == 0
        if rc != 0:
            res["error"] = out
            return res
        rc, out = sh("go build ./... ", wt)
        res["builds"] = rc == 0
        if rc != 0:
            res["error"] = out[-1500:]
            return res
        rc, out = sh(demo_cmd, wt)
        res["demo_with_patch"] = "fail" if rc != 0 else "PASS(unexpected)"
        res["demo_with_tail"] = out[-1200:]
        if dst and os.path.exists(dst):
            os.remove(dst)
        pkgs = sorted(set("./" + os.path.dirname(t) for t in touched if t.endswith(".go")))
        if full:
            rc, out = sh("go test -vet=off -count=1 -timeout 25m ./... 2>&1 | grep -v '^ok\\|no test files' | tail -40", wt, timeout=3600)
            res["suite"] = "pass" if "FAIL" not in out else "FAIL"
            res["suite_tail"] = out[-1500:]
        else:
            rc, lst = sh("go list -f '{{.ImportPath}} {{join .Imports \" \"}}' ./...", wt)
            mod = "github.com/dominant-strategies/go-quai/"
            want = set(pkgs)
            for line in lst.splitlines():
                parts = line.split()
                if not parts:
                    continue
                for p in pkgs:
                    if mod + p[2:] in parts[1:]:
                        want.add("./" + parts[0][len(mod):])
            rc, out = sh("go test -vet=off -timeout 25m %s 2>&1 | tail -60" % " ".join(sorted(want)), wt, timeout=3600)
            res["tests_pkgs"] = sorted(want)
            if "FAIL" in out or "panic:" in out:
                # timing-sensitive tests (gossip broadcast deadlines) fail on a loaded machine with or without any patch:
                # re-run each failing package alone, twice at most, before calling it a failure
                failing = sorted(set(re.findall(r"^FAIL\s+(github.com/dominant-strategies/go-quai/\S+)", out, flags=re.M)))
                still = []
                for fp in failing:
                    rel = "./" + fp[len(mod):]
                    okp = False
                    for _ in range(2):
                        rc2, out2 = sh("go test -vet=off -count=1 -timeout 25m %s 2>&1 | tail -30" % rel, wt, timeout=3600)
                        if "FAIL" not in out2 and "panic:" not in out2:
                            okp = True
                            break
                    if not okp:
                        still.append(fp)
                res["retried_alone"] = failing
                if failing and not still:
                    out = "all packages that failed in the parallel run pass when run alone: " + ", ".join(failing)
            res["suite"] = "pass" if ("FAIL" not in out and "panic:" not in out) else "FAIL"
            res["suite_tail"] = out[-1500:]
        res["ok"] = (res["demo_without_patch"] == "pass" and res["demo_with_patch"] == "fail" and res["builds"] and res["suite"] == "pass" and not res["touches_tests"])
        return res
    finally:
        subprocess.run("git -C /repo worktree remove --force %s; git -C /repo worktree prune" % wt, shell=True, stdout=subprocess.DEVNULL, stderr=subprocess.DEVNULL)
        shutil.rmtree(wt, ignore_errors=True)


if __name__ == "__main__":
    print(json.dumps(main(), indent=1))

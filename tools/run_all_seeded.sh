#!/bin/sh
# tools/run_all_seeded.sh [parallel] : run each kept change under seeded/ against its own property's quick check
# (plus the extra properties listed in seeded/<id>/also.txt if present) in sandboxes; writes seeded/RESULTS.md.
P=${1:-3}
cd /verif
ls -d seeded/C*_* | xargs -P "$P" -I{} sh -c 'd={}; extra=""; [ -f $d/also.txt ] && extra=$(cat $d/also.txt); own=$(python3 -c "import json;print(json.load(open(\"$d/meta.json\"))[\"property\"])"); python3 tools/run_seeded.py $d $own $extra > $d/result.txt 2>&1'
python3 - <<'PY'
import glob,os,json
rows=[]
for d in sorted(glob.glob('/verif/seeded/C*_*')):
    m=json.load(open(d+'/meta.json')); res=open(d+'/result.txt').read().strip().splitlines() if os.path.exists(d+'/result.txt') else []
    verdicts=[l for l in res if l[:1]=='C' and (' CAUGHT' in l or ' MISSED' in l or ' BROKEN' in l)]
    rows.append((os.path.basename(d), m.get('summary','')[:140].replace('|','/'), '; '.join(' '.join(v.split()[:2]) for v in verdicts), ' | '.join(v.split(' ',3)[3][:160] if len(v.split(' ',3))>3 else '' for v in verdicts[:1]).replace('|','/')))
with open('/verif/seeded/RESULTS.md','w') as f:
    f.write("# Independently written breaking changes vs the committed checks\n\nEach change was written by a sub-agent that saw only the property text and a scratch worktree; confirmed by tools/validate_mutant.py; run with tools/run_seeded.py in a sandbox (quick tier).\n\n| id | change | verdict per check | first violation reported |\n|---|---|---|---|\n")
    for r in rows: f.write("| %s | %s | %s | %s |\n"%r)
print(open('/verif/seeded/RESULTS.md').read()[-3000:])
PY

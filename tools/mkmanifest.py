#!/usr/bin/env python3
"""Regenerates /verif/MANIFEST.json from props/*.json (one descriptor per claimed property)."""
import glob, json, os, subprocess
V = os.path.dirname(os.path.dirname(os.path.abspath(__file__)))
props = [json.loads(l) for l in open(os.path.join(V, "properties.jsonl"))]
cfgs = {}
for p in glob.glob(os.path.join(V, "props", "C*.json")):
    c = json.load(open(p))
    if c.get("claimed", True):
        cfgs[c["id"]] = c
hooks = []
hp = os.path.join(V, "hooks_commits.txt")
if os.path.exists(hp):
    hooks = [l.split()[0] for l in open(hp) if l.strip() and not l.startswith("#")]
m = {
    "version": 1,
    "setup_cmd": "./check --setup",
    "hooks": {"guard": "verif",
              "enable": "go build -tags verif  (harness module /verif/harness with replace github.com/dominant-strategies/go-quai => /repo)",
              "baseline_off_cmd": "cd /repo && go test -mod=mod -json -vet=off -count=1 -timeout 25m ./...",
              "source_commits": hooks, "add_only": True},
    "engines": [{"name": "coq-model+diff", "path": "/verif/coq /verif/harness /verif/tools/check.py",
                 "serves_properties": sorted(cfgs),
                 "kind_free_text": "Coq 8.16.1 theorems over executable Gallina models (coq/Model, coq/Proofs, coq/Props); the model is tied to /repo on every run by generators (model data re-emitted from the source into coq/Generated) and by a correspondence check (the Go harness runs the real code, the same cases are evaluated by the model inside Coq with vm_compute and compared), plus model-independent property monitors on the real code that turn a broken proof/correspondence into a concrete failing input"}],
    "checks": [], "notes": "Design, trusted base, per-property theorems and limits: DESIGN.md. Known findings: known_findings.json.",
    "not_applicable": []}
for p in props:
    i = p["id"]
    if i in cfgs:
        c = cfgs[i]
        m["checks"].append({
            "property_id": i, "quick_cmd": "./check %s --tier quick" % i, "thorough_cmd": "./check %s --tier thorough" % i,
            "evidence_file": "/verif/evidence/%s.json" % i, "replay_cmd_template": "./check %s --replay {path}" % i,
            "engine": "coq-model+diff",
            "level_claimed": {"category": "proof", "text": c["level_text"], "design_ref": "§" + i},
            "level_note": c["level_note"], "technique": c.get("technique", "machine-checked Coq proof over an executable model + differential correspondence with /repo")})
    else:
        m["not_applicable"].append({"property_id": i, "reason": "not claimed yet: the Coq model and harness for this property are still under construction (see DESIGN.md §" + i + ")"})
json.dump(m, open(os.path.join(V, "MANIFEST.json"), "w"), indent=1)
print("claimed:", sorted(cfgs), "not claimed:", [x["property_id"] for x in m["not_applicable"]])

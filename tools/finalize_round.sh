#!/bin/sh
# tools/finalize_round.sh [parallel] [ids...]: coordinator end-of-round integration.
#  1. commit every untracked verif hook file of /repo (one small commit per property, build tag checked, both builds)
#  2. merge design/Cxx.findings.json into known_findings.json, regenerate MANIFEST.json
#  3. run the quick check of every property (or the given ids) on /repo, P at a time, and report the exit codes
# Commits nothing in /verif: look at the result first.
P=${1:-4}; shift 2>/dev/null
IDS="$*"; [ -z "$IDS" ] && IDS=$(cd /verif/props && ls C*.json | sed 's/.json//')
export GOFLAGS=-mod=mod GOPROXY=off GOSUMDB=off GOTOOLCHAIN=local
cd /repo
for p in $(git ls-files --others --exclude-standard | grep 'verif_c[0-9][0-9]_.*\.go$' | sed 's/.*verif_\(c[0-9][0-9]\)_.*/\1/' | sort -u); do
  HOOKS=$(git ls-files --others --exclude-standard | grep "verif_${p}_.*\.go$")
  for f in $HOOKS; do head -1 "$f" | grep -q '^//go:build verif' || { echo "hook $f lacks build tag"; exit 1; }; done
  PK=$(for f in $HOOKS; do echo ./$(dirname $f)/; done | sort -u)
  if go build -tags verif $PK && go build $PK; then
    P_UP=$(echo $p | tr a-z A-Z)
    git add $HOOKS && git commit -qm "verif hook for $P_UP: $(echo $HOOKS | tr '\n' ' ')(build tag verif, add-only)"
    echo "$(git rev-parse --short HEAD) $(echo $HOOKS | tr '\n' ' ')" >> /verif/hooks_commits.txt
    echo "hook committed: $HOOKS"
  else
    echo "HOOK BUILD FAILED for $p: $HOOKS"
  fi
done
git -C /repo checkout -- go.sum 2>/dev/null || true
cd /verif
python3 tools/merge_findings.py $IDS | grep -v "no findings file"
python3 tools/mkmanifest.py >/dev/null
mkdir -p /tmp/final_logs
echo $IDS | tr ' ' '\n' | xargs -P "$P" -I{} sh -c './check {} --tier quick > /tmp/final_logs/{}.log 2>&1; echo "{} rc=$? $(grep -c "^VIOLATION" /tmp/final_logs/{}.log) violations, $(grep -c "^KNOWN-FINDING" /tmp/final_logs/{}.log) known  $(tail -1 /tmp/final_logs/{}.log | cut -c1-120)"'

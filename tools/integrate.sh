#!/bin/sh
# tools/integrate.sh Cxx : commit the property's hook files in /repo (separate commit), merge findings,
# regenerate the manifest, run the quick check, commit /verif.
set -e
P="$1"; p=$(echo "$P" | tr 'A-Z' 'a-z')
cd /repo
HOOKS=$(git ls-files --others --exclude-standard | grep "verif_${p}_.*\.go$" || true)
if [ -n "$HOOKS" ]; then
  export GOFLAGS=-mod=mod GOPROXY=off GOSUMDB=off GOTOOLCHAIN=local
  for f in $HOOKS; do head -1 "$f" | grep -q '^//go:build verif' || { echo "hook $f lacks build tag"; exit 1; }; done
  go build -tags verif $(for f in $HOOKS; do echo ./$(dirname $f)/; done | sort -u) && go build $(for f in $HOOKS; do echo ./$(dirname $f)/; done | sort -u)
  git add $HOOKS && git commit -qm "verif hook for $P: $(echo $HOOKS | tr '\n' ' ')(build tag verif, add-only)"
  echo "$(git rev-parse --short HEAD) $(echo $HOOKS | tr '\n' ' ')" >> /verif/hooks_commits.txt
fi
git -C /repo checkout -- go.sum 2>/dev/null || true
cd /verif
python3 tools/merge_findings.py "$P"
python3 tools/mkmanifest.py >/dev/null
./check "$P" --tier quick; rc=$?
echo "check rc=$rc"
git add -A; git commit -qm "$P: model, proofs, harness, design notes (integrated)"; echo committed

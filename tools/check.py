#!/usr/bin/env python3
"""Entry point of every check:  ./check <ID> --tier quick|thorough   |  ./check --setup
   |  ./check <ID> --replay <file>.   See DESIGN.md section 1.1.

Pipeline per property:
  gen (model data regenerated from /repo)  ->  coq cone build (theorems + generated
  side conditions)  ->  go harness against /repo (-tags verif): observed behaviour +
  independent monitors  ->  model evaluated on the same cases inside Coq (vm_compute)
  ->  classification, evidence file, VIOLATION / KNOWN-FINDING lines, exit code.
"""
import argparse, concurrent.futures, fcntl, glob, hashlib, json, os, re, shutil, subprocess, sys, tempfile, time

VERIF = os.path.dirname(os.path.dirname(os.path.abspath(__file__)))
REPO = os.environ.get("VERIF_REPO", "/repo")
COQ = os.path.join(VERIF, "coq")
HARNESS = os.path.join(VERIF, "harness")
BIN = os.path.join(VERIF, "build", "bin")
ENV = dict(os.environ, GOFLAGS="-mod=mod", GOPROXY="off", GOSUMDB="off", GOTOOLCHAIN="local",
           CGO_ENABLED=os.environ.get("CGO_ENABLED", "1"))
FORBIDDEN = re.compile(r"\b(Admitted|admit|Axiom|Axioms|Parameter|Parameters|Conjecture|Conjectures|Hypothesis|Hypotheses|Variable|Variables)\b|Unset\s+Guard|bypass_check|type-in-type|impredicative-set|Admit Obligations")


def log(*a):
    print(*a, file=sys.stderr, flush=True)


def run(cmd, cwd=None, timeout=None, env=None, capture=True):
    t0 = time.time()
    try:
        p = subprocess.run(cmd, cwd=cwd, env=env or ENV, timeout=timeout, stdout=subprocess.PIPE if capture else None,
                           stderr=subprocess.STDOUT if capture else None, text=True, errors="replace")
        return p.returncode, p.stdout or "", time.time() - t0
    except subprocess.TimeoutExpired as e:
        out = e.stdout if isinstance(e.stdout, str) else (e.stdout or b"").decode("utf8", "replace")
        return 124, out + "\n[timeout after %ss]" % timeout, time.time() - t0


class Lock:
    def __init__(self, name):
        self.path = os.path.join(VERIF, ".lock." + name)

    def __enter__(self):
        self.f = open(self.path, "w")
        fcntl.flock(self.f, fcntl.LOCK_EX)
        return self

    def __exit__(self, *a):
        fcntl.flock(self.f, fcntl.LOCK_UN)
        self.f.close()


def load_cfg(pid):
    with open(os.path.join(VERIF, "props", pid + ".json")) as f:
        return json.load(f)


def all_ids():
    return sorted(os.path.basename(p)[:-5] for p in glob.glob(os.path.join(VERIF, "props", "C*.json")))


# ---------------------------------------------------------------- go side

def go_prepare():
    src, dst = os.path.join(REPO, "go.sum"), os.path.join(HARNESS, "go.sum")
    try:
        if not os.path.exists(dst) or open(src, "rb").read() != open(dst, "rb").read():
            shutil.copyfile(src, dst)
    except OSError as e:
        log("go.sum copy failed:", e)


def go_build(pkg, out):
    os.makedirs(BIN, exist_ok=True)
    return run(["go", "build", "-tags", "verif", "-o", out, pkg], cwd=HARNESS, timeout=1500)


def run_gens(cfg):
    """Regenerate coq/Generated/*.v from /repo. Returns (ok, log)."""
    logs = []
    for g in cfg.get("gens", []):
        binp = os.path.join(BIN, "gen_" + g["name"])
        rc, out, _ = go_build("./gen/" + g["name"], binp)
        if rc != 0:
            return False, "generator %s does not build against /repo:\n%s" % (g["name"], out)
        target = os.path.join(COQ, "Generated", g["out"])
        tmp = target + ".tmp.%d" % os.getpid()
        rc, out, _ = run([binp, "-repo", REPO, "-out", tmp], cwd=HARNESS, timeout=600)
        if rc != 0:
            if os.path.exists(tmp):
                os.remove(tmp)
            return False, "generator %s failed:\n%s" % (g["name"], out)
        with Lock("coq"):
            if not os.path.exists(target) or open(target, "rb").read() != open(tmp, "rb").read():
                os.replace(tmp, target)
            else:
                os.remove(tmp)
        logs.append(out)
    return True, "\n".join(logs)


# ---------------------------------------------------------------- coq side

def coq_makefile():
    files = []
    for d in ("Lib", "Generated", "Model", "Proofs", "Props"):
        files += sorted(glob.glob(os.path.join(COQ, d, "*.v")))
    body = "-Q . GQ\n" + "\n".join(os.path.relpath(f, COQ) for f in files) + "\n"
    cp = os.path.join(COQ, "_CoqProject")
    if not os.path.exists(cp) or open(cp).read() != body or not os.path.exists(os.path.join(COQ, "Makefile")):
        open(cp, "w").write(body)
        rc, out, _ = run(["coq_makefile", "-f", "_CoqProject", "-o", "Makefile"], cwd=COQ, timeout=120)
        if rc != 0:
            raise RuntimeError("coq_makefile failed: " + out)


def forbidden_scan(cfg):
    hits = []
    for d in ("Lib", "Generated", "Model", "Proofs", "Props"):
        for f in sorted(glob.glob(os.path.join(COQ, d, "*.v"))):
            inside_section = 0
            txt = re.sub(r"\(\*.*?\*\)", "", open(f).read(), flags=re.S)
            for i, line in enumerate(txt.split("\n"), 1):
                if re.match(r"\s*Section\b", line):
                    inside_section += 1
                if re.match(r"\s*End\b", line) and inside_section:
                    inside_section -= 1
                m = FORBIDDEN.search(line)
                if m:
                    w = m.group(0)
                    if w in ("Variable", "Variables", "Hypothesis", "Hypotheses") and inside_section:
                        continue
                    hits.append("%s:%d: %s" % (os.path.relpath(f, COQ), i, line.strip()))
    return hits


def coq_build(cfg, clean=False):
    """Build the property's cone. Returns dict(ok, out, obligations, discharged, assumptions, cmd)."""
    pid = cfg["id"]
    props = cfg.get("props_file", "Props/%s.v" % pid)
    target = props[:-2] + ".vo"
    res = {"cmd": "cd coq && make -j16 %s   (coq_makefile, full .vo build, coqc 8.16.1)" % target}
    src = open(os.path.join(COQ, props)).read()
    thms = re.findall(r"^\s*(?:Theorem|Corollary)\s+(\w+)", src, flags=re.M)
    res["theorems"] = thms
    res["obligations"] = len(thms)
    with Lock("coq"):
        coq_makefile()
        hits = forbidden_scan(cfg)
        if hits:
            res.update(ok=False, out="forbidden constructs in the development:\n" + "\n".join(hits), discharged=0, assumptions={})
            return res
        for ext in (".vo", ".glob", ".vok", ".vos"):
            p = os.path.join(COQ, props[:-2] + ext)
            if os.path.exists(p):
                os.remove(p)
        if clean:
            run(["make", "clean"], cwd=COQ, timeout=300)
            coq_makefile()
        rc, out, secs = run(["make", "-j16", target], cwd=COQ, timeout=cfg.get("coq_timeout", 1500))
    res["build_s"] = round(secs, 1)
    res["out"] = out
    res["ok"] = rc == 0
    # Print Assumptions blocks, in order of the Print commands in the Props file
    names = re.findall(r"^\s*Print Assumptions\s+(\w+)", src, flags=re.M)
    blocks = re.findall(r"(Closed under the global context|Axioms:\n(?:.+\n?)+?(?=\n|\Z|Closed under|Axioms:))", out)
    res["assumptions"] = {}
    for n, b in zip(names, blocks):
        res["assumptions"][n] = "closed" if b.startswith("Closed") else " ".join(b.split())
    if rc == 0:
        res["discharged"] = len(thms)
    else:
        m = re.search(r'File "\./%s", line (\d+)' % re.escape(props), out)
        if m:
            line = int(m.group(1))
            before = src.split("\n")[:line - 1]
            res["discharged"] = len(re.findall(r"^\s*(?:Theorem|Corollary)\s+\w+", "\n".join(before), flags=re.M))
            if res["discharged"] > 0:
                res["discharged"] -= 1  # the one being proved when the error hit
            res["failed_at"] = "%s line %d" % (props, line)
        else:
            res["discharged"] = 0
            m = re.search(r'File "\./([^"]+)", line (\d+)', out)
            res["failed_at"] = "%s line %s" % (m.group(1), m.group(2)) if m else "unknown"
    return res


def coqchk(cfg):
    pid = cfg["id"]
    mod = "GQ." + cfg.get("props_file", "Props/%s.v" % pid)[:-2].replace("/", ".")
    with Lock("coq"):
        rc, out, secs = run(["coqchk", "-silent", "-o", "-Q", ".", "GQ", mod], cwd=COQ, timeout=3000)
    return rc == 0, out, secs


FOOTER = "\nDefinition M := Eval vm_compute in (%s.mismatches cases).\nPrint M.\n"


def eval_shard(args):
    path, model = args
    with open(path, "a") as f:
        f.write(FOOTER % model)
    rc, out, secs = run(["coqc", "-Q", COQ, "GQ", os.path.basename(path)], cwd=os.path.dirname(path), timeout=1200)
    if rc != 0:
        return path, None, out
    flat = " ".join(out.split())
    m = re.search(r"M = \[(.*?)\] : list N", flat)
    if not m:
        return path, None, out
    ids = [int(x.strip().replace("%N", "")) for x in m.group(1).split(";") if x.strip()]
    return path, ids, out


def eval_cases(outdir, model):
    shards = sorted(glob.glob(os.path.join(outdir, "cases_*.v")))
    mism, errors = [], []
    with concurrent.futures.ThreadPoolExecutor(max_workers=8) as ex:
        for path, ids, out in ex.map(eval_shard, [(s, model) for s in shards]):
            if ids is None:
                errors.append("%s: %s" % (os.path.basename(path), out[-1500:]))
            else:
                mism += ids
    return len(shards), sorted(mism), errors


# ---------------------------------------------------------------- classification

def load_known(pid):
    out = []
    for p in [os.path.join(VERIF, "known_findings.json"), os.environ.get("VERIF_KNOWN")]:
        if p and os.path.exists(p):
            out += [k for k in json.load(open(p)) if k.get("property") == pid]
    return out


def sig_matches(entry, sig):
    s = entry.get("signature", "")
    return sig == s or (s.endswith("*") and sig.startswith(s[:-1]))


def write_replay(pid, rec):
    d = os.path.join(VERIF, "replays", pid)
    os.makedirs(d, exist_ok=True)
    h = hashlib.sha1(json.dumps(rec, sort_keys=True, default=str).encode()).hexdigest()[:10]
    path = os.path.join(d, "%s.json" % h)
    rec["replay_cmd"] = "./check %s --replay %s" % (pid, path)
    with open(path, "w") as f:
        json.dump(rec, f, indent=1, default=str)
    return path


def find_case(outdir, cid):
    p = os.path.join(outdir, "cases.jsonl")
    if not os.path.exists(p):
        return None
    with open(p) as f:
        for line in f:
            try:
                c = json.loads(line)
            except ValueError:
                continue
            if c.get("id") == cid:
                return c
    return None


def run_harness(cfg, tier, seed, n, outdir, replay=None, extra=None):
    pid = cfg["id"]
    h = cfg["harness"]
    binp = os.path.join(BIN, h)
    rc, out, secs = go_build("./cmd/" + h, binp)
    if rc != 0:
        return {"build_failed": True, "out": out}
    cmd = [binp, "-seed", str(seed), "-n", str(n), "-tier", tier, "-out", outdir]
    if replay:
        cmd += ["-replay", replay]
    cmd += extra or []
    env = dict(ENV, VERIF_REPO=REPO, VERIF_DIR=VERIF)
    rc, out, secs = run(cmd, cwd=outdir, timeout=cfg.get("harness_timeout", {}).get(tier, 1200), env=env)
    rep = None
    rp = os.path.join(outdir, "report.json")
    if os.path.exists(rp):
        try:
            rep = json.load(open(rp))
        except ValueError:
            rep = None
    return {"rc": rc, "out": out, "secs": secs, "report": rep}


def check(pid, tier, seed, replay=None):
    t0 = time.time()
    cfg = load_cfg(pid)
    known = load_known(pid)
    violations = []      # (replay_path, no_input_found)
    known_hit = {}
    notes = []
    go_prepare()
    outdir = tempfile.mkdtemp(prefix="verif-%s-" % pid)
    try:
        # 1. generated model data
        ok, glog = run_gens(cfg)
        gen_broken = None
        if not ok:
            gen_broken = glog
            notes.append("generator failed")
        # 2. theorems
        cb = coq_build(cfg, clean=(tier == "thorough" and os.environ.get("VERIF_NO_CLEAN") is None and cfg.get("clean_on_thorough", False)))
        if not cb["ok"]:
            log(cb["out"][-3000:])
        chk = None
        if tier == "thorough" and cb["ok"] and not replay and os.environ.get("VERIF_NO_COQCHK") is None:
            okc, outc, secsc = coqchk(cfg)
            chk = {"ok": okc, "secs": round(secsc, 1), "tail": outc[-4000:]}
            if not okc:
                log(outc[-3000:])
        # 3. implementation run + monitors
        n = cfg["n"][tier]
        hr = run_harness(cfg, tier, seed, n, outdir, replay=replay)
        rep = hr.get("report")
        harness_broken = None
        if hr.get("build_failed"):
            harness_broken = "harness (or /repo with -tags verif) does not build:\n" + hr["out"][-4000:]
        elif rep is None or hr["rc"] != 0:
            harness_broken = "harness exited %s without a usable report:\n%s" % (hr.get("rc"), hr["out"][-4000:])
        # 4. model on the same cases
        nshards, mism, eval_errors = (0, [], [])
        if rep is not None and cb["ok"]:
            nshards, mism, eval_errors = eval_cases(outdir, cfg.get("model", pid))
        # 5. classification
        failures = rep["monitor_failures"] if rep else []
        flagged_ids = set()
        unknown = {}
        for f in failures:
            c = f.get("case")
            if isinstance(c, dict) and "id" in c:
                flagged_ids.add(c["id"])
            ent = next((k for k in known if k.get("status") == "known" and sig_matches(k, f["signature"])), None)
            if ent is not None:
                known_hit.setdefault(ent["signature"], (ent, f))
            else:
                unknown.setdefault(f["signature"], f)
        for sig, f in unknown.items():
            path = write_replay(pid, {"property": pid, "kind": "monitor", "signature": sig, "what": f["what"], "case": f.get("case"),
                                      "seed": seed, "tier": tier})
            violations.append((path, False, f["what"]))
        need_search = []
        if gen_broken:
            need_search.append(("generator", gen_broken[-3000:]))
        if not cb["ok"]:
            need_search.append(("proof", "theorem/obligation no longer checks at %s (cone of %s)\n%s" % (cb.get("failed_at"), cfg.get("props_file", "Props/%s.v" % pid), cb["out"][-3000:])))
        if harness_broken:
            need_search.append(("harness", harness_broken))
        if eval_errors:
            need_search.append(("correspondence", "model evaluation failed:\n" + "\n".join(eval_errors)[-3000:]))
        unflagged = [i for i in mism if i not in flagged_ids]
        if unflagged:
            c = find_case(outdir, unflagged[0])
            need_search.append(("correspondence", {"what": "model (Model/%s.v) and implementation disagree on %d case(s); no monitor fails on them" % (cfg.get("model", pid), len(unflagged)),
                                                   "first_case": c, "case_ids": unflagged[:50]}))
        if need_search and not violations and not replay:
            # search for a concrete failing input on the real code (monitors only, larger run, fresh seed)
            sdir = tempfile.mkdtemp(prefix="verif-%s-search-" % pid)
            try:
                sn = cfg.get("search_n", {}).get(tier, n * 4)
                sr = run_harness(cfg, tier, seed + 7919, sn, sdir)
                srep = sr.get("report")
                if srep:
                    for f in srep["monitor_failures"]:
                        if any(k.get("status") == "known" and sig_matches(k, f["signature"]) for k in known):
                            continue
                        path = write_replay(pid, {"property": pid, "kind": "monitor(search)", "signature": f["signature"], "what": f["what"],
                                                  "case": f.get("case"), "seed": seed + 7919, "tier": tier, "broken": [k for k, _ in need_search]})
                        violations.append((path, False, f["what"]))
                        break
            finally:
                shutil.rmtree(sdir, ignore_errors=True)
        if need_search and not violations:
            kind, detail = need_search[0]
            path = write_replay(pid, {"property": pid, "kind": kind, "no_failing_input_found": True,
                                      "broken": [{"kind": k, "detail": d} for k, d in need_search],
                                      "theorems": cb.get("theorems"), "seed": seed, "tier": tier,
                                      "case": (detail.get("first_case") if isinstance(detail, dict) else None)})
            violations.append((path, True, kind))
        # 6. evidence
        tb = list(cfg.get("trusted_base", []))
        tb.append("Coq 8.16.1 kernel + coqc; vm_compute used for decidable side conditions and for evaluating the model on harness cases; native_compute not used")
        axioms = sorted(set(v for v in cb.get("assumptions", {}).values() if v != "closed"))
        tb.append("Print Assumptions: %d theorem(s) printed, %d closed under the global context%s" % (
            len(cb.get("assumptions", {})), sum(1 for v in cb.get("assumptions", {}).values() if v == "closed"),
            ("; axioms: " + " | ".join(axioms)) if axioms else "; no axioms"))
        if chk:
            tb.append("coqchk -silent -o re-checked the cone: %s in %ss" % ("ok" if chk["ok"] else "FAILED", chk["secs"]))
        cov = {
            "obligations": cb["obligations"], "discharged": cb["discharged"], "checker_cmd": cb["cmd"],
            "trusted_base": tb, "theorems": cb.get("theorems", []), "print_assumptions": cb.get("assumptions", {}),
            "coq_build_s": cb.get("build_s"),
            "evaluations": rep["evaluations"] if rep else 0,
            "distinct_nontrivial": rep["distinct_nontrivial"] if rep else 0,
            "rule": rep["rule"] if rep else "harness did not run",
            "samples": (rep["samples"] if rep and rep["samples"] else [{"theorems": cb.get("theorems", [])[:5]}]),
            "traces_validated_against_impl": rep.get("traces_validated_against_impl", 0) if rep else 0,
            "input_distribution": rep.get("distribution", {}) if rep else {},
            "model_case_shards": nshards, "model_impl_mismatches": len(mism),
            "monitor_failures": len(failures),
            "known_findings_hit": sorted(known_hit.keys()),
            "exhaustive": bool(rep.get("exhaustive")) if rep else False,
            "harness_notes": rep.get("notes", []) if rep else [], "notes": notes,
        }
        if chk:
            cov["coqchk"] = chk
        ev = {"property_id": pid, "tier": tier, "seed": seed, "level": "proof", "coverage": cov,
              "assumptions": cfg.get("assumptions", []), "wall_s": round(time.time() - t0, 1), "violations": len(violations)}
        if not replay:
            os.makedirs(os.path.join(VERIF, "evidence"), exist_ok=True)
            with open(os.path.join(VERIF, "evidence", pid + ".json"), "w") as f:
                json.dump(ev, f, indent=1, default=str)
        for sig, (ent, f) in sorted(known_hit.items()):
            print("KNOWN-FINDING: property=%s %s" % (pid, ent.get("what", sig)))
        for path, nofound, what in violations:
            log("violation:", str(what)[:600])
            print("VIOLATION property=%s replay=%s%s" % (pid, path, " no-failing-input-found" if nofound else ""))
        if replay and not violations:
            print("replay: no violation reproduced")
        log("%s %s: obligations %d/%d, cases %d, mismatches %d, monitor failures %d, %.1fs" % (
            pid, tier, cb["discharged"], cb["obligations"], cov["evaluations"], len(mism), len(failures), time.time() - t0))
        sys.stdout.flush()
        return 1 if violations else 0
    finally:
        shutil.rmtree(outdir, ignore_errors=True)


def setup():
    go_prepare()
    os.makedirs(BIN, exist_ok=True)
    os.makedirs(os.path.join(COQ, "Generated"), exist_ok=True)
    bad = 0
    for pid in all_ids():
        cfg = load_cfg(pid)
        ok, glog = run_gens(cfg)
        if not ok:
            log(glog)
            bad = 1
    with Lock("coq"):
        coq_makefile()
        rc, out, secs = run(["make", "-j16"], cwd=COQ, timeout=3000)
    log(out[-2000:])
    log("coq build: rc=%d %.0fs" % (rc, secs))
    bad |= rc != 0
    for pid in all_ids():
        cfg = load_cfg(pid)
        rc, out, secs = go_build("./cmd/" + cfg["harness"], os.path.join(BIN, cfg["harness"]))
        log("go build %s: rc=%d %.0fs" % (cfg["harness"], rc, secs))
        if rc != 0:
            log(out[-3000:])
            bad = 1
    return 1 if bad else 0


def main():
    ap = argparse.ArgumentParser()
    ap.add_argument("id", nargs="?")
    ap.add_argument("--tier", default=os.environ.get("VERIF_TIER", "quick"), choices=["quick", "thorough"])
    ap.add_argument("--setup", action="store_true")
    ap.add_argument("--replay")
    a = ap.parse_args()
    if a.setup:
        sys.exit(setup())
    if not a.id:
        ap.error("property id required")
    seed = int(os.environ.get("VERIF_SEED", "1") or 1)
    sys.exit(check(a.id, a.tier, seed, replay=a.replay))


if __name__ == "__main__":
    main()

#!/usr/bin/env python3
"""tools/merge_findings.py Cxx [...]: merge design/Cxx.findings.json entries into known_findings.json (idempotent)."""
import json, os, sys
V = os.path.dirname(os.path.dirname(os.path.abspath(__file__)))
kp = os.path.join(V, "known_findings.json")
known = json.load(open(kp))
for pid in sys.argv[1:]:
    fp = os.path.join(V, "design", pid + ".findings.json")
    if not os.path.exists(fp):
        print(pid, "no findings file"); continue
    for e in json.load(open(fp)):
        key = (e.get("property"), e.get("signature"))
        if any((k.get("property"), k.get("signature")) == key for k in known):
            continue
        known.append(e); print("added", key, e.get("status"))
json.dump(known, open(kp, "w"), indent=1)
